//! C09 — cipher and hash primitives compute the functions the formats specify.
//!
//! ENUM engine, in-process (`par_map`): every message length 0..=1024, every split point for
//! piecewise application, boundary keys / IVs / seeds / block indices, alignments, and for
//! the accelerated helpers every CPU-feature subset of the host, compared with independent
//! reference implementations (`crate::refimpl::{salsa20, arc4, lookup3, md5}`, written from
//! the algorithm descriptions and self-checked against published known-answer vectors at
//! start-up — a reference that fails its own vectors is a MACHINERY-ERROR, never a
//! violation).
//!
//! Reporting: a failing check reports, per (check, class), the *first failing case in
//! canonical enumeration order* (shortest input first); the signature is
//! `check[class]@minimal-case`, so one defect gives one signature per affected check and a
//! different defect in the same check gives a different minimal case.  For the SIMD helpers
//! the class is the CPU-feature subset and failing supersets of a failing subset are folded
//! into it.
//!
//! Oracle scope (decisions taken in the direction of not alarming):
//! * `vectorized_memcmp` with slices of different length returns the length ordering in the
//!   portable path as well; the property only says "what the portable fallback returns", so
//!   for unequal lengths the only oracle is `CpuFeatures::none()`; lexicographic order is
//!   required for equal lengths only.
//! * `simd_memcpy` with unequal lengths: oracle is the portable path (copies the common
//!   prefix, leaves the rest untouched).
//! * lookup3 with keys of 2^32 bytes or more (the C code truncates the length, the Rust code
//!   saturates) is outside the quantifier (lengths 0..=1024) and not examined.
//! * IDX guarded blocks are checked against what the code documents (hashlittle of the
//!   16 header bytes / of the whole entry block); whether other implementations hash the
//!   entry block per entry is a format question outside this property's primitives.

use crate::refimpl::{arc4 as rarc4, lookup3 as rl3, md5 as rmd5, salsa20 as rs20};
use crate::report::{Level, Report, Tier};
use crate::util::{Scratch, catch, fnv64, par_map};
use cascette_cache::simd::{CpuFeatures, SimdHashOperations, SimdMemoryOps, detect_cpu_features, global_simd_stats};
use cascette_crypto::arc4::Arc4Cipher;
use cascette_crypto::jenkins::{Jenkins96, hashlittle, hashlittle2};
use cascette_crypto::salsa20::{Salsa20Cipher, decrypt_salsa20, encrypt_salsa20};
use cascette_crypto::{ContentKey, EncodingKey, TactKey, TactKeyStore};
use cascette_formats::blte::{EncryptionSpec, decrypt_chunk_with_keys, encrypt_chunk_with_key};
use serde_json::{Value, json};
use std::cmp::Ordering;
use std::collections::{BTreeMap, BTreeSet};

const MAXLEN: usize = 1024;
const KEY_NAME: u64 = 0x1234_5678_90AB_CDEF;
/// Block indices of DESIGN C09 (+ 2^32+1): 2^32 and above exercise the truncation to 32 bits
/// that the format rule `(chunk_index >> 8i) & 0xFF, i < 4` implies.
const INDICES: [u64; 9] = [0, 1, 255, 256, 1 << 16, 1 << 31, (1 << 32) - 1, 1 << 32, (1 << 32) + 1];
const SEEDS: [u32; 6] = [0, 1, 0xdead_beef, 0xffff_ffff, 0x3D6B_E971, 0x8000_0000];
const PAT_NAMES: [&str; 4] = ["ff", "count", "zero", "seeded"];
const SIMD_MAX: usize = 200;
const NEEDLE_MAX: usize = 40;

/// Seed-derived filler bytes; the tag is hashed so that neighbouring tags give unrelated streams.
fn seeded_bytes(seed: u64, tag: u64, n: usize) -> Vec<u8> {
    crate::util::seeded_bytes(seed, fnv64(&tag.to_le_bytes()), n)
}

fn pattern(pat: usize, seed: u64, tag: u64, n: usize) -> Vec<u8> {
    match pat {
        0 => vec![0xFF; n],
        1 => (0..n).map(|i| (i as u8).wrapping_mul(7).wrapping_add(1)).collect(),
        2 => vec![0; n],
        _ => seeded_bytes(seed, tag, n),
    }
}

// ---------------------------------------------------------------------------------------
// shard bookkeeping
// ---------------------------------------------------------------------------------------

#[derive(Clone, Debug)]
struct Fail {
    check: String,
    class: String,
    order: Vec<u64>,
    case: Value,
    detail: String,
    count: u64,
}

#[derive(Default)]
struct Shard {
    evals: BTreeMap<&'static str, u64>,
    nontriv: BTreeMap<&'static str, u64>,
    outcomes: BTreeSet<u64>,
    fails: BTreeMap<(String, String), Fail>,
    samples: Vec<Value>,
    caps: Vec<String>,
    /// vacuity trackers: lookup3 tail classes seen, largest Salsa20 block count touched
    tails: BTreeSet<(bool, usize)>,
    max_blocks: usize,
    carry_scenarios: u64,
}

impl Shard {
    fn ev(&mut self, check: &'static str, n: u64, nontrivial: bool) {
        *self.evals.entry(check).or_default() += n;
        if nontrivial {
            *self.nontriv.entry(check).or_default() += n;
        }
    }
    fn outcome(&mut self, check: &str, d: u64) {
        if self.outcomes.len() < 8192 {
            let mut b = check.as_bytes().to_vec();
            b.extend_from_slice(&d.to_le_bytes());
            self.outcomes.insert(fnv64(&b));
        }
    }
    fn fail(&mut self, family: &str, check: &str, class: &str, order: &[u64], case: impl FnOnce() -> Value, detail: impl FnOnce() -> String) {
        let k = (check.to_string(), class.to_string());
        match self.fails.get_mut(&k) {
            Some(f) => {
                f.count += 1;
                if order < f.order.as_slice() {
                    let mut c = case();
                    c["check"] = json!(check);
                    c["family"] = json!(family);
                    f.order = order.to_vec();
                    f.case = c;
                    f.detail = detail();
                }
            }
            None => {
                let mut c = case();
                c["check"] = json!(check);
                c["family"] = json!(family);
                self.fails.insert(k, Fail { check: check.to_string(), class: class.to_string(), order: order.to_vec(), case: c, detail: detail(), count: 1 });
            }
        }
    }
    fn merge(&mut self, o: Shard) {
        for (k, v) in o.evals {
            *self.evals.entry(k).or_default() += v;
        }
        for (k, v) in o.nontriv {
            *self.nontriv.entry(k).or_default() += v;
        }
        self.outcomes.extend(o.outcomes);
        for (k, f) in o.fails {
            match self.fails.get_mut(&k) {
                Some(g) => {
                    g.count += f.count;
                    if f.order < g.order {
                        g.order = f.order;
                        g.case = f.case;
                        g.detail = f.detail;
                    }
                }
                None => {
                    self.fails.insert(k, f);
                }
            }
        }
        for s in o.samples {
            if self.samples.len() < 64 {
                self.samples.push(s);
            }
        }
        self.caps.extend(o.caps);
        self.tails.extend(o.tails);
        self.max_blocks = self.max_blocks.max(o.max_blocks);
        self.carry_scenarios += o.carry_scenarios;
    }
}

/// Replay filter: a field of the recorded case restricts the enumeration to that value;
/// an absent field (or no filter) matches everything.
#[inline]
fn want(only: Option<&Value>, field: &str, v: u64) -> bool {
    match only {
        None => true,
        Some(o) => o.get(field).and_then(Value::as_u64).is_none_or(|x| x == v),
    }
}
#[inline]
fn want_s(only: Option<&Value>, field: &str, v: &str) -> bool {
    match only {
        None => true,
        Some(o) => o.get(field).and_then(Value::as_str).is_none_or(|x| x == v),
    }
}

fn first_diff(a: &[u8], b: &[u8]) -> Option<usize> {
    if a.len() != b.len() {
        return Some(a.len().min(b.len()));
    }
    a.iter().zip(b.iter()).position(|(x, y)| x != y)
}

fn diff_detail(what: &str, got: &[u8], exp: &[u8]) -> String {
    match first_diff(got, exp) {
        None => format!("{what}: equal"),
        Some(p) => {
            let g = &got[p.min(got.len())..(p + 8).min(got.len())];
            let e = &exp[p.min(exp.len())..(p + 8).min(exp.len())];
            format!("{what}: output length {} (expected {}), first difference at byte {p}: got {} expected {}", got.len(), exp.len(), hex::encode(g), hex::encode(e))
        }
    }
}

// ---------------------------------------------------------------------------------------
// context
// ---------------------------------------------------------------------------------------

struct Ctx {
    seed: u64,
    tier: Tier,
    /// Salsa20 / BLTE keys: all-00, all-FF, 00..0F, seed-derived
    skeys: [[u8; 16]; 4],
    /// 8-byte IV material (the first 4 bytes are the 4-byte IV)
    sivs: [[u8; 8]; 4],
    plain: Vec<u8>,
    akeys: Vec<Vec<u8>>,
    /// (mask over [sse2,sse4_1,avx2,avx512], features, name), ordered by popcount then mask
    subsets: Vec<(u8, CpuFeatures, String)>,
    combos: Vec<(usize, usize, usize, usize)>,
}

fn feature_name(mask: u8) -> String {
    if mask == 0 {
        return "none".into();
    }
    let mut v = Vec::new();
    for (i, n) in ["sse2", "sse4_1", "avx2", "avx512"].iter().enumerate() {
        if mask & (1 << i) != 0 {
            v.push(*n);
        }
    }
    v.join("+")
}

fn make_ctx(tier: Tier, seed: u64) -> Ctx {
    let mut k3 = [0u8; 16];
    k3.copy_from_slice(&seeded_bytes(seed, 0xC09_0001, 16));
    let mut k2 = [0u8; 16];
    for (i, b) in k2.iter_mut().enumerate() {
        *b = i as u8;
    }
    let mut i3 = [0u8; 8];
    i3.copy_from_slice(&seeded_bytes(seed, 0xC09_0002, 8));
    let mut akeys: Vec<Vec<u8>> = Vec::new();
    // canonical order: the CASC-sized boundary keys first, then every length 1..=32, then long keys
    akeys.push(vec![0u8; 16]);
    akeys.push(vec![0xFF; 16]);
    akeys.push((0..16u8).collect());
    akeys.push(vec![1, 2, 3, 4, 5]);
    for n in 1..=32usize {
        akeys.push(seeded_bytes(seed, 0xC09_0100 + n as u64, n));
    }
    for n in [33usize, 255, 256] {
        akeys.push(seeded_bytes(seed, 0xC09_0100 + n as u64, n));
    }
    let host = detect_cpu_features();
    let present = [host.sse2, host.sse4_1, host.avx2, host.avx512];
    let mut subsets = Vec::new();
    for mask in 0u8..16 {
        if (0..4).any(|i| mask & (1 << i) != 0 && !present[i]) {
            continue; // never claim a feature the host lacks: the SIMD paths would be UB
        }
        let f = CpuFeatures { sse2: mask & 1 != 0, sse4_1: mask & 2 != 0, avx2: mask & 4 != 0, avx512: mask & 8 != 0 };
        subsets.push((mask, f, feature_name(mask)));
    }
    subsets.sort_by_key(|(m, _, _)| (m.count_ones(), *m));
    // (key, iv, ivlen, index) combinations for the piecewise checks; quick uses the first 4
    let mut combos = vec![(3, 3, 4, 1), (2, 2, 8, 0), (1, 1, 4, 6), (0, 0, 8, 7)];
    {
        // every boundary combination (both tiers)
        for key in 0..4 {
            for iv in 0..4 {
                for ivlen in [4usize, 8] {
                    for idx in 0..INDICES.len() {
                        if !combos.contains(&(key, iv, ivlen, idx)) {
                            combos.push((key, iv, ivlen, idx));
                        }
                    }
                }
            }
        }
    }
    Ctx {
        seed,
        tier,
        skeys: [[0; 16], [0xFF; 16], k2, k3],
        sivs: [[0; 8], [0xFF; 8], [1, 2, 3, 4, 5, 6, 7, 8], i3],
        plain: seeded_bytes(seed, 0xC09_0003, MAXLEN + 1),
        akeys,
        subsets,
        combos,
    }
}

// ---------------------------------------------------------------------------------------
// tasks
// ---------------------------------------------------------------------------------------

#[derive(Clone, Debug)]
enum Task {
    SalsaLong,
    SalsaCarry,
    SalsaIvLen,
    SalsaOneshot { key: usize, iv: usize, ivlen: usize, idx: usize },
    SalsaPiecewise { combo: usize, len: usize },
    SalsaThree { combo: usize, len: usize },
    Blte { typ: u8, key: usize, iv: usize, idx: usize },
    Arc4Oneshot { key: usize },
    Arc4Piecewise { key: usize, len: usize },
    Arc4KeyLen,
    Lookup3 { func: usize, pat: usize },
    Md5 { pat: usize },
    Users { which: usize },
    SimdMemcmp { sub: usize, len: usize },
    SimdMemmem { sub: usize, hay: usize },
    SimdMemset { sub: usize },
    SimdMemcpy { sub: usize },
    SimdHash { sub: usize },
}

impl Task {
    fn family(&self) -> &'static str {
        match self {
            Task::SalsaLong => "salsa20.longstream",
            Task::SalsaCarry => "salsa20.counter",
            Task::SalsaIvLen => "salsa20.ivlen",
            Task::SalsaOneshot { .. } => "salsa20.oneshot",
            Task::SalsaPiecewise { .. } => "salsa20.piecewise",
            Task::SalsaThree { .. } => "salsa20.threepiece",
            Task::Blte { .. } => "blte.crypt",
            Task::Arc4Oneshot { .. } => "arc4.oneshot",
            Task::Arc4Piecewise { .. } => "arc4.piecewise",
            Task::Arc4KeyLen => "arc4.keylen",
            Task::Lookup3 { .. } => "lookup3",
            Task::Md5 { .. } => "md5.keys",
            Task::Users { .. } => "users",
            Task::SimdMemcmp { .. } => "simd.memcmp",
            Task::SimdMemmem { .. } => "simd.memmem",
            Task::SimdMemset { .. } => "simd.memset",
            Task::SimdMemcpy { .. } => "simd.memcpy",
            Task::SimdHash { .. } => "simd.hash",
        }
    }
}

fn build_tasks(ctx: &Ctx) -> Vec<Task> {
    let mut t = Vec::new();
    // the sequential long-running tasks first so that they overlap with everything else
    t.push(Task::SalsaLong);
    t.push(Task::SalsaCarry);
    t.push(Task::SalsaIvLen);
    t.push(Task::Arc4KeyLen);
    for which in 0..6 {
        t.push(Task::Users { which });
    }
    // piecewise: longest lengths first (largest work items first)
    for len in (0..=MAXLEN).rev() {
        for combo in 0..ctx.combos.len() {
            t.push(Task::SalsaPiecewise { combo, len });
        }
        let nk = ctx.akeys.len();
        for key in 0..nk {
            t.push(Task::Arc4Piecewise { key, len });
        }
    }
    for len in 0..=192 {
        for combo in 0..16 {
            t.push(Task::SalsaThree { combo, len });
        }
    }
    for key in 0..4 {
        for iv in 0..4 {
            for ivlen in [4usize, 8] {
                for idx in 0..INDICES.len() {
                    t.push(Task::SalsaOneshot { key, iv, ivlen, idx });
                }
            }
        }
    }
    for typ in [b'S', b'A'] {
        for key in [2usize, 3] {
            for iv in [1usize, 2, 3] {
                for idx in 0..INDICES.len() {
                    t.push(Task::Blte { typ, key, iv, idx });
                }
            }
        }
    }
    for key in 0..ctx.akeys.len() {
        t.push(Task::Arc4Oneshot { key });
    }
    for func in 0..3 {
        for pat in 0..4 {
            t.push(Task::Lookup3 { func, pat });
        }
    }
    for pat in 0..4 {
        t.push(Task::Md5 { pat });
    }
    for sub in 0..ctx.subsets.len() {
        for hay in (0..=SIMD_MAX).rev() {
            t.push(Task::SimdMemmem { sub, hay });
        }
        for len in 0..=SIMD_MAX {
            t.push(Task::SimdMemcmp { sub, len });
        }
        t.push(Task::SimdMemset { sub });
        t.push(Task::SimdMemcpy { sub });
        t.push(Task::SimdHash { sub });
    }
    t
}

fn run_task(ctx: &Ctx, task: &Task, only: Option<&Value>, sh: &mut Shard) {
    if let Some(o) = only {
        if o.get("family").and_then(Value::as_str) != Some(task.family()) {
            return;
        }
    }
    match *task {
        Task::SalsaLong => salsa_long(ctx, only, sh),
        Task::SalsaCarry => salsa_carry(ctx, only, sh),
        Task::SalsaIvLen => salsa_ivlen(ctx, only, sh),
        Task::SalsaOneshot { key, iv, ivlen, idx } => salsa_oneshot(ctx, key, iv, ivlen, idx, only, sh),
        Task::SalsaPiecewise { combo, len } => salsa_piecewise(ctx, combo, len, only, sh),
        Task::SalsaThree { combo, len } => salsa_three(ctx, combo, len, only, sh),
        Task::Blte { typ, key, iv, idx } => blte_crypt(ctx, typ, key, iv, idx, only, sh),
        Task::Arc4Oneshot { key } => arc4_oneshot(ctx, key, only, sh),
        Task::Arc4Piecewise { key, len } => arc4_piecewise(ctx, key, len, only, sh),
        Task::Arc4KeyLen => arc4_keylen(ctx, only, sh),
        Task::Lookup3 { func, pat } => lookup3_task(ctx, func, pat, only, sh),
        Task::Md5 { pat } => md5_task(ctx, pat, only, sh),
        Task::Users { which } => users_task(ctx, which, only, sh),
        Task::SimdMemcmp { sub, len } => simd_memcmp(ctx, sub, len, only, sh),
        Task::SimdMemmem { sub, hay } => simd_memmem(ctx, sub, hay, only, sh),
        Task::SimdMemset { sub } => simd_memset(ctx, sub, only, sh),
        Task::SimdMemcpy { sub } => simd_memcpy(ctx, sub, only, sh),
        Task::SimdHash { sub } => simd_hash(ctx, sub, only, sh),
    }
}

// ---------------------------------------------------------------------------------------
// Salsa20 (CASC variant)
// ---------------------------------------------------------------------------------------

fn salsa_class(ivlen: usize, idx: usize) -> &'static str {
    if idx != 0 {
        "index"
    } else if ivlen == 8 {
        "iv8"
    } else {
        "base"
    }
}

fn idx_usize(i: u64) -> Option<usize> {
    usize::try_from(i).ok()
}

/// one-shot encrypt / decrypt / in-place cipher against the reference, and encrypt∘decrypt = id
fn salsa_oneshot(ctx: &Ctx, key: usize, iv: usize, ivlen: usize, idx: usize, only: Option<&Value>, sh: &mut Shard) {
    const F: &str = "salsa20.oneshot";
    if !(want(only, "key", key as u64) && want(only, "iv", iv as u64) && want(only, "ivlen", ivlen as u64) && want(only, "idx", idx as u64)) {
        return;
    }
    let k = ctx.skeys[key];
    let ivb = &ctx.sivs[iv][..ivlen];
    let Some(index) = idx_usize(INDICES[idx]) else { return };
    let nonce = rs20::casc_nonce(ivb, INDICES[idx]);
    let ks = rs20::keystream16(&k, &nonce, 0, MAXLEN);
    let class = salsa_class(ivlen, idx);
    for len in 0..=MAXLEN {
        if !want(only, "len", len as u64) {
            continue;
        }
        let pt = &ctx.plain[..len];
        let exp: Vec<u8> = pt.iter().zip(ks.iter()).map(|(a, b)| a ^ b).collect();
        let case = |api: &str| json!({"key": key, "iv": iv, "ivlen": ivlen, "idx": idx, "index": INDICES[idx], "len": len, "api": api});
        let ord = |a: u64| [len as u64, idx as u64, ivlen as u64, key as u64, iv as u64, a];
        sh.max_blocks = sh.max_blocks.max(len.div_ceil(64));
        // encrypt
        if want_s(only, "api", "encrypt") {
            sh.ev(F, 1, len > 0);
            match catch(|| encrypt_salsa20(pt, &k, ivb, index)) {
                Ok(Ok(ct)) => {
                    if ct != exp {
                        sh.fail(F, F, class, &ord(0), || case("encrypt"), || diff_detail("encrypt_salsa20 vs Salsa20 specification + BLTE nonce rule", &ct, &exp));
                    }
                    sh.outcome(F, (len.div_ceil(64) as u64) << 8 | u64::from(ct.first().copied().unwrap_or(0) & 7));
                    // encrypt ∘ decrypt = id
                    sh.ev("salsa20.roundtrip", 1, len > 0);
                    match catch(|| decrypt_salsa20(&ct, &k, ivb, index)) {
                        Ok(Ok(back)) if back == pt => {}
                        other => sh.fail(F, "salsa20.roundtrip", class, &ord(3), || case("encrypt"), || format!("decrypt_salsa20(encrypt_salsa20(x)) != x: {:?}", other.map(|r| r.map(|v| v.len()).map_err(|e| e.to_string())))),
                    }
                }
                Ok(Err(e)) => sh.fail(F, F, class, &ord(0), || case("encrypt"), || format!("encrypt_salsa20 returned an error for a valid IV: {e}")),
                Err(p) => sh.fail(F, F, class, &ord(0), || case("encrypt"), || format!("encrypt_salsa20 panicked: {p}")),
            }
        }
        // decrypt of the reference ciphertext
        if want_s(only, "api", "decrypt") {
            sh.ev(F, 1, len > 0);
            match catch(|| decrypt_salsa20(&exp, &k, ivb, index)) {
                Ok(Ok(p)) if p == pt => {}
                Ok(Ok(p)) => sh.fail(F, F, class, &ord(1), || case("decrypt"), || diff_detail("decrypt_salsa20 of a ciphertext produced by the reference", &p, pt)),
                Ok(Err(e)) => sh.fail(F, F, class, &ord(1), || case("decrypt"), || format!("decrypt_salsa20 error: {e}")),
                Err(p) => sh.fail(F, F, class, &ord(1), || case("decrypt"), || format!("decrypt_salsa20 panicked: {p}")),
            }
        }
        // Salsa20Cipher in place
        if want_s(only, "api", "cipher") {
            sh.ev(F, 1, len > 0);
            let r = catch(|| {
                let mut c = Salsa20Cipher::new(&k, ivb, index).map_err(|e| e.to_string())?;
                let mut buf = pt.to_vec();
                c.apply_keystream(&mut buf);
                Ok::<_, String>(buf)
            });
            match r {
                Ok(Ok(b)) if b == exp => {}
                Ok(Ok(b)) => sh.fail(F, F, class, &ord(2), || case("cipher"), || diff_detail("Salsa20Cipher::apply_keystream", &b, &exp)),
                Ok(Err(e)) => sh.fail(F, F, class, &ord(2), || case("cipher"), || format!("Salsa20Cipher::new error: {e}")),
                Err(p) => sh.fail(F, F, class, &ord(2), || case("cipher"), || format!("Salsa20Cipher panicked: {p}")),
            }
        }
        if len == 100 && key == 3 && iv == 3 && idx == 1 && only.is_none() {
            sh.samples.push(json!({"check": F, "key": hex::encode(k), "iv": hex::encode(ivb), "block_index": INDICES[idx], "len": len, "reference_ciphertext_head": hex::encode(&exp[..16])}));
        }
    }
}

/// a keystream applied in two pieces (every split point) and byte by byte equals one shot
fn salsa_piecewise(ctx: &Ctx, combo: usize, len: usize, only: Option<&Value>, sh: &mut Shard) {
    const F: &str = "salsa20.piecewise";
    if !(want(only, "combo", combo as u64) && want(only, "len", len as u64)) {
        return;
    }
    let (key, iv, ivlen, idx) = ctx.combos[combo];
    let k = ctx.skeys[key];
    let ivb = &ctx.sivs[iv][..ivlen];
    let Some(index) = idx_usize(INDICES[idx]) else { return };
    let pt = &ctx.plain[..len];
    let exp = rs20::casc_xor(pt, &k, ivb, INDICES[idx]);
    let mut buf = vec![0u8; len];
    for s in 0..=len {
        if !want(only, "split", s as u64) || !want_s(only, "check", F) {
            continue;
        }
        buf.copy_from_slice(pt);
        let r = catch(|| {
            let mut c = Salsa20Cipher::new(&k, ivb, index).map_err(|e| e.to_string())?;
            let (a, b) = buf.split_at_mut(s);
            c.apply_keystream(a);
            c.apply_keystream(b);
            Ok::<_, String>(())
        });
        sh.ev(F, 1, len > 0);
        let bad = match &r {
            Ok(Ok(())) => buf != exp,
            _ => true,
        };
        if bad {
            let class = if s % 64 == 0 { "split-on-block-boundary" } else { "split-inside-block" };
            sh.fail(F, F, class, &[len as u64, s as u64, combo as u64], || json!({"combo": combo, "key": key, "iv": iv, "ivlen": ivlen, "idx": idx, "len": len, "split": s}), || match &r {
                Ok(Ok(())) => diff_detail(&format!("apply_keystream(data[..{s}]) then apply_keystream(data[{s}..{len}]) vs one shot"), &buf, &exp),
                Ok(Err(e)) => format!("Salsa20Cipher::new error: {e}"),
                Err(p) => format!("panicked: {p}"),
            });
        }
    }
    if want_s(only, "check", "salsa20.bytewise") {
        buf.copy_from_slice(pt);
        let r = catch(|| {
            let mut c = Salsa20Cipher::new(&k, ivb, index).map_err(|e| e.to_string())?;
            for i in 0..len {
                c.apply_keystream(&mut buf[i..=i]);
                if i % 7 == 0 {
                    c.apply_keystream(&mut []); // an empty piece must not consume keystream
                }
            }
            Ok::<_, String>(())
        });
        sh.ev("salsa20.bytewise", 1, len > 0);
        if !matches!(r, Ok(Ok(()))) || buf != exp {
            sh.fail(F, "salsa20.bytewise", "all", &[len as u64, combo as u64], || json!({"combo": combo, "key": key, "iv": iv, "ivlen": ivlen, "idx": idx, "len": len}), || diff_detail("one byte per apply_keystream call vs one shot", &buf, &exp));
        }
    }
    sh.outcome(F, (len as u64) << 8 | u64::from(exp.last().copied().unwrap_or(0) & 3));
}

/// three pieces (every pair of split points) for lengths up to three blocks
fn salsa_three(ctx: &Ctx, combo: usize, len: usize, only: Option<&Value>, sh: &mut Shard) {
    const F: &str = "salsa20.threepiece";
    if !(want(only, "combo", combo as u64) && want(only, "len", len as u64)) {
        return;
    }
    let (key, iv, ivlen, idx) = ctx.combos[combo];
    let k = ctx.skeys[key];
    let ivb = &ctx.sivs[iv][..ivlen];
    let Some(index) = idx_usize(INDICES[idx]) else { return };
    let pt = &ctx.plain[..len];
    let exp = rs20::casc_xor(pt, &k, ivb, INDICES[idx]);
    let mut buf = vec![0u8; len];
    for s1 in 0..=len {
        if !want(only, "s1", s1 as u64) {
            continue;
        }
        for s2 in s1..=len {
            if !want(only, "s2", s2 as u64) {
                continue;
            }
            buf.copy_from_slice(pt);
            let r = catch(|| {
                let mut c = Salsa20Cipher::new(&k, ivb, index).map_err(|e| e.to_string())?;
                c.apply_keystream(&mut buf[..s1]);
                c.apply_keystream(&mut buf[s1..s2]);
                c.apply_keystream(&mut buf[s2..]);
                Ok::<_, String>(())
            });
            sh.ev(F, 1, len > 0);
            if !matches!(r, Ok(Ok(()))) || buf != exp {
                sh.fail(F, F, "all", &[len as u64, s1 as u64, s2 as u64, combo as u64], || json!({"combo": combo, "len": len, "s1": s1, "s2": s2}), || diff_detail("three-piece application vs one shot", &buf, &exp));
            }
        }
    }
}

/// IV lengths: 4 and 8 are the format's; every other length 0..=16 (and a few longer) is
/// documented as rejected with an error (never a panic).
fn salsa_ivlen(ctx: &Ctx, only: Option<&Value>, sh: &mut Shard) {
    const F: &str = "salsa20.ivlen";
    let k = ctx.skeys[3];
    let ivmat = seeded_bytes(ctx.seed, 0xC09_0004, 256);
    for n in (0..=16usize).chain([17, 32, 255]) {
        if !want(only, "ivlen", n as u64) {
            continue;
        }
        let valid = n == 4 || n == 8;
        let r = catch(|| (Salsa20Cipher::new(&k, &ivmat[..n], 0).is_ok(), encrypt_salsa20(b"abc", &k, &ivmat[..n], 0).is_ok(), decrypt_salsa20(b"abc", &k, &ivmat[..n], 0).is_ok()));
        sh.ev(F, 3, true);
        let (class, detail) = match r {
            Ok((a, b, c)) if a == valid && b == valid && c == valid => {
                sh.outcome(F, valid as u64);
                continue;
            }
            Ok(t) if valid => ("rejects-valid", format!("IV length {n}: (new, encrypt, decrypt) accepted = {t:?}, the format uses 4- and 8-byte IVs")),
            Ok(t) => ("accepts-invalid", format!("IV length {n}: (new, encrypt, decrypt) accepted = {t:?}, documented as an error")),
            Err(p) => ("panic", format!("IV length {n}: panicked: {p}")),
        };
        sh.fail(F, F, class, &[n as u64], || json!({"ivlen": n}), || detail);
    }
}

/// one long stream applied in irregular pieces: the 64-bit block counter's low word passes
/// 2^8, 2^16 (quick) and 2^22 (thorough)
fn salsa_long(ctx: &Ctx, only: Option<&Value>, sh: &mut Shard) {
    const F: &str = "salsa20.longstream";
    let total: u64 = ctx.tier.pick(1 << 24, 1 << 28);
    let k = ctx.skeys[3];
    let ivb = &ctx.sivs[3][..4];
    let nonce = rs20::casc_nonce(ivb, 2);
    let sizes = [1usize, 63, 64, 65, 4096, 4097, 65536 + 17, 127, 128, 1 << 20];
    let r = catch(|| {
        let mut c = Salsa20Cipher::new(&k, ivb, 2).map_err(|e| e.to_string())?;
        let mut off: u64 = 0;
        let mut i = 0usize;
        let mut pieces = 0u64;
        let mut buf: Vec<u8> = Vec::new();
        while off < total {
            let n = sizes[i % sizes.len()].min((total - off) as usize);
            i += 1;
            buf.clear();
            buf.resize(n, 0);
            c.apply_keystream(&mut buf);
            let blk = off / 64;
            let skip = (off % 64) as usize;
            let ks = rs20::keystream16(&k, &nonce, blk, skip + n);
            pieces += 1;
            if buf[..] != ks[skip..] {
                let p = first_diff(&buf, &ks[skip..]).unwrap_or(0) as u64;
                return Ok((pieces, Some((off + p, hex::encode(&buf[p as usize..(p as usize + 8).min(n)]), hex::encode(&ks[skip + p as usize..(skip + p as usize + 8).min(skip + n)])))));
            }
            off += n as u64;
        }
        Ok::<_, String>((pieces, None))
    });
    let _ = only;
    sh.max_blocks = sh.max_blocks.max((total / 64) as usize);
    match r {
        Ok(Ok((pieces, None))) => {
            sh.ev(F, pieces, true);
            sh.outcome(F, pieces);
            sh.samples.push(json!({"check": F, "stream_bytes": total, "pieces_compared": pieces, "last_block_counter": total / 64 - 1}));
        }
        Ok(Ok((pieces, Some((at, got, exp))))) => {
            sh.ev(F, pieces, true);
            let blk = at / 64;
            let class = if blk < 256 { "counter<2^8" } else if blk < 65536 { "counter<2^16" } else { "counter>=2^16" };
            sh.fail(F, F, class, &[at], || json!({"first_bad_byte": at, "block_counter": blk}), || format!("keystream differs from the specification at stream byte {at} (block counter {blk}): got {got} expected {exp}"));
        }
        Ok(Err(e)) => sh.fail(F, F, "error", &[0], || json!({}), || e),
        Err(p) => sh.fail(F, F, "panic", &[0], || json!({}), || format!("panicked: {p}")),
    }
}

/// Locate the 16-word state inside a fresh `Salsa20Cipher` (by searching the object's bytes
/// for the state the specification prescribes after one block: counter = 1) and overwrite
/// the two counter words.  This replaces a 256 GiB stream: it is the only way to reach the
/// carry from state word 8 into word 9 through the real `generate_keystream`.
/// Returns Err (→ the scenario is skipped and reported as a cap) if the object does not
/// look as expected; nothing is written in that case.
fn poke_counter(c: &mut Salsa20Cipher, key: &[u8; 16], nonce: &[u8; 8], lo: u32, hi: u32) -> Result<(), String> {
    let size = std::mem::size_of::<Salsa20Cipher>();
    if size != 64 + 64 + std::mem::size_of::<usize>() {
        return Err(format!("size_of::<Salsa20Cipher>() = {size}, expected state + keystream + position without padding"));
    }
    let w = |b: &[u8]| u32::from_le_bytes([b[0], b[1], b[2], b[3]]);
    let mut exp = [0u32; 16];
    exp[0] = w(b"expa");
    exp[5] = w(b"nd 1");
    exp[10] = w(b"6-by");
    exp[15] = w(b"te k");
    for i in 0..4 {
        exp[1 + i] = w(&key[4 * i..]);
        exp[11 + i] = exp[1 + i];
    }
    exp[6] = w(&nonce[0..]);
    exp[7] = w(&nonce[4..]);
    exp[8] = 1;
    exp[9] = 0;
    let expb: Vec<u8> = exp.iter().flat_map(|x| x.to_ne_bytes()).collect();
    let p = std::ptr::from_mut(c).cast::<u8>();
    // SAFETY: `c` is a live, exclusively borrowed object of exactly `size` bytes without
    // padding (checked above: the three fields' sizes add up to the object size).
    let hits: Vec<usize> = {
        let bytes = unsafe { std::slice::from_raw_parts(p.cast_const(), size) };
        (0..=size - 64).step_by(4).filter(|o| bytes[*o..*o + 64] == expb[..]).collect()
    };
    if hits.len() != 1 {
        return Err(format!("state pattern found {} times in the object", hits.len()));
    }
    // SAFETY: offsets hits[0]+32 / +36 are the u32 counter words of the located [u32; 16]
    // state; any bit pattern is a valid u32.
    unsafe {
        p.add(hits[0] + 32).cast::<u32>().write_unaligned(lo);
        p.add(hits[0] + 36).cast::<u32>().write_unaligned(hi);
    }
    Ok(())
}

fn salsa_carry(ctx: &Ctx, only: Option<&Value>, sh: &mut Shard) {
    const F: &str = "salsa20.counter";
    // (low word, high word) the counter is set to after block 0 has been generated
    let scen: [(u32, u32); 6] = [(0xFFFF_FFFF, 0), (0xFFFF_FFFE, 0), (0xFFFF_FFFF, 5), (0x0000_00FF, 0), (0x0000_FFFF, 7), (0xFFFF_FFFD, 0x7FFF_FFFF)];
    for (si, (lo, hi)) in scen.iter().enumerate() {
        if !want(only, "scenario", si as u64) {
            continue;
        }
        for (key, iv) in [(3usize, 3usize), (1, 1)] {
            if !(want(only, "key", key as u64) && want(only, "iv", iv as u64)) {
                continue;
            }
            let k = ctx.skeys[key];
            let ivb = &ctx.sivs[iv][..8];
            let nonce = rs20::casc_nonce(ivb, 0);
            let start = (u64::from(*hi) << 32) | u64::from(*lo);
            let r = catch(|| {
                let mut c = Salsa20Cipher::new(&k, ivb, 0).map_err(|e| e.to_string())?;
                poke_counter(&mut c, &k, &nonce, *lo, *hi)?;
                let mut buf = vec![0u8; 64 * 6];
                c.apply_keystream(&mut buf[..100]);
                c.apply_keystream(&mut buf[100..]);
                Ok::<_, String>(buf)
            });
            match r {
                Ok(Ok(buf)) => {
                    sh.carry_scenarios += 1;
                    // block 0 was generated before the poke; the following blocks use the poked counter
                    let mut exp = rs20::block16(&k, &nonce, 0).to_vec();
                    for j in 0..5u64 {
                        exp.extend_from_slice(&rs20::block16(&k, &nonce, start.wrapping_add(j)));
                    }
                    sh.ev(F, 6, true);
                    sh.outcome(F, si as u64);
                    if let Some(p) = first_diff(&buf, &exp) {
                        let b = p / 64;
                        let ctr = if b == 0 { 0 } else { start.wrapping_add(b as u64 - 1) };
                        let class = if b == 0 {
                            "block0"
                        } else if (ctr & 0xFFFF_FFFF) == 0 && ctr != 0 {
                            "after-low-word-wrap"
                        } else if ctr >> 32 != 0 {
                            "high-word-nonzero"
                        } else {
                            "low-word"
                        };
                        sh.fail(F, F, class, &[si as u64, b as u64, key as u64], || json!({"scenario": si, "counter_start": format!("{start:#x}"), "key": key, "iv": iv, "bad_block": b}), || {
                            format!("keystream block with 64-bit counter {ctr:#x} differs from the specification (counter = words 8,9 little-endian): got {} expected {}", hex::encode(&buf[p..p + 8]), hex::encode(&exp[p..p + 8]))
                        });
                    }
                    if si == 0 && key == 3 && only.is_none() {
                        sh.samples.push(json!({"check": F, "counter_after_block0_set_to": format!("{start:#x}"), "blocks_compared": 6, "block_at_2^32_head": hex::encode(&exp[128..136])}));
                    }
                }
                Ok(Err(e)) => sh.caps.push(format!("salsa20.counter scenario {si} skipped (state not reachable): {e}")),
                Err(p) => sh.fail(F, F, "panic", &[si as u64], || json!({"scenario": si, "key": key, "iv": iv}), || format!("panicked: {p}")),
            }
        }
    }
}

// ---------------------------------------------------------------------------------------
// BLTE 'E' chunks: how (key, IV, chunk index) reach the ciphers
// ---------------------------------------------------------------------------------------

fn blte_header(ivb: &[u8], typ: u8) -> Vec<u8> {
    // [key_name_size:1] [key_name:8 LE] [iv_size:1] [iv] [type:1]  (docs/src/compression/blte.md)
    let mut h = vec![8u8];
    h.extend_from_slice(&KEY_NAME.to_le_bytes());
    h.push(ivb.len() as u8);
    h.extend_from_slice(ivb);
    h.push(typ);
    h
}

fn blte_ref_ct(typ: u8, pt: &[u8], key: &[u8; 16], ivb: &[u8], index: u64) -> Vec<u8> {
    if typ == b'S' { rs20::casc_xor(pt, key, ivb, index) } else { rarc4::xor(&rarc4::blte_key(key, ivb, index), pt) }
}

fn blte_crypt(ctx: &Ctx, typ: u8, key: usize, iv: usize, idx: usize, only: Option<&Value>, sh: &mut Shard) {
    let check: &'static str = if typ == b'S' { "blte.salsa20" } else { "blte.arc4" };
    const F: &str = "blte.crypt";
    if !(want(only, "typ", u64::from(typ)) && want(only, "key", key as u64) && want(only, "iv", iv as u64) && want(only, "idx", idx as u64)) {
        return;
    }
    let k = ctx.skeys[key];
    let Some(index) = idx_usize(INDICES[idx]) else { return };
    let mut store = TactKeyStore::empty();
    store.add(TactKey::new(KEY_NAME, k));
    let mut iv4 = [0u8; 4];
    iv4.copy_from_slice(&ctx.sivs[iv][..4]);
    let spec = if typ == b'S' { EncryptionSpec::salsa20(KEY_NAME, iv4) } else { EncryptionSpec::arc4(KEY_NAME, iv4) };
    for len in 0..=MAXLEN {
        if !want(only, "len", len as u64) {
            continue;
        }
        // the decrypted chunk starts with its own mode byte: 'N' = stored
        let mut pt = vec![b'N'];
        pt.extend_from_slice(&ctx.plain[..len]);
        let case = |api: &str, ivlen: usize| json!({"typ": typ, "key": key, "iv": iv, "idx": idx, "index": INDICES[idx], "len": len, "api": api, "ivlen": ivlen});
        let ord = |a: u64| [len as u64, idx as u64, key as u64, iv as u64, a];
        if want_s(only, "api", "encrypt") {
            let mut exp = blte_header(&iv4, typ);
            exp.extend_from_slice(&blte_ref_ct(typ, &pt, &k, &iv4, INDICES[idx]));
            sh.ev(check, 1, true);
            match catch(|| encrypt_chunk_with_key(&pt, spec, &k, index)) {
                Ok(Ok(out)) => {
                    sh.outcome(check, u64::from(out.last().copied().unwrap_or(0) & 7) | (idx as u64) << 8);
                    if out != exp {
                        sh.fail(F, check, "encrypt", &ord(0), || case("encrypt", 4), || {
                            let p = first_diff(&out, &exp).unwrap_or(0);
                            format!("encrypt_chunk_with_key: {} of the chunk differs from the BLTE format ({})", if p < 15 { "the header" } else { "the encrypted payload" }, diff_detail("chunk", &out, &exp))
                        });
                    }
                }
                Ok(Err(e)) => sh.fail(F, check, "encrypt", &ord(0), || case("encrypt", 4), || format!("encrypt_chunk_with_key error: {e}")),
                Err(p) => sh.fail(F, check, "encrypt", &ord(0), || case("encrypt", 4), || format!("encrypt_chunk_with_key panicked: {p}")),
            }
        }
        if want_s(only, "api", "decrypt") && len >= 1 {
            for ivlen in [4usize, 8] {
                if !want(only, "ivlen", ivlen as u64) {
                    continue;
                }
                let ivb = &ctx.sivs[iv][..ivlen];
                let mut chunk = blte_header(ivb, typ);
                chunk.extend_from_slice(&blte_ref_ct(typ, &pt, &k, ivb, INDICES[idx]));
                sh.ev(check, 1, true);
                match catch(|| decrypt_chunk_with_keys(&chunk, &store, index)) {
                    Ok(Ok(out)) if out[..] == pt[1..] => {}
                    Ok(Ok(out)) => sh.fail(F, check, "decrypt", &ord(ivlen as u64), || case("decrypt", ivlen), || diff_detail("decrypt_chunk_with_keys of a chunk encrypted by the reference per the BLTE format", &out, &pt[1..])),
                    Ok(Err(e)) => sh.fail(F, check, "decrypt", &ord(ivlen as u64), || case("decrypt", ivlen), || format!("decrypt_chunk_with_keys of a chunk encrypted by the reference failed: {e}")),
                    Err(p) => sh.fail(F, check, "decrypt", &ord(ivlen as u64), || case("decrypt", ivlen), || format!("decrypt_chunk_with_keys panicked: {p}")),
                }
            }
        }
    }
}

// ---------------------------------------------------------------------------------------
// ARC4
// ---------------------------------------------------------------------------------------

fn arc4_class(k: &[u8]) -> &'static str {
    if k.len() == 16 { "key16" } else { "other-key-length" }
}

fn arc4_oneshot(ctx: &Ctx, key: usize, only: Option<&Value>, sh: &mut Shard) {
    const F: &str = "arc4.oneshot";
    if !want(only, "key", key as u64) {
        return;
    }
    let k = &ctx.akeys[key];
    let ks = rarc4::Rc4::new(k).keystream(MAXLEN);
    let class = arc4_class(k);
    for len in 0..=MAXLEN {
        if !want(only, "len", len as u64) {
            continue;
        }
        let pt = &ctx.plain[..len];
        let exp: Vec<u8> = pt.iter().zip(ks.iter()).map(|(a, b)| a ^ b).collect();
        let case = |api: &str| json!({"key": key, "keylen": k.len(), "len": len, "api": api});
        let ord = |a: u64| [len as u64, key as u64, a];
        for (ai, api) in ["encrypt", "decrypt", "apply_keystream"].iter().enumerate() {
            if !want_s(only, "api", api) {
                continue;
            }
            sh.ev(F, 1, len > 0);
            let r = catch(|| {
                let mut c = Arc4Cipher::new(k).map_err(|e| e.to_string())?;
                Ok::<_, String>(match ai {
                    0 => c.encrypt(pt),
                    1 => c.decrypt(&exp),
                    _ => {
                        let mut b = pt.to_vec();
                        c.apply_keystream(&mut b);
                        b
                    }
                })
            });
            let want_out: &[u8] = if ai == 1 { pt } else { &exp };
            match r {
                Ok(Ok(out)) if out == want_out => {
                    if ai == 0 {
                        sh.outcome(F, (k.len() as u64) << 8 | u64::from(out.last().copied().unwrap_or(0) & 3));
                    }
                }
                Ok(Ok(out)) => sh.fail(F, F, class, &ord(ai as u64), || case(api), || diff_detail(&format!("Arc4Cipher::{api} vs RC4 (KSA/PRGA) with a {}-byte key", k.len()), &out, want_out)),
                Ok(Err(e)) => sh.fail(F, F, class, &ord(ai as u64), || case(api), || format!("Arc4Cipher::new error for a {}-byte key: {e}", k.len())),
                Err(p) => sh.fail(F, F, class, &ord(ai as u64), || case(api), || format!("panicked: {p}")),
            }
        }
        // encrypt ∘ decrypt = id with fresh ciphers
        if want_s(only, "api", "roundtrip") {
            sh.ev("arc4.roundtrip", 1, len > 0);
            let r = catch(|| {
                let ct = Arc4Cipher::new(k).map_err(|e| e.to_string())?.encrypt(pt);
                Ok::<_, String>(Arc4Cipher::new(k).map_err(|e| e.to_string())?.decrypt(&ct))
            });
            if !matches!(&r, Ok(Ok(b)) if b == pt) {
                sh.fail(F, "arc4.roundtrip", class, &ord(3), || case("roundtrip"), || "decrypt(encrypt(x)) != x with fresh ciphers".to_string());
            }
        }
        if len == 64 && key == 2 && only.is_none() {
            sh.samples.push(json!({"check": F, "key": hex::encode(k), "len": len, "reference_ciphertext_head": hex::encode(&exp[..16])}));
        }
    }
}

fn arc4_piecewise(ctx: &Ctx, key: usize, len: usize, only: Option<&Value>, sh: &mut Shard) {
    const F: &str = "arc4.piecewise";
    if !(want(only, "key", key as u64) && want(only, "len", len as u64)) {
        return;
    }
    let k = &ctx.akeys[key];
    let pt = &ctx.plain[..len];
    let exp = rarc4::xor(k, pt);
    for s in 0..=len {
        if !want(only, "split", s as u64) {
            continue;
        }
        // alternate which pair of entry points carries the two pieces
        let mode = s % 3;
        let r = catch(|| {
            let mut c = Arc4Cipher::new(k).map_err(|e| e.to_string())?;
            let mut out;
            match mode {
                0 => {
                    out = c.encrypt(&pt[..s]);
                    out.extend_from_slice(&c.encrypt(&pt[s..]));
                }
                1 => {
                    out = pt[..s].to_vec();
                    c.apply_keystream(&mut out);
                    out.extend_from_slice(&c.decrypt(&pt[s..]));
                }
                _ => {
                    out = c.decrypt(&pt[..s]);
                    let mut b = pt[s..].to_vec();
                    c.apply_keystream(&mut b);
                    out.extend_from_slice(&b);
                }
            }
            Ok::<_, String>(out)
        });
        sh.ev(F, 1, len > 0);
        if !matches!(&r, Ok(Ok(o)) if *o == exp) {
            let class = if s % 256 == 0 { "split-at-multiple-of-256" } else { "split-elsewhere" };
            sh.fail(F, F, class, &[len as u64, s as u64, key as u64], || json!({"key": key, "keylen": k.len(), "len": len, "split": s}), || match &r {
                Ok(Ok(o)) => diff_detail(&format!("two pieces ([..{s}], [{s}..{len}]) on one cipher vs one shot"), o, &exp),
                Ok(Err(e)) => e.clone(),
                Err(p) => format!("panicked: {p}"),
            });
        }
    }
    sh.outcome(F, (len as u64) << 8 | u64::from(exp.last().copied().unwrap_or(0) & 3));
}

fn arc4_keylen(ctx: &Ctx, only: Option<&Value>, sh: &mut Shard) {
    const F: &str = "arc4.keylen";
    let mat = seeded_bytes(ctx.seed, 0xC09_0005, 300);
    for n in [0usize, 1, 2, 255, 256, 257, 300] {
        if !want(only, "keylen", n as u64) {
            continue;
        }
        let valid = (1..=256).contains(&n);
        sh.ev(F, 1, true);
        match catch(|| Arc4Cipher::new(&mat[..n]).is_ok()) {
            Ok(ok) if ok == valid => sh.outcome(F, valid as u64),
            Ok(ok) => sh.fail(F, F, if valid { "rejects-valid" } else { "accepts-invalid" }, &[n as u64], || json!({"keylen": n}), || format!("Arc4Cipher::new with a {n}-byte key: accepted = {ok}; RC4 keys are 1..=256 bytes")),
            Err(p) => sh.fail(F, F, "panic", &[n as u64], || json!({"keylen": n}), || format!("panicked: {p}")),
        }
    }
}

// ---------------------------------------------------------------------------------------
// lookup3
// ---------------------------------------------------------------------------------------

fn lookup3_task(ctx: &Ctx, func: usize, pat: usize, only: Option<&Value>, sh: &mut Shard) {
    const F: &str = "lookup3";
    let check: &'static str = ["lookup3.hashlittle", "lookup3.hashlittle2", "lookup3.jenkins96"][func];
    if !(want(only, "func", func as u64) && want(only, "pat", pat as u64)) {
        return;
    }
    let data = pattern(pat, ctx.seed, 0xC09_0200, MAXLEN);
    // a buffer whose 4-byte alignment is known, so that `align` is the slice's real alignment
    let mut backing = vec![0u8; MAXLEN + 16];
    let base = backing.as_ptr().align_offset(4);
    for len in 0..=MAXLEN {
        if !want(only, "len", len as u64) {
            continue;
        }
        let class = if len <= 12 { "len<=12" } else { "len>12" };
        let tail = if len == 0 { 0 } else { (len - 1) % 12 + 1 };
        sh.tails.insert((len > 12, tail));
        for align in 0..4usize {
            if !want(only, "align", align as u64) {
                continue;
            }
            backing[base + align..base + align + len].copy_from_slice(&data[..len]);
            let s = &backing[base + align..base + align + len];
            let case = |a: u32, b: u32| json!({"func": func, "pat": pat, "pattern": PAT_NAMES[pat], "len": len, "align": align, "seed_a": a, "seed_b": b});
            match func {
                0 => {
                    for (si, seed) in SEEDS.iter().enumerate() {
                        if !want(only, "seed_a", u64::from(*seed)) {
                            continue;
                        }
                        let e = rl3::hashlittle(s, *seed);
                        sh.ev(check, 1, len > 0);
                        match catch(|| hashlittle(s, *seed)) {
                            Ok(g) if g == e => sh.outcome(check, (tail as u64) << 8 | u64::from(g & 7)),
                            Ok(g) => sh.fail(F, check, class, &[len as u64, si as u64, align as u64, pat as u64], || case(*seed, 0), || format!("hashlittle({len} bytes, initval {seed:#x}) = {g:#010x}, lookup3.c gives {e:#010x} (tail case {tail})")),
                            Err(p) => sh.fail(F, check, class, &[len as u64, si as u64, align as u64, pat as u64], || case(*seed, 0), || format!("hashlittle panicked: {p}")),
                        }
                        if len == 30 && si == 0 && align == 1 && pat == 1 && only.is_none() {
                            sh.samples.push(json!({"check": check, "len": len, "pattern": PAT_NAMES[pat], "initval": seed, "align": align, "impl": format!("{:#010x}", hashlittle(s, *seed)), "reference": format!("{e:#010x}")}));
                        }
                    }
                }
                1 => {
                    for (ai, a) in SEEDS.iter().enumerate() {
                        for (bi, b) in SEEDS.iter().enumerate() {
                            if !(want(only, "seed_a", u64::from(*a)) && want(only, "seed_b", u64::from(*b))) {
                                continue;
                            }
                            let e = rl3::hashlittle2(s, *a, *b);
                            sh.ev(check, 1, len > 0);
                            let r = catch(|| {
                                let (mut pc, mut pb) = (*a, *b);
                                hashlittle2(s, &mut pc, &mut pb);
                                (pc, pb)
                            });
                            match r {
                                Ok(g) if g == e => sh.outcome(check, (tail as u64) << 8 | u64::from(g.1 & 7)),
                                Ok(g) => sh.fail(F, check, class, &[len as u64, ai as u64, bi as u64, align as u64, pat as u64], || case(*a, *b), || format!("hashlittle2({len} bytes, pc={a:#x}, pb={b:#x}) = (pc {:#010x}, pb {:#010x}), lookup3.c gives (c {:#010x}, b {:#010x}) (tail case {tail})", g.0, g.1, e.0, e.1)),
                                Err(p) => sh.fail(F, check, class, &[len as u64, ai as u64, bi as u64, align as u64, pat as u64], || case(*a, *b), || format!("hashlittle2 panicked: {p}")),
                            }
                        }
                    }
                }
                _ => {
                    // Jenkins96::hash documents: hashlittle2 with pc = pb = 0, hash64 = (pc << 32) | pb, hash32 = pc
                    let (c, b) = rl3::hashlittle2(s, 0, 0);
                    let e64 = (u64::from(c) << 32) | u64::from(b);
                    sh.ev(check, 1, len > 0);
                    match catch(|| Jenkins96::hash(s)) {
                        Ok(h) if h.hash64 == e64 && h.hash32 == c => sh.outcome(check, (tail as u64) << 8 | (h.hash64 & 7)),
                        Ok(h) => sh.fail(F, check, class, &[len as u64, align as u64, pat as u64], || case(0, 0), || format!("Jenkins96::hash({len} bytes) = {h}, expected {e64:016x}:{c:08x} from lookup3.c hashlittle2(pc=0,pb=0)")),
                        Err(p) => sh.fail(F, check, class, &[len as u64, align as u64, pat as u64], || case(0, 0), || format!("Jenkins96::hash panicked: {p}")),
                    }
                }
            }
        }
    }
}

// ---------------------------------------------------------------------------------------
// MD5-based keys
// ---------------------------------------------------------------------------------------

fn md5_task(ctx: &Ctx, pat: usize, only: Option<&Value>, sh: &mut Shard) {
    const F: &str = "md5.keys";
    if !want(only, "pat", pat as u64) {
        return;
    }
    let data = pattern(pat, ctx.seed, 0xC09_0300, MAXLEN);
    for len in 0..=MAXLEN {
        if !want(only, "len", len as u64) {
            continue;
        }
        let e = rmd5::md5(&data[..len]);
        let class = if len % 64 < 56 { "padding-fits-block" } else { "padding-spills-to-next-block" };
        for (ti, name) in ["ContentKey", "EncodingKey"].iter().enumerate() {
            if !want(only, "type", ti as u64) {
                continue;
            }
            sh.ev(F, 1, len > 0);
            let r = catch(|| if ti == 0 { *ContentKey::from_data(&data[..len]).as_bytes() } else { *EncodingKey::from_data(&data[..len]).as_bytes() });
            match r {
                Ok(g) if g == e => sh.outcome(F, ((len % 64) as u64) << 8 | u64::from(g[0] & 3)),
                Ok(g) => sh.fail(F, F, class, &[len as u64, ti as u64, pat as u64], || json!({"pat": pat, "pattern": PAT_NAMES[pat], "len": len, "type": ti}), || format!("{name}::from_data({len} bytes) = {}, RFC 1321 MD5 = {}", hex::encode(g), hex::encode(e))),
                Err(p) => sh.fail(F, F, class, &[len as u64, ti as u64, pat as u64], || json!({"pat": pat, "len": len, "type": ti}), || format!("panicked: {p}")),
            }
        }
        if len == 3 && pat == 1 && only.is_none() {
            sh.samples.push(json!({"check": F, "data": hex::encode(&data[..len]), "ContentKey": ContentKey::from_data(&data[..len]).to_hex(), "reference_md5": hex::encode(e)}));
        }
    }
}

// ---------------------------------------------------------------------------------------
// users of lookup3 (and of the IV rule): recomputed from the documented byte layouts
// ---------------------------------------------------------------------------------------

fn le32(b: &[u8]) -> u32 {
    u32::from_le_bytes([b[0], b[1], b[2], b[3]])
}

fn users_task(ctx: &Ctx, which: usize, only: Option<&Value>, sh: &mut Shard) {
    if !want(only, "which", which as u64) {
        return;
    }
    let r = catch(|| {
        let mut local = Shard::default();
        match which {
            0 => users_local_header(ctx, only, &mut local),
            1 => users_update_entry(ctx, only, &mut local),
            2 => users_residency_entry(ctx, only, &mut local),
            3 => users_idx_files(ctx, only, &mut local),
            4 => users_name_hash(ctx, only, &mut local),
            _ => users_header_iv(ctx, only, &mut local),
        }
        local
    });
    match r {
        Ok(l) => sh.merge(l),
        Err(p) => sh.fail("users", "users.panic", "all", &[which as u64], || json!({"which": which}), || format!("user check {which} panicked: {p}")),
    }
}

fn user_keys16(seed: u64) -> Vec<[u8; 16]> {
    let mut v = vec![[0u8; 16], [0xFF; 16]];
    let mut c = [0u8; 16];
    for (i, b) in c.iter_mut().enumerate() {
        *b = i as u8 + 1;
    }
    v.push(c);
    let mut one = [0u8; 16];
    one[8] = 0x80;
    v.push(one);
    for t in 0..3u64 {
        let mut s = [0u8; 16];
        s.copy_from_slice(&seeded_bytes(seed, 0xC09_0400 + t, 16));
        v.push(s);
    }
    v
}

fn users_local_header(ctx: &Ctx, only: Option<&Value>, sh: &mut Shard) {
    use cascette_client_storage::storage::LocalHeader;
    const C: &str = "users.local_header";
    for (ki, key) in user_keys16(ctx.seed).iter().enumerate() {
        for (si, size) in [0u32, 1, 1234, 0x00FF_FFFF, 0x7FFF_FFFF, u32::MAX - 30].iter().enumerate() {
            for base in [0usize, 1, 2, 3, 30, 61] {
                if !(want(only, "key", ki as u64) && want(only, "size", u64::from(*size)) && want(only, "base", base as u64)) {
                    continue;
                }
                // documented layout: reversed key | size+30 BE | flags | checksum_a | checksum_b
                let mut e = [0u8; 30];
                for i in 0..16 {
                    e[i] = key[15 - i];
                }
                e[16..20].copy_from_slice(&(size + 30).to_be_bytes());
                let a = rl3::hashlittle(&e[..0x16], 0x3D6B_E971);
                e[0x16..0x1A].copy_from_slice(&a.to_le_bytes());
                let mut x = [0u8; 4];
                for i in 0..0x1A {
                    x[(base + i) & 3] ^= e[i];
                }
                e[0x1A..0x1E].copy_from_slice(&x);
                let h = LocalHeader::new(*key, *size, base);
                let got = h.to_bytes();
                sh.ev(C, 3, true);
                sh.outcome(C, u64::from(a & 0xFF));
                let case = || json!({"which": 0, "key": ki, "size": size, "base": base});
                let ord = [ki as u64, si as u64, base as u64];
                if h.checksum_a != a {
                    sh.fail("users", C, "checksum_a", &ord, case, || format!("LocalHeader checksum_a = {:#010x}, lookup3.c hashlittle(bytes[0..22], 0x3D6BE971) = {a:#010x}", h.checksum_a));
                } else if got != e {
                    sh.fail("users", C, "bytes", &ord, case, || diff_detail("LocalHeader::to_bytes vs documented layout", &got, &e));
                }
                if !h.validate_checksums(base) {
                    sh.fail("users", C, "validate", &ord, case, || "validate_checksums rejects the header it just built".to_string());
                }
                let parsed = LocalHeader::from_bytes(&e);
                if !parsed.is_some_and(|p| p.validate_checksums(base) && p.checksum_a == a && p.original_encoding_key() == *key) {
                    sh.fail("users", C, "parse", &ord, case, || "a header built from the documented layout with reference checksums is not accepted".to_string());
                }
            }
        }
    }
}

fn users_update_entry(ctx: &Ctx, only: Option<&Value>, sh: &mut Shard) {
    use cascette_client_storage::index::update::{UpdateEntry, UpdateStatus};
    use cascette_client_storage::index::ArchiveLocation;
    const C: &str = "users.update_entry";
    let keys = user_keys16(ctx.seed);
    let statuses = [(UpdateStatus::Normal, 0u8), (UpdateStatus::Delete, 3), (UpdateStatus::HeaderNonResident, 6), (UpdateStatus::DataNonResident, 7)];
    let mut n = 0u64;
    for (ki, key) in keys.iter().enumerate() {
        for aid in [0u16, 1, 3, 4, 1023] {
            for off in [0u32, 1, 0x3FFF_FFFF] {
                for size in [0u32, 1, 0xFFFF_FFFF] {
                    for (st, sb) in statuses {
                        n += 1;
                        if !want(only, "n", n) {
                            continue;
                        }
                        let mut ek = [0u8; 9];
                        ek.copy_from_slice(&key[..9]);
                        // documented layout: guard LE | ekey 9 | archive high byte | (low 2 bits << 30 | offset) BE | size LE | status | pad
                        let mut e = [0u8; 24];
                        e[4..13].copy_from_slice(&ek);
                        e[13] = (aid >> 2) as u8;
                        e[14..18].copy_from_slice(&((u32::from(aid & 3) << 30) | off).to_be_bytes());
                        e[18..22].copy_from_slice(&size.to_le_bytes());
                        e[22] = sb;
                        let g = rl3::hashlittle(&e[4..23], 0) | 0x8000_0000;
                        e[0..4].copy_from_slice(&g.to_le_bytes());
                        let u = UpdateEntry::new(ek, ArchiveLocation { archive_id: aid, archive_offset: off }, size, st);
                        sh.ev(C, 2, true);
                        sh.outcome(C, u64::from(g & 0xFF));
                        let case = || json!({"which": 1, "n": n, "key": ki, "archive_id": aid, "offset": off, "size": size, "status": sb});
                        if u.hash_guard != g {
                            sh.fail("users", C, "guard", &[n], case, || format!("UpdateEntry hash_guard = {:#010x}, lookup3.c hashlittle(bytes[4..23], 0) | 0x80000000 = {g:#010x}", u.hash_guard));
                        } else if u.to_bytes() != e {
                            sh.fail("users", C, "bytes", &[n], case, || diff_detail("UpdateEntry::to_bytes vs documented layout", &u.to_bytes(), &e));
                        }
                        let p = UpdateEntry::from_bytes(&e);
                        if !(p.validate_hash_guard() && p.hash_guard == g) {
                            sh.fail("users", C, "parse", &[n], case, || "an entry built from the documented layout with the reference guard does not validate".to_string());
                        }
                    }
                }
            }
        }
    }
}

fn users_residency_entry(ctx: &Ctx, only: Option<&Value>, sh: &mut Shard) {
    use cascette_client_storage::kmt::key_state::{ResidencyEntry, ResidencySpan, ResidencyUpdateType as T};
    const C: &str = "users.residency_entry";
    let types = [(T::Set, 1u8), (T::Create, 2), (T::Delete, 3), (T::MarkResident, 6), (T::MarkNonResident, 7), (T::Invalid, 0)];
    let spans = [(0i32, i32::MAX), (0, 0), (1, 1), (-1, -1), (i32::MIN, i32::MAX), (0x0102_0304, 0x0506_0708)];
    let mut n = 0u64;
    for (ki, key) in user_keys16(ctx.seed).iter().enumerate() {
        for (so, sl) in spans {
            for (ty, tb) in types {
                n += 1;
                if !want(only, "n", n) {
                    continue;
                }
                // documented layout: guard LE | ekey 16 | span 4 x i32 BE | update_type | 3 pad
                let mut e = [0u8; 40];
                e[4..20].copy_from_slice(key);
                e[20..24].copy_from_slice(&so.to_be_bytes());
                e[24..28].copy_from_slice(&sl.to_be_bytes());
                e[36] = tb;
                let g = rl3::hashlittle(&e[4..37], 0) | 0x8000_0000;
                e[0..4].copy_from_slice(&g.to_le_bytes());
                let r = ResidencyEntry::new(*key, ResidencySpan::range(so, sl), ty);
                sh.ev(C, 2, true);
                sh.outcome(C, u64::from(g & 0xFF));
                let case = || json!({"which": 2, "n": n, "key": ki, "span_offset": so, "span_length": sl, "update_type": tb});
                if r.hash_flags != g {
                    sh.fail("users", C, "guard", &[n], case, || format!("ResidencyEntry hash_flags = {:#010x}, lookup3.c hashlittle(bytes[4..37], 0) | 0x80000000 = {g:#010x}", r.hash_flags));
                } else if r.to_bytes() != e {
                    sh.fail("users", C, "bytes", &[n], case, || diff_detail("ResidencyEntry::to_bytes vs documented layout", &r.to_bytes(), &e));
                }
                let p = ResidencyEntry::from_bytes(&e);
                if !(p.validate_hash_guard() && p.is_valid()) {
                    sh.fail("users", C, "parse", &[n], case, || "an entry built from the documented layout with the reference guard does not validate".to_string());
                }
            }
        }
    }
}

/// `.idx` files written by `IndexManager`: the two guarded-block hashes and the guards of
/// the update-section entries, recomputed from the file bytes.
fn users_idx_files(ctx: &Ctx, only: Option<&Value>, sh: &mut Shard) {
    use cascette_client_storage::index::IndexManager;
    const C: &str = "users.idx_guarded_blocks";
    // fixed keys: the number of bucket files (and so the number of recomputed blocks) must not
    // depend on the run's seed
    let _ = ctx;
    let mut keys = user_keys16(0);
    for t in 0..60u64 {
        let mut s = [0u8; 16];
        s.copy_from_slice(&seeded_bytes(0, 0xC09_0500 + t, 16));
        keys.push(s);
    }
    for (sc, (n, flush)) in [(1usize, false), (2, false), (7, false), (47, false), (1, true), (7, true), (47, true)].iter().enumerate() {
        if !want(only, "scenario", sc as u64) {
            continue;
        }
        let dir = Scratch::new("c09idx");
        let mut m = IndexManager::new(dir.path());
        let mut err = None;
        for (i, k) in keys.iter().take(*n).enumerate() {
            if let Err(e) = m.add_entry(&EncodingKey::from_bytes(*k), (i as u16 * 37) % 1024, i as u32 * 0x0101_0101 & 0x3FFF_FFFF, i as u32 * 977 + 1) {
                err = Some(format!("add_entry: {e}"));
            }
        }
        if *flush {
            if let Err(e) = m.flush_all_updates() {
                err = Some(format!("flush_all_updates: {e}"));
            }
            // two more entries stay in the update section
            for (i, k) in keys.iter().skip(*n).take(2).enumerate() {
                let _ = m.add_entry(&EncodingKey::from_bytes(*k), 5, 64 * i as u32, 99);
            }
        }
        if let Err(e) = m.save_all() {
            err = Some(format!("save_all: {e}"));
        }
        let case = |f: &str| json!({"which": 3, "scenario": sc, "entries": n, "flushed": flush, "file": f});
        if let Some(e) = err {
            sh.fail("users", C, "io", &[sc as u64], || case(""), || e);
            continue;
        }
        let mut files: Vec<_> = std::fs::read_dir(dir.path()).map(|d| d.filter_map(Result::ok).map(|e| e.path()).filter(|p| p.extension().is_some_and(|x| x == "idx")).collect()).unwrap_or_default();
        files.sort();
        let (mut blocks, mut guards, mut sorted_entries) = (0u64, 0u64, 0u64);
        for f in &files {
            let name = f.file_name().and_then(|s| s.to_str()).unwrap_or("").to_string();
            let b = std::fs::read(f).unwrap_or_default();
            if b.len() < 0x28 {
                sh.fail("users", C, "short-file", &[sc as u64], || case(&name), || format!("{} bytes", b.len()));
                continue;
            }
            let hsz = le32(&b[0..4]) as usize;
            if hsz != 16 || b.len() < 8 + hsz + 16 {
                sh.fail("users", C, "header-size", &[sc as u64], || case(&name), || format!("header block size {hsz}, documented 16"));
                continue;
            }
            let hh = rl3::hashlittle(&b[8..8 + hsz], 0);
            blocks += 1;
            if le32(&b[4..8]) != hh {
                sh.fail("users", C, "header-hash", &[sc as u64], || case(&name), || format!("header guarded block hash {:#010x}, lookup3.c hashlittle(header 16 bytes, 0) = {hh:#010x}", le32(&b[4..8])));
            }
            let eo = 8 + hsz + 8;
            let esz = le32(&b[eo..eo + 4]) as usize;
            if b.len() < eo + 8 + esz {
                sh.fail("users", C, "entry-size", &[sc as u64], || case(&name), || format!("entry block size {esz} exceeds the file"));
                continue;
            }
            let eh = rl3::hashlittle(&b[eo + 8..eo + 8 + esz], 0);
            blocks += 1;
            sorted_entries += (esz / 18) as u64;
            if le32(&b[eo + 4..eo + 8]) != eh {
                sh.fail("users", C, "entry-hash", &[sc as u64], || case(&name), || format!("entry guarded block hash {:#010x}, lookup3.c hashlittle({esz} entry bytes, 0) = {eh:#010x}", le32(&b[eo + 4..eo + 8])));
            }
            let upd = (eo + 8 + esz + 0xFFFF) & !0xFFFF;
            let mut off = upd;
            'pages: while off + 512 <= b.len() {
                for e in 0..21 {
                    let ent = &b[off + e * 24..off + e * 24 + 24];
                    if ent[0..4] == [0, 0, 0, 0] {
                        if e == 0 {
                            break 'pages;
                        }
                        break;
                    }
                    let g = rl3::hashlittle(&ent[4..23], 0) | 0x8000_0000;
                    guards += 1;
                    if le32(&ent[0..4]) != g {
                        sh.fail("users", C, "update-guard", &[sc as u64, off as u64, e as u64], || case(&name), || format!("update entry at file offset {:#x}: guard {:#010x}, lookup3.c gives {g:#010x}", off + e * 24, le32(&ent[0..4])));
                    }
                }
                off += 512;
            }
        }
        sh.ev(C, blocks + guards, true);
        sh.outcome(C, blocks << 16 | guards);
        let expect_guards = if *flush { 2 } else { *n as u64 };
        if files.is_empty() || guards != expect_guards || (*flush && sorted_entries != *n as u64) {
            // the harness did not find what it wrote: not a verdict about the hashes
            sh.caps.push(format!("users.idx_guarded_blocks scenario {sc}: {} files, {guards} update guards (expected {expect_guards}), {sorted_entries} sorted entries — layout not as documented, scenario not judged", files.len()));
        }
        if sc == 5 && only.is_none() {
            sh.samples.push(json!({"check": C, "entries": n, "flushed": flush, "idx_files": files.len(), "guarded_blocks_recomputed": blocks, "update_entry_guards_recomputed": guards}));
        }
    }
}

fn users_name_hash(_ctx: &Ctx, only: Option<&Value>, sh: &mut Shard) {
    use cascette_formats::root::entry::calculate_name_hash;
    const C: &str = "users.root_name_hash";
    let base = "Interface/Icons/INV_Misc_QuestionMark.blp/world\\maps\\azeroth\\azeroth_32_48.adt";
    for len in 0..=base.len() {
        if !want(only, "len", len as u64) {
            continue;
        }
        let p = &base[..len];
        // documented: upper case, '/' → '\\', hashlittle2(pc = 0, pb = 0), (pc << 32) | pb
        let norm: Vec<u8> = p.bytes().map(|b| if b == b'/' { b'\\' } else { b.to_ascii_uppercase() }).collect();
        let (c, b) = rl3::hashlittle2(&norm, 0, 0);
        let e = (u64::from(c) << 32) | u64::from(b);
        let g = calculate_name_hash(p);
        sh.ev(C, 1, len > 0);
        sh.outcome(C, g & 0xFF);
        if g != e {
            sh.fail("users", C, "all", &[len as u64], || json!({"which": 4, "len": len, "path": p}), || format!("calculate_name_hash({p:?}) = {g:#018x}, lookup3.c over the normalised path gives {e:#018x}"));
        }
    }
}

fn users_header_iv(ctx: &Ctx, only: Option<&Value>, sh: &mut Shard) {
    use cascette_formats::blte::{EncryptedHeader, EncryptionType};
    const C: &str = "users.encrypted_header_iv";
    for iv in 0..4usize {
        for ivlen in 4..=8usize {
            for (xi, index) in INDICES.iter().enumerate() {
                if !(want(only, "iv", iv as u64) && want(only, "ivlen", ivlen as u64) && want(only, "idx", xi as u64)) {
                    continue;
                }
                let Some(ix) = idx_usize(*index) else { continue };
                let ivb = ctx.sivs[iv][..ivlen].to_vec();
                let mut h = EncryptedHeader { key_name_size: 8, key_name: KEY_NAME.to_le_bytes().to_vec(), iv_size: ivlen as u8, iv: ivb.clone(), encryption_type: EncryptionType::Salsa20 };
                h.modify_iv_for_chunk(ix);
                let e = rs20::casc_nonce(&ivb, *index);
                sh.ev(C, 1, true);
                sh.outcome(C, u64::from(h.iv[0]));
                if h.iv[..] != e[..ivlen] {
                    sh.fail("users", C, "all", &[xi as u64, ivlen as u64, iv as u64], || json!({"which": 5, "iv": iv, "ivlen": ivlen, "idx": xi, "index": index}), || format!("modify_iv_for_chunk({index}) gives {}, the format rule gives {}", hex::encode(&h.iv), hex::encode(&e[..ivlen])));
                }
            }
        }
    }
}

// ---------------------------------------------------------------------------------------
// SIMD helpers: every CPU-feature subset of the host vs the portable path and a trivial reference
// ---------------------------------------------------------------------------------------

fn lex_cmp(a: &[u8], b: &[u8]) -> Ordering {
    for i in 0..a.len().min(b.len()) {
        if a[i] != b[i] {
            return if a[i] < b[i] { Ordering::Less } else { Ordering::Greater };
        }
    }
    a.len().cmp(&b.len())
}

fn naive_find(h: &[u8], n: &[u8]) -> Option<usize> {
    if n.len() > h.len() {
        return if n.is_empty() { Some(0) } else { None };
    }
    (0..=h.len() - n.len()).find(|&i| (0..n.len()).all(|j| h[i + j] == n[j]))
}

fn ord_code(o: Ordering) -> u64 {
    match o {
        Ordering::Less => 0,
        Ordering::Equal => 1,
        Ordering::Greater => 2,
    }
}

fn simd_memcmp(ctx: &Ctx, sub: usize, len: usize, only: Option<&Value>, sh: &mut Shard) {
    const F: &str = "simd.memcmp";
    if !(want(only, "sub", sub as u64) && want(only, "len", len as u64)) {
        return;
    }
    let (mask, f, ref name) = ctx.subsets[sub];
    let none = CpuFeatures::none();
    let base = pattern(1, 0, 0, SIMD_MAX + 1);
    // buffers with a few spare bytes so that the slices can start at odd addresses
    let mut ba = vec![0u8; SIMD_MAX + 8];
    let mut bb = vec![0u8; SIMD_MAX + 8];
    let mut pairs: Vec<(Vec<u8>, Vec<u8>)> = Vec::new();
    // different lengths: the only oracle is the portable path
    if want_s(only, "check", F) {
        for lb in 0..=SIMD_MAX {
            if lb == len || !want(only, "lb", lb as u64) || !want(only, "variant", 9) {
                continue;
            }
            let (a, b) = (&base[..len], &base[..lb]);
            sh.ev(F, 1, true);
            match catch(|| (f.vectorized_memcmp(a, b), none.vectorized_memcmp(a, b))) {
                Ok((g, p)) if g == p => sh.outcome(F, ord_code(g) | 16),
                Ok((g, p)) => sh.fail(F, F, name, &[len as u64, lb as u64, 9], || json!({"sub": sub, "mask": mask, "features": name, "len": len, "lb": lb, "variant": 9}), || format!("vectorized_memcmp(len {len}, len {lb}) = {g:?} with {name}, {p:?} on the portable path")),
                Err(e) => sh.fail(F, F, name, &[len as u64, lb as u64, 9], || json!({"sub": sub, "mask": mask, "features": name, "len": len, "lb": lb, "variant": 9}), || format!("panicked: {e}")),
            }
            if lb % 16 == 0 {
                pairs.push((a.to_vec(), b.to_vec()));
            }
        }
    }
    // equal lengths: first difference at every position, four shapes; plus the equal pair
    for p in 0..=len {
        if !want(only, "pos", p as u64) {
            continue;
        }
        for variant in 0..4u64 {
            if !want(only, "variant", variant) || (p == len && variant != 0) {
                continue;
            }
            let mut a = base[..len].to_vec();
            let mut b = a.clone();
            if p < len {
                match variant {
                    0 => {
                        a[p] = 0x10;
                        b[p] = 0x11; // a < b at p
                    }
                    1 => {
                        a[p] = 0xF0;
                        b[p] = 0x0F; // a > b at p
                    }
                    2 => {
                        a[p] = 0x7F;
                        b[p] = 0x80; // unsigned order: a < b (a signed compare would say >)
                    }
                    _ => {
                        a[p] = 1;
                        b[p] = 2; // first difference says Less, every later byte says Greater
                        for q in p + 1..len {
                            a[q] = 0xEE;
                            b[q] = 0x11;
                        }
                    }
                }
            }
            let e = lex_cmp(&a, &b);
            for (oa, ob) in [(0usize, 0usize), (1, 3)] {
                if !want(only, "oa", oa as u64) {
                    continue;
                }
                ba[oa..oa + len].copy_from_slice(&a);
                bb[ob..ob + len].copy_from_slice(&b);
                let (sa, sb) = (&ba[oa..oa + len], &bb[ob..ob + len]);
                if want_s(only, "check", F) {
                    sh.ev(F, 1, len > 0);
                    let r = catch(|| (f.vectorized_memcmp(sa, sb), none.vectorized_memcmp(sa, sb), f.simd_memcmp(sa, sb)));
                    let case = || json!({"sub": sub, "mask": mask, "features": name, "len": len, "pos": p, "variant": variant, "oa": oa});
                    let ord = [len as u64, p as u64, variant, oa as u64];
                    match r {
                        Ok((g, pr, al)) if g == e && pr == e && al == e => sh.outcome(F, ord_code(g)),
                        Ok((g, pr, al)) => sh.fail(F, F, name, &ord, case, || format!("equal lengths {len}, first difference at {p} (a={:#04x}, b={:#04x}): vectorized_memcmp = {g:?}, simd_memcmp = {al:?} with {name}; portable path {pr:?}; byte-wise order {e:?}", a.get(p).copied().unwrap_or(0), b.get(p).copied().unwrap_or(0))),
                        Err(x) => sh.fail(F, F, name, &ord, case, || format!("panicked: {x}")),
                    }
                }
            }
            pairs.push((a, b));
        }
    }
    // batch_mem_equal over the same pairs, in batches of every size 0..=9
    if want_s(only, "check", "simd.batch_mem_equal") {
        let mut i = 0usize;
        let mut bs = 0usize;
        let mut batch_no = 0u64;
        while i < pairs.len() || batch_no < 10 {
            let n = bs.min(pairs.len() - i);
            let refs: Vec<(&[u8], &[u8])> = pairs[i..i + n].iter().map(|(a, b)| (a.as_slice(), b.as_slice())).collect();
            let e: Vec<bool> = refs.iter().map(|(a, b)| a.len() == b.len() && lex_cmp(a, b) == Ordering::Equal).collect();
            if want(only, "batch", batch_no) {
                sh.ev("simd.batch_mem_equal", 1, n > 0);
                let r = catch(|| (f.batch_mem_equal(&refs), none.batch_mem_equal(&refs)));
                let case = || json!({"sub": sub, "mask": mask, "features": name, "len": len, "batch": batch_no, "batch_size": n});
                match r {
                    Ok((g, p)) if g == e && p == e => sh.outcome("simd.batch_mem_equal", g.iter().filter(|x| **x).count() as u64),
                    Ok((g, p)) => sh.fail(F, "simd.batch_mem_equal", name, &[len as u64, batch_no], case, || {
                        let j = (0..n).find(|j| g.get(*j) != e.get(*j) || p.get(*j) != e.get(*j)).unwrap_or(0);
                        format!("batch of {n} pairs, pair {j} (lengths {}/{}): {name} says {:?}, portable path {:?}, byte-wise equality {:?}", refs.get(j).map_or(0, |x| x.0.len()), refs.get(j).map_or(0, |x| x.1.len()), g.get(j), p.get(j), e.get(j))
                    }),
                    Err(x) => sh.fail(F, "simd.batch_mem_equal", name, &[len as u64, batch_no], case, || format!("panicked: {x}")),
                }
            }
            i += n;
            bs = (bs + 1) % 10;
            batch_no += 1;
        }
    }
}

fn simd_memmem(ctx: &Ctx, sub: usize, hay: usize, only: Option<&Value>, sh: &mut Shard) {
    const F: &str = "simd.memmem";
    if !(want(only, "sub", sub as u64) && want(only, "hay", hay as u64)) {
        return;
    }
    let (mask, f, ref name) = ctx.subsets[sub];
    let none = CpuFeatures::none();
    let mut h = vec![0u8; hay];
    for nl in 0..=NEEDLE_MAX {
        if !want(only, "needle", nl as u64) {
            continue;
        }
        // quick tier: needle lengths around the dispatch threshold (4) and the vector widths;
        // thorough tier (and replay): every length 0..=40
        if false && only.is_none() && !(nl <= 8 || (15..=17).contains(&nl) || (31..=33).contains(&nl) || nl == NEEDLE_MAX) {
            continue;
        }
        // needle shapes: 0 = distinct-ish bytes starting with 'A' (which recurs at offset 23);
        //                1 = a run of one byte ended by another (every haystack byte is a candidate)
        let n0: Vec<u8> = (0..nl).map(|i| 0x41 + (i % 23) as u8).collect();
        let n1: Vec<u8> = (0..nl).map(|i| if i + 1 == nl && nl > 1 { b'B' } else { b'A' }).collect();
        // placements: 0..=hay-nl = needle at that position; then the "absent" shapes
        let last = if nl <= hay { hay - nl } else { 0 };
        let npos = if nl <= hay { last + 1 } else { 0 };
        for pos in 0..npos + 2 {
            if !want(only, "pos", pos as u64) {
                continue;
            }
            for variant in 0..4u64 {
                if !want(only, "variant", variant) {
                    continue;
                }
                let needle: &[u8] = if variant == 1 { &n1 } else { &n0 };
                let filler = if variant == 1 { b'A' } else { b'.' };
                h.fill(filler);
                if pos < npos {
                    match variant {
                        0 | 1 => h[pos..pos + nl].copy_from_slice(needle),
                        2 => {
                            // a second occurrence later: the first one must be reported
                            h[pos..pos + nl].copy_from_slice(needle);
                            if pos + 2 * nl + 3 <= hay {
                                h[pos + nl + 3..pos + 2 * nl + 3].copy_from_slice(needle);
                            }
                        }
                        _ => {
                            // an almost-match (last byte wrong) in front of the real one
                            if nl >= 2 && pos >= nl {
                                h[pos - nl..pos].copy_from_slice(needle);
                                h[pos - 1] = b'#';
                            }
                            h[pos..pos + nl].copy_from_slice(needle);
                        }
                    }
                } else if pos == npos {
                    // absent; the first byte of the needle is sprinkled as a decoy
                    if variant >= 2 {
                        continue;
                    }
                    if nl >= 2 && variant == 0 {
                        for q in (0..hay).step_by(5) {
                            h[q] = needle[0];
                        }
                    }
                    if variant == 1 && nl >= 2 {
                        // all 'A': the run never ends in 'B'
                    }
                } else {
                    // truncated at the end: all but the last needle byte are the haystack's tail
                    if variant != 0 || nl < 2 || nl - 1 > hay {
                        continue;
                    }
                    let t = nl - 1;
                    h[hay - t..].copy_from_slice(&needle[..t]);
                }
                let e = naive_find(&h, needle);
                sh.ev(F, 1, nl > 0 && hay > 0);
                let r = catch(|| (f.vectorized_memmem(&h, needle), none.vectorized_memmem(&h, needle), f.simd_search(&h, needle)));
                let case = || json!({"sub": sub, "mask": mask, "features": name, "hay": hay, "needle": nl, "pos": pos, "variant": variant});
                let ord = [hay as u64, nl as u64, pos as u64, variant];
                match r {
                    Ok((g, p, a)) if g == e && p == e && a == e => sh.outcome(F, e.map_or(0xFFFF, |x| x as u64 % 64)),
                    Ok((g, p, a)) => sh.fail(F, F, name, &ord, case, || format!("haystack {hay} bytes, needle {nl} bytes (shape {variant}, placement {pos}): vectorized_memmem = {g:?}, simd_search = {a:?} with {name}; portable path {p:?}; naive search {e:?}")),
                    Err(x) => sh.fail(F, F, name, &ord, case, || format!("panicked: {x}")),
                }
            }
        }
    }
}

fn simd_memset(ctx: &Ctx, sub: usize, only: Option<&Value>, sh: &mut Shard) {
    const F: &str = "simd.memset";
    if !want(only, "sub", sub as u64) {
        return;
    }
    let (mask, f, ref name) = ctx.subsets[sub];
    for len in 0..=SIMD_MAX {
        for off in 0..32usize {
            for v in [0x00u8, 0xA5, 0xFF] {
                if !(want(only, "len", len as u64) && want(only, "off", off as u64) && want(only, "value", u64::from(v))) {
                    continue;
                }
                let guard = |i: usize| (i as u8).wrapping_mul(31) ^ 0x5A;
                let mut buf: Vec<u8> = (0..off + len + 40).map(guard).collect();
                let mut exp = buf.clone();
                exp[off..off + len].fill(v);
                sh.ev(F, 1, len > 0);
                let r = catch(|| f.simd_memset(&mut buf[off..off + len], v));
                if r.is_err() || buf != exp {
                    sh.fail(F, F, name, &[len as u64, off as u64, u64::from(v)], || json!({"sub": sub, "mask": mask, "features": name, "len": len, "off": off, "value": v}), || match &r {
                        Err(x) => format!("panicked: {x}"),
                        Ok(()) => diff_detail(&format!("simd_memset of {len} bytes at offset {off} (buffer with guard bytes) with {name}"), &buf, &exp),
                    });
                } else {
                    sh.outcome(F, (len.min(64) as u64) << 8 | u64::from(v));
                }
            }
        }
    }
}

fn simd_memcpy(ctx: &Ctx, sub: usize, only: Option<&Value>, sh: &mut Shard) {
    const F: &str = "simd.memcpy";
    if !want(only, "sub", sub as u64) {
        return;
    }
    let (mask, f, ref name) = ctx.subsets[sub];
    let none = CpuFeatures::none();
    let srcbuf = pattern(3, ctx.seed, 0xC09_0600, SIMD_MAX + 64);
    for len in 0..=SIMD_MAX {
        for off in 0..32usize {
            // delta: dest longer (+5) / shorter (-5) than src; 0 = equal lengths
            for delta in [0i32, 5, -5] {
                if !(want(only, "len", len as u64) && want(only, "off", off as u64) && want(only, "delta", (delta + 5) as u64)) {
                    continue;
                }
                let dlen = (len as i32 + delta).max(0) as usize;
                let soff = (off * 7 + 3) % 32;
                let src = &srcbuf[soff..soff + len];
                let guard = |i: usize| (i as u8).wrapping_mul(29) ^ 0xC3;
                let mut buf: Vec<u8> = (0..off + dlen + 40).map(guard).collect();
                let mut exp = buf.clone();
                let n = dlen.min(len);
                exp[off..off + n].copy_from_slice(&src[..n]);
                let mut pbuf: Vec<u8> = (0..off + dlen + 40).map(guard).collect();
                sh.ev(F, 1, len > 0);
                let r = catch(|| {
                    f.simd_memcpy(&mut buf[off..off + dlen], src);
                    none.simd_memcpy(&mut pbuf[off..off + dlen], src);
                });
                // equal lengths: plain copy is the reference; unequal: the portable path is
                let reference = if delta == 0 { &exp } else { &pbuf };
                if r.is_err() || buf != *reference || (delta == 0 && pbuf != exp) {
                    sh.fail(F, F, name, &[len as u64, off as u64, (delta + 5) as u64], || json!({"sub": sub, "mask": mask, "features": name, "len": len, "off": off, "delta": delta + 5}), || match &r {
                        Err(x) => format!("panicked: {x}"),
                        Ok(()) => diff_detail(&format!("simd_memcpy src {len} bytes → dest {dlen} bytes at offset {off} with {name}"), &buf, reference),
                    });
                } else {
                    sh.outcome(F, (len.min(64) as u64) << 8 | (delta + 5) as u64);
                }
            }
        }
    }
}

fn simd_hash(ctx: &Ctx, sub: usize, only: Option<&Value>, sh: &mut Shard) {
    const F: &str = "simd.hash";
    if !want(only, "sub", sub as u64) {
        return;
    }
    let (mask, f, ref name) = ctx.subsets[sub];
    let none = CpuFeatures::none();
    const LENS: [usize; 24] = [0, 1, 3, 4, 11, 12, 13, 23, 24, 25, 36, 55, 56, 57, 63, 64, 65, 119, 120, 127, 128, 129, 200, 1024];
    let data = pattern(3, ctx.seed, 0xC09_0700, 2048);
    // ASCII path material (the paths API takes &str); one multi-byte path is appended below
    let text: String = (0..2048).map(|i| (b'a' + ((i * 7 + i / 26) % 26) as u8) as char).collect();
    for bs in 0..=9usize {
        for rot in 0..LENS.len() {
            if !(want(only, "batch_size", bs as u64) && want(only, "rot", rot as u64)) {
                continue;
            }
            let lens: Vec<usize> = (0..bs).map(|j| LENS[(rot + j) % LENS.len()]).collect();
            let items: Vec<&[u8]> = lens.iter().enumerate().map(|(j, l)| &data[j * 3..j * 3 + l]).collect();
            let mut paths: Vec<&str> = lens.iter().enumerate().map(|(j, l)| &text[j..j + l]).collect();
            if bs == 9 {
                paths[8] = "Интерфейс/ícones/図.blp";
            }
            let case = |c: &str| json!({"sub": sub, "mask": mask, "features": name, "batch_size": bs, "rot": rot, "lens": lens, "api": c});
            let ord = [bs as u64, rot as u64];
            // batch_content_keys
            if want_s(only, "api", "batch_content_keys") {
                let e: Vec<[u8; 16]> = items.iter().map(|d| rmd5::md5(d)).collect();
                sh.ev("simd.batch_content_keys", 1, bs > 0);
                match catch(|| (f.batch_content_keys(&items), none.batch_content_keys(&items))) {
                    Ok((g, p)) => {
                        let gb: Vec<[u8; 16]> = g.iter().map(|k| *k.as_bytes()).collect();
                        let pb: Vec<[u8; 16]> = p.iter().map(|k| *k.as_bytes()).collect();
                        if gb != e || pb != e {
                            sh.fail(F, "simd.batch_content_keys", name, &ord, || case("batch_content_keys"), || format!("batch of {bs} (lengths {lens:?}): {name} returns {} keys, portable {} keys, RFC 1321 MD5 expects {}; first differing element {:?}", gb.len(), pb.len(), e.len(), (0..bs).find(|j| gb.get(*j) != e.get(*j) || pb.get(*j) != e.get(*j))));
                        } else {
                            sh.outcome("simd.batch_content_keys", bs as u64);
                        }
                    }
                    Err(x) => sh.fail(F, "simd.batch_content_keys", name, &ord, || case("batch_content_keys"), || format!("panicked: {x}")),
                }
            }
            // batch_jenkins96_data / batch_jenkins96_paths
            for (api, is_path) in [("batch_jenkins96_data", false), ("batch_jenkins96_paths", true)] {
                if !want_s(only, "api", api) {
                    continue;
                }
                let check: &'static str = if is_path { "simd.batch_jenkins96_paths" } else { "simd.batch_jenkins96_data" };
                let e: Vec<(u64, u32)> = (0..bs)
                    .map(|j| {
                        let bytes: &[u8] = if is_path { paths[j].as_bytes() } else { items[j] };
                        let (c, b) = rl3::hashlittle2(bytes, 0, 0);
                        ((u64::from(c) << 32) | u64::from(b), c)
                    })
                    .collect();
                sh.ev(check, 1, bs > 0);
                let r = catch(|| if is_path { (f.batch_jenkins96_paths(&paths), none.batch_jenkins96_paths(&paths)) } else { (f.batch_jenkins96_data(&items), none.batch_jenkins96_data(&items)) });
                match r {
                    Ok((g, p)) => {
                        let gv: Vec<(u64, u32)> = g.iter().map(|h| (h.hash64, h.hash32)).collect();
                        let pv: Vec<(u64, u32)> = p.iter().map(|h| (h.hash64, h.hash32)).collect();
                        if gv != e || pv != e {
                            sh.fail(F, check, name, &ord, || case(api), || format!("batch of {bs}: {name} returns {} hashes, portable {}, lookup3.c expects {}; first differing element {:?}", gv.len(), pv.len(), e.len(), (0..bs).find(|j| gv.get(*j) != e.get(*j) || pv.get(*j) != e.get(*j))));
                        } else {
                            sh.outcome(check, bs as u64);
                        }
                    }
                    Err(x) => sh.fail(F, check, name, &ord, || case(api), || format!("panicked: {x}")),
                }
            }
        }
    }
}

// ---------------------------------------------------------------------------------------
// driver
// ---------------------------------------------------------------------------------------

/// Which subsets avoid the portable path, observed through the crate's own fallback counter
/// (single-threaded, before the parallel phase).
fn dispatch_probe(ctx: &Ctx) -> (usize, Vec<String>) {
    let a = vec![7u8; 64];
    let b = vec![7u8; 64];
    let mut accelerated = Vec::new();
    for (_, f, name) in &ctx.subsets {
        let before = global_simd_stats().scalar_fallbacks.load(std::sync::atomic::Ordering::Relaxed);
        let _ = f.vectorized_memcmp(&a, &b);
        let after = global_simd_stats().scalar_fallbacks.load(std::sync::atomic::Ordering::Relaxed);
        if after == before {
            accelerated.push(name.clone());
        }
    }
    (accelerated.len(), accelerated)
}

fn compact_case(case: &Value) -> String {
    let mut parts = Vec::new();
    if let Some(m) = case.as_object() {
        for (k, v) in m {
            if matches!(k.as_str(), "check" | "family" | "mask" | "sub" | "pattern" | "index" | "keylen" | "lens" | "path" | "file") {
                continue;
            }
            parts.push(match v {
                Value::String(s) => format!("{k}={s}"),
                other => format!("{k}={other}"),
            });
        }
    }
    parts.join(",")
}

fn eval_single(ctx: &Ctx, tasks: &[Task], case: &Value) -> Shard {
    let mut sh = Shard::default();
    for t in tasks {
        run_task(ctx, t, Some(case), &mut sh);
    }
    sh
}

pub fn run(tier: Tier, seed: u64) -> i32 {
    let rep = Report::new("C09", tier, seed, Level::Exploration);
    rep.set_rule(
        "every case of the grid is enumerated exactly once (distinct by construction: one tuple of check × parameters × length × split/position), executed on the real functions and compared with an independent reference; a case is non-trivial when its input is non-empty (length ≥ 1; for rejection checks always); lengths 0..=1024 cover every tail class mod 12 (lookup3) and mod 64 (Salsa20 block, MD5 padding) many times",
    );
    rep.assume("reference implementations refimpl::{salsa20, arc4, lookup3, md5} written from the DJB Salsa20 specification, the RC4 KSA/PRGA description, lookup3.c and RFC 1321; trusted because they reproduce the published known-answer vectors checked at start-up (spec §3/§8/§9 examples, ECRYPT 128- and 256-bit vectors, RFC 6229, lookup3.c driver5, RFC 1321 A.5)");
    rep.assume("BLTE format rules taken as specification: nonce = IV zero-extended to 8 bytes with the chunk index XORed little-endian into bytes 0..4 (docs/src/compression/blte.md, docs/src/encryption/salsa20.md); ARC4 'A' blocks are keyed with the bare 16-byte TACT key as the repository's documentation shows (docs/src/encryption/salsa20.md); no published key-derivation rule for 'A' blocks is available offline, so IV/index use for ARC4 is not judged");
    rep.assume("the Salsa20 counter carry into state word 9 is reached by overwriting the two counter words of a live Salsa20Cipher located by searching the object for the specified state (no hook, no source change); streams of 2^38 bytes are not generated");
    rep.assume("CPU-feature subsets are subsets of detect_cpu_features(): a feature the host lacks is never claimed");

    let (fails, nvec) = crate::refimpl::self_check_c09();
    rep.extra("reference_known_answer_vectors_checked", json!(nvec));
    if !fails.is_empty() {
        for f in fails {
            rep.machinery_error(&f);
        }
        return rep.finish();
    }

    let ctx = make_ctx(tier, seed);
    let (n_acc, acc) = dispatch_probe(&ctx);
    let tasks = build_tasks(&ctx);
    let shards = par_map(tasks.len(), |i| {
        let mut sh = Shard::default();
        run_task(&ctx, &tasks[i], None, &mut sh);
        sh
    });
    let mut all = Shard::default();
    for s in shards {
        all.merge(s);
    }

    // evidence
    let total: u64 = all.evals.values().sum();
    let nontriv: u64 = all.nontriv.values().sum();
    rep.add_evaluations(total);
    rep.add_nontrivial_count(nontriv);
    for o in &all.outcomes {
        rep.add_outcome(*o);
    }
    let per_check: serde_json::Map<String, Value> = all.evals.iter().map(|(k, v)| ((*k).to_string(), json!({"evaluations": v, "nontrivial": all.nontriv.get(k).copied().unwrap_or(0)}))).collect();
    rep.extra("per_check", Value::Object(per_check));
    rep.extra(
        "bounds",
        json!({
            "message_lengths": "0..=1024",
            "salsa20": {"keys": 4, "ivs": 4, "iv_lengths": [4, 8], "iv_lengths_rejected": "0..=16 except 4 and 8, 17, 32, 255", "block_indices": INDICES, "piecewise_parameter_combinations": ctx.combos.len(), "piecewise": "every split point 0..=len of every length", "three_piece": format!("every pair of split points, lengths 0..=192, {} combinations", 16), "long_stream_bytes": tier.pick(1u64 << 24, 1u64 << 28), "counter_scenarios": 6},
            "blte": {"types": ["S", "A"], "keys": 2, "ivs": 3, "block_indices": INDICES.len(), "payload_lengths": "0..=1024 (encrypt), 1..=1024 (decrypt, IV sizes 4 and 8)"},
            "arc4": {"keys": ctx.akeys.len(), "key_lengths": "1..=32, 33, 255, 256 (+4 boundary keys)", "piecewise_keys": ctx.akeys.len(), "key_lengths_rejected": [0, 257, 300]},
            "lookup3": {"seeds": SEEDS, "hashlittle2_seed_pairs": SEEDS.len() * SEEDS.len(), "alignments": [0, 1, 2, 3], "patterns": PAT_NAMES},
            "md5": {"patterns": PAT_NAMES, "types": ["ContentKey", "EncodingKey"]},
            "simd": {"host_feature_subsets": ctx.subsets.iter().map(|s| s.2.clone()).collect::<Vec<_>>(), "subsets_observed_off_the_portable_path": acc, "buffer_lengths": "0..=200", "needle_lengths": "0..=40", "memset_memcpy_offsets": "0..=31", "batch_sizes": "0..=9"},
        }),
    );
    let mut seen = BTreeSet::new();
    for s in &all.samples {
        let c = s["check"].as_str().unwrap_or("").to_string();
        if seen.insert(c) {
            rep.sample(s.clone());
        }
    }
    for c in &all.caps {
        rep.cap_hit(c);
    }

    // vacuity guards
    let want_tails: usize = 1 + 12 + 12; // empty, 1..=12 short, 1..=12 after at least one full block
    if all.tails.len() != want_tails {
        rep.machinery_error(&format!("lookup3 tail classes seen: {} of {want_tails}", all.tails.len()));
    }
    if all.max_blocks < 17 {
        rep.machinery_error("Salsa20: fewer than 17 keystream blocks touched");
    }
    if rep.outcomes() < 200 {
        rep.machinery_error(&format!("vacuous enumeration: only {} distinct outcomes", rep.outcomes()));
    }
    let host = detect_cpu_features();
    let k = [host.sse2, host.sse4_1, host.avx2, host.avx512].iter().filter(|x| **x).count();
    if ctx.subsets.len() != 1 << k {
        rep.machinery_error("CPU-feature subsets do not cover the power set of the host's features");
    }
    if k > 0 && n_acc == 0 {
        rep.machinery_error("no CPU-feature subset left the portable path: the SIMD comparison is vacuous");
    }
    for must in ["salsa20.oneshot", "salsa20.piecewise", "salsa20.counter", "blte.salsa20", "blte.arc4", "arc4.oneshot", "arc4.piecewise", "lookup3.hashlittle", "lookup3.hashlittle2", "lookup3.jenkins96", "md5.keys", "users.local_header", "users.update_entry", "users.residency_entry", "users.idx_guarded_blocks", "simd.memcmp", "simd.memmem", "simd.memset", "simd.memcpy", "simd.batch_content_keys"] {
        if all.evals.get(must).copied().unwrap_or(0) == 0 && !(must == "salsa20.counter" && !all.caps.is_empty()) {
            rep.machinery_error(&format!("check {must} evaluated nothing"));
        }
    }

    // violations: fold SIMD supersets, replay each minimal case, report
    let mut fails: Vec<Fail> = all.fails.values().cloned().collect();
    fails.sort_by(|a, b| (a.check.as_str(), a.case["mask"].as_u64().map(|m| (m.count_ones(), m)), a.class.as_str()).cmp(&(b.check.as_str(), b.case["mask"].as_u64().map(|m| (m.count_ones(), m)), b.class.as_str())));
    let mut reported: Vec<(String, u64)> = Vec::new();
    for f in &fails {
        if let Some(m) = f.case["mask"].as_u64() {
            if reported.iter().any(|(c, r)| *c == f.check && (m & r) == *r) {
                continue; // a failing subset of these features is already reported for this check
            }
            reported.push((f.check.clone(), m));
        }
        let again = eval_single(&ctx, &tasks, &f.case);
        if again.fails.is_empty() {
            rep.machinery_error(&format!("violation of {} did not reproduce on replay: {}", f.check, compact_case(&f.case)));
            continue;
        }
        let sig = format!("{}[{}]@{}", f.check, f.class, compact_case(&f.case));
        rep.violation(&f.check, &sig, json!({"case": f.case, "seed": seed, "tier": tier.as_str(), "failing_cases_in_class": f.count}), &format!("{} ({} failing cases in this class; this is the first in enumeration order)", f.detail, f.count));
    }
    rep.finish()
}

/// Re-evaluate the recorded minimal case without the enumeration.
pub fn replay(w: &Value) -> i32 {
    let wit = &w["witness"];
    let seed = wit["seed"].as_u64().unwrap_or(0);
    let case = &wit["case"];
    if !case.is_object() {
        println!("MACHINERY-ERROR: witness has no case");
        return 2;
    }
    let (fails, _) = crate::refimpl::self_check_c09();
    if !fails.is_empty() {
        for f in fails {
            println!("MACHINERY-ERROR: {f}");
        }
        return 2;
    }
    // the thorough task list is a superset of the quick one
    let ctx = make_ctx(Tier::Thorough, seed);
    let tasks = build_tasks(&ctx);
    println!("replaying {} case {}", case["check"].as_str().unwrap_or("?"), compact_case(case));
    let sh = eval_single(&ctx, &tasks, case);
    let n: u64 = sh.evals.values().sum();
    if n == 0 {
        println!("MACHINERY-ERROR: the case selected no evaluation");
        return 2;
    }
    if sh.fails.is_empty() {
        println!("no violation ({n} evaluations)");
        return 0;
    }
    for f in sh.fails.values() {
        println!("violates {}[{}]: {}", f.check, f.class, f.detail);
    }
    1
}
