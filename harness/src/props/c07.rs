//! C07 — integrity checks reject every corruption of what they protect.
//!
//! ENUM part: for each small artifact with a checksum (encoding-table pages, archive-index
//! footer, LRU checkpoint file, update-section entry/page and a saved `.idx` with pending
//! updates, the two hash-guarded blocks (header, sorted entries) of a saved `.idx` after a flush,
//! local entry header, V1 Ribbit response with a checksum line) every single-bit
//! flip, every byte substitution, every suffix/infix deletion and every 1-byte insertion
//! inside the protected region is applied; oracle: accept(mutant) ⇒ logical(mutant) =
//! logical(original).
//! SEQ part: every history ≤ depth d over put_with_validation / put_to_layer / get_with_validation / evict / corrupt the disk layer's file on MultiLayerCacheImpl[Memory(1),Disk] with MD5 hooks, and over put_validated / get_validated / corrupt the
//! backing file (flip a bit, truncate, replace by another key's valid value, delete) on
//! `ContentAddressedCache<DiskCache>`; oracle: a validating get returns Some(b) only if
//! MD5(b) = key.

use crate::report::{Level, Report, Tier};
use crate::seq::{SeqBounds, SeqRun, SeqSubject, explore};
use crate::util::{Scratch, block_on, catch, fnv64_str, par_map};
use bytes::Bytes;
use cascette_cache::DiskCache;
use cascette_cache::config::DiskCacheConfig;
use cascette_cache::key::{BlteBlockKey, CacheKey as _};
use cascette_cache::ngdp::ContentAddressedCache;
use cascette_cache::validation::NgdpValidationHooks;
use cascette_crypto::ContentKey;
use serde_json::json;
use std::ops::Range;
use std::sync::Arc;
use std::time::Duration;

pub struct Artifact {
    pub name: String,
    pub bytes: Vec<u8>,
    /// protected byte ranges
    pub regions: Vec<Range<usize>>,
    /// Some(logical items) if the load API accepts the bytes. Oracle: every item a mutant yields
    /// is an item of the original (an integrity failure may drop an item — e.g. the loader ends an
    /// append-only log at a corrupted entry — but may never serve an altered one).
    pub accept: Box<dyn Fn(&[u8]) -> Option<Vec<String>> + Sync + Send>,
    /// byte substitutions enumerate all 255 alternatives (else bit flips + boundary values only)
    pub full_subst: bool,
}

fn fixture(path: &str) -> Option<Vec<u8>> {
    std::fs::read(format!("/repo/crates/cascette-formats/test_fixtures/{path}")).ok()
}

fn encoding_artifact() -> Option<Artifact> {
    let bytes = fixture("encoding/wow_classic_era_truncated.bin")?;
    // header: "EN" ver ckey_hs ekey_hs ckey_page_kb(2) ekey_page_kb(2) ckey_pages(4) ekey_pages(4) unk espec_size(4)
    if bytes.len() < 22 || &bytes[..2] != b"EN" {
        return None;
    }
    let ckey_hs = bytes[3] as usize;
    let ekey_hs = bytes[4] as usize;
    let ckey_page = u16::from_be_bytes([bytes[5], bytes[6]]) as usize * 1024;
    let ekey_page = u16::from_be_bytes([bytes[7], bytes[8]]) as usize * 1024;
    let ckey_n = u32::from_be_bytes([bytes[9], bytes[10], bytes[11], bytes[12]]) as usize;
    let ekey_n = u32::from_be_bytes([bytes[13], bytes[14], bytes[15], bytes[16]]) as usize;
    let espec = u32::from_be_bytes([bytes[18], bytes[19], bytes[20], bytes[21]]) as usize;
    let ckey_index = 22 + espec;
    let ckey_pages = ckey_index + ckey_n * (ckey_hs + 16);
    let ekey_index = ckey_pages + ckey_n * ckey_page;
    let ekey_pages = ekey_index + ekey_n * (ekey_hs + 16);
    let end = ekey_pages + ekey_n * ekey_page;
    if end > bytes.len() {
        return None;
    }
    Some(Artifact {
        name: "encoding-pages(fixture era, 2+2 pages)".into(),
        regions: vec![ckey_pages..ekey_index, ekey_pages..end],
        accept: Box::new(|d| {
            cascette_formats::encoding::EncodingFile::parse(d).ok().map(|f| {
                let c: Vec<String> = f.ckey_pages.iter().map(|p| format!("{:?}", p.entries)).collect();
                let e: Vec<String> = f.ekey_pages.iter().map(|p| format!("{:?}", p.entries)).collect();
                vec![format!("{}", fnv64_str(&format!("{c:?}{e:?}")))]
            })
        }),
        bytes,
        full_subst: false,
    })
}

fn archive_index_artifact() -> Option<Artifact> {
    let bytes = fixture("archive/s2_00872b40344ef1a3dac4aff09588603c.index")?;
    let n = bytes.len();
    // footer = toc_hash(8) + 12 bytes of fields + footer_hash(8); the hash covers the fields
    Some(Artifact {
        name: "archive-index-footer(fixture s2)".into(),
        regions: vec![n - 20..n],
        accept: Box::new(|d| {
            cascette_formats::archive::ArchiveIndex::parse(std::io::Cursor::new(d)).ok().map(|ix| {
                let f = &ix.footer;
                vec![format!("v{} ps{} ob{} sb{} kl{} hb{} n{} entries#{}", f.version, f.page_size_kb, f.offset_bytes, f.size_bytes, f.ekey_length, f.footer_hash_bytes, f.element_count, fnv64_str(&format!("{:?}", ix.entries)))]
            })
        }),
        bytes,
        full_subst: true,
    })
}

fn lru_artifact() -> Option<Artifact> {
    use cascette_client_storage::lru::{LruManager, lru_file};
    let sc = Scratch::new("c07");
    let mut m = LruManager::new(3, sc.path.clone());
    m.touch(&[1u8; 9]);
    m.touch(&[2u8; 9]);
    block_on(m.checkpoint_to_disk()).ok()?;
    let bytes = std::fs::read(lru_file::lru_file_path(&sc.path, 1)).ok()?;
    let n = bytes.len();
    Some(Artifact {
        name: "lru-file(capacity 3)".into(),
        regions: vec![0..n],
        accept: Box::new(|d| {
            lru_file::deserialize(d).map(|(h, e)| vec![format!("{}/{}/{:?}", h.mru_head, h.lru_tail, e.iter().map(|x| (x.prev, x.next, x.ekey, x.flags)).collect::<Vec<_>>())])
        }),
        bytes,
        full_subst: true,
    })
}

fn update_entry_artifact() -> Artifact {
    use cascette_client_storage::index::update::UpdateEntry;
    use cascette_client_storage::index::{ArchiveLocation, UpdateStatus};
    let e = UpdateEntry::new([7u8; 9], ArchiveLocation { archive_id: 3, archive_offset: 0x1234 }, 77, UpdateStatus::Normal);
    let bytes = e.to_bytes().to_vec();
    Artifact {
        name: "update-entry(24 bytes)".into(),
        // hash guard (0..4) + hashed range 4..23
        regions: vec![0..23],
        accept: Box::new(|d| {
            let arr: &[u8; 24] = d.get(..24)?.try_into().ok()?;
            let e = UpdateEntry::from_bytes(arr);
            if e.validate_hash_guard() { Some(vec![format!("{:?}/{:?}/{}/{:?}", e.ekey, e.archive_location, e.encoded_size, e.status)]) } else { None }
        }),
        bytes,
        full_subst: true,
    }
}

/// `n` entries in one 512-byte page; 21 is the completely full page (no empty slot ends the log).
fn update_page_artifact(n: u8) -> Artifact {
    use cascette_client_storage::index::update::{UpdateEntry, UpdatePage};
    use cascette_client_storage::index::{ArchiveLocation, UpdateStatus};
    let mut p = UpdatePage::new();
    for i in 0..n {
        p.push(UpdateEntry::new([i + 1; 9], ArchiveLocation { archive_id: 1, archive_offset: 100 + u32::from(i) }, 10, UpdateStatus::Normal));
    }
    let bytes = p.to_bytes().to_vec();
    Artifact {
        name: if n == 2 { "update-page(2 entries)".to_string() } else { format!("update-page({n} entries)") },
        regions: (0..usize::from(n)).map(|i| i * 24..i * 24 + 23).collect(),
        accept: Box::new(|d| {
            UpdatePage::from_bytes(d).map(|p| p.entries().iter().map(|e| format!("{:?}", (e.ekey, e.archive_location.clone(), e.encoded_size, e.status))).collect::<Vec<_>>())
        }),
        bytes,
        full_subst: false,
    }
}

/// System level: a saved `.idx` with pending updates; corruption of a pending update entry on
/// disk must not make `lookup` return an altered location.
fn idx_artifact() -> Option<Artifact> {
    use cascette_client_storage::index::IndexManager;
    use cascette_crypto::EncodingKey;
    let sc = Scratch::new("c07");
    let mut m = IndexManager::new(&sc.path);
    let keys: Vec<[u8; 16]> = (0..2u8)
        .map(|i| {
            let mut k = [0u8; 16];
            k[0] = 0x10 * (i + 1);
            k[8] = i + 1;
            k
        })
        .collect();
    // both keys in one bucket? not required: use the bucket of key 0 only
    let b0 = IndexManager::bucket_for_key(&EncodingKey::from_bytes(keys[0]));
    let same: Vec<[u8; 16]> = keys.iter().copied().filter(|k| IndexManager::bucket_for_key(&EncodingKey::from_bytes(*k)) == b0).collect();
    for (i, k) in same.iter().enumerate() {
        m.add_entry(&EncodingKey::from_bytes(*k), 2, 0x500 + i as u32, 40).ok()?;
    }
    m.save_all().ok()?;
    let mut files: Vec<_> = std::fs::read_dir(&sc.path).ok()?.flatten().map(|e| e.path()).collect();
    files.sort();
    let path = files.first()?.clone();
    let fname = path.file_name()?.to_string_lossy().to_string();
    let bytes = std::fs::read(&path).ok()?;
    // the update section starts at the 64 KiB boundary; first entries at its start
    let upd = 0x1_0000usize;
    if bytes.len() < upd + 24 * same.len() {
        return None;
    }
    let regions: Vec<Range<usize>> = (0..same.len()).map(|i| upd + i * 24..upd + i * 24 + 23).collect();
    let same2 = same.clone();
    Some(Artifact {
        name: "idx-file(pending updates, loaded with load_all)".into(),
        regions,
        accept: Box::new(move |d| {
            let sc = Scratch::new("c07l");
            std::fs::write(sc.path.join(&fname), d).ok()?;
            let mut m = IndexManager::new(&sc.path);
            block_on(m.load_all()).ok()?;
            let v: Vec<String> = same2.iter().filter_map(|k| m.lookup(&EncodingKey::from_bytes(*k)).map(|e| format!("{}@{:?}", hex::encode(k), (e.archive_id(), e.archive_offset(), e.size)))).collect();
            Some(v)
        }),
        bytes,
        full_subst: false,
    })
}

/// System level, the other half of a saved `.idx`: after a flush the entries live in the *sorted*
/// section. `save_index` stores one Jenkins hash next to the 16-byte header block and one next to
/// the sorted entry block (`GuardedBlockHeader::block_hash`, "guarded blocks with Jenkins hash
/// validation" in docs/src/client/local-storage.md) — data stored together with a checksum. One
/// artifact per guarded block, both on the same file (four flushed entries of one bucket, no pending
/// updates, 0x28 + 4·18 bytes). Protected region = the stored hash + the bytes it was computed
/// over (the `block_size` words are not covered by the hashes and are left alone). Logical value =
/// everything `iter_entries` yields plus `lookup` of the four written keys after `load_all`; by the
/// module's oracle a mutant may drop entries but may not serve a key, location or size that was
/// never written.
fn idx_sorted_artifacts() -> Option<Vec<Artifact>> {
    use cascette_client_storage::index::IndexManager;
    use cascette_crypto::EncodingKey;
    let sc = Scratch::new("c07");
    // bucket 1 (XOR of the first nine bytes = 0x01): the loader prints its debug dump only for bucket 0.
    // Four entries, so that a header whose field sizes are altered (record stride 19..=36 instead of
    // 18) still yields a second, misaligned record.
    let keys: Vec<[u8; 16]> = (0..4u8)
        .map(|i| {
            let mut k = [0u8; 16];
            k[0] = 0x01;
            k[1] = 0x30 + i;
            k[2] = 0x30 + i;
            k
        })
        .collect();
    if keys.iter().any(|k| IndexManager::bucket_for_key(&EncodingKey::from_bytes(*k)) != 1) {
        return None;
    }
    {
        let mut m = IndexManager::new(&sc.path);
        for (i, k) in keys.iter().enumerate() {
            m.add_entry(&EncodingKey::from_bytes(*k), 3 + i as u16, 0x1000 + 0x345 * i as u32, 500 + 77 * i as u32).ok()?;
        }
        m.flush_all_updates().ok()?;
    }
    let mut files: Vec<_> = std::fs::read_dir(&sc.path).ok()?.flatten().map(|e| e.path()).filter(|p| p.extension().is_some_and(|e| e == "idx")).collect();
    files.sort();
    if files.len() != 1 {
        return None;
    }
    let fname = files[0].file_name()?.to_string_lossy().to_string();
    let bytes = std::fs::read(&files[0]).ok()?;
    // [0x00] size+hash  [0x08] 16-byte header  [0x18] 8 zero bytes  [0x20] size+hash  [0x28] entries
    const ENTRIES: usize = 0x28;
    if bytes.len() != ENTRIES + 4 * 18 || bytes[0..4] != 16u32.to_le_bytes() || bytes[0x20..0x24] != 72u32.to_le_bytes() {
        return None;
    }
    // (Which Jenkins variant fills the two hash words is deliberately not assumed here: the oracle
    // only needs to know which bytes are guarded, and the size words above pin that down.)
    let n = bytes.len();
    let mk = |name: &str, regions: Vec<Range<usize>>| {
        let fname = fname.clone();
        let keys = keys.clone();
        Artifact {
            name: name.into(),
            regions,
            accept: Box::new(move |d| {
                let sc = Scratch::new("c07s");
                std::fs::write(sc.path.join(&fname), d).ok()?;
                let mut m = IndexManager::new(&sc.path);
                block_on(m.load_all()).ok()?;
                let mut v: Vec<String> = m.iter_entries().map(|(b, e)| format!("bucket{b}:{}@{:?}", hex::encode(e.key), (e.archive_id(), e.archive_offset(), e.size))).collect();
                v.sort();
                for k in &keys {
                    if let Some(e) = m.lookup(&EncodingKey::from_bytes(*k)) {
                        v.push(format!("lookup({})={}@{:?}", hex::encode(&k[..9]), hex::encode(e.key), (e.archive_id(), e.archive_offset(), e.size)));
                    }
                }
                Some(v)
            }),
            bytes: bytes.clone(),
            full_subst: true,
        }
    };
    Some(vec![
        mk("idx-file(sorted section: guarded entry block, loaded with load_all)", vec![0x24..0x28, ENTRIES..n]),
        mk("idx-file(sorted section: guarded header block, loaded with load_all)", vec![4..8, 8..24]),
    ])
}

fn local_header_artifact() -> Artifact {
    use cascette_client_storage::storage::LocalHeader;
    let h = LocalHeader::new([9u8; 16], 1000, 0x40);
    let bytes = h.to_bytes().to_vec();
    Artifact {
        name: "local-header(30 bytes, base offset 0x40)".into(),
        regions: vec![0..30],
        accept: Box::new(|d| {
            let h = LocalHeader::from_bytes(d)?;
            if h.validate_checksums(0x40) { Some(vec![format!("{:?}/{}/{}", h.encoding_key, h.size_with_header, h.flags)]) } else { None }
        }),
        bytes,
        full_subst: true,
    }
}

fn mime_artifact() -> Artifact {
    let body = "Region!STRING:0|BuildId!DEC:4\n## seqn = 1\nus|42\n";
    let msg = format!("MIME-Version: 1.0\r\nContent-Type: multipart/alternative; boundary=\"b1\"\r\n\r\n--b1\r\nContent-Type: text/plain\r\nContent-Disposition: version\r\n\r\n{body}\r\n--b1--\r\n");
    let n = msg.len();
    let full = format!("{msg}Checksum: {}\r\n", crate::sha256_hex(msg.as_bytes()));
    Artifact {
        name: "v1-mime-with-checksum".into(),
        regions: vec![0..n],
        accept: Box::new(|d| cascette_protocol::mime_parser::parse_v1_mime_response(d).ok().map(|r| vec![format!("{:?}", r)])),
        bytes: full.into_bytes(),
        full_subst: false,
    }
}

#[derive(Clone, Debug)]
enum Mutation {
    Flip(usize, u8),
    Subst(usize, u8),
    DeleteSuffix(usize, usize), // region end fixed: delete [from, region_end)
    DeleteInfix(usize, usize),
    Insert(usize, u8),
}

fn apply(m: &Mutation, orig: &[u8]) -> Vec<u8> {
    let mut v = orig.to_vec();
    match m {
        Mutation::Flip(p, bit) => v[*p] ^= 1 << bit,
        Mutation::Subst(p, b) => v[*p] = *b,
        Mutation::DeleteSuffix(a, b) | Mutation::DeleteInfix(a, b) => {
            v.drain(*a..*b);
        }
        Mutation::Insert(p, b) => v.insert(*p, *b),
    }
    v
}

fn mutations(a: &Artifact, tier: Tier) -> Vec<Mutation> {
    let mut out = Vec::new();
    for r in &a.regions {
        for p in r.clone() {
            for bit in 0..8 {
                out.push(Mutation::Flip(p, bit));
            }
            if a.full_subst {
                for b in 0..=255u8 {
                    if b != a.bytes[p] && (b ^ a.bytes[p]).count_ones() != 1 {
                        out.push(Mutation::Subst(p, b));
                    }
                }
            } else {
                for b in [0u8, 0xFF, a.bytes[p].wrapping_add(1), a.bytes[p].wrapping_sub(1)] {
                    if b != a.bytes[p] && (b ^ a.bytes[p]).count_ones() != 1 {
                        out.push(Mutation::Subst(p, b));
                    }
                }
            }
        }
        // deletions / insertions: every position for small regions, a grid for large ones
        let step = if r.len() <= 512 || tier == Tier::Thorough { 1 } else { 37 };
        for p in r.clone().step_by(step) {
            out.push(Mutation::DeleteSuffix(p, r.end));
            if p + 1 <= r.end && p > r.start {
                out.push(Mutation::DeleteInfix(p - 1, p));
            }
            out.push(Mutation::Insert(p, 0x00));
            out.push(Mutation::Insert(p, 0xFF));
        }
    }
    out
}

fn run_artifacts(rep: &Report, tier: Tier) {
    let mut arts: Vec<Artifact> = vec![
        encoding_artifact(),
        archive_index_artifact(),
        lru_artifact(),
        Some(update_entry_artifact()),
        Some(update_page_artifact(2)),
        Some(update_page_artifact(21)),
        idx_artifact(),
        Some(local_header_artifact()),
        Some(mime_artifact()),
    ]
    .into_iter()
    .flatten()
    .collect();
    arts.extend(idx_sorted_artifacts().unwrap_or_default());
    if arts.len() < 10 {
        rep.machinery_error(&format!("only {} of 10 artifacts could be built", arts.len()));
    }
    for a in &arts {
        let Some(orig_logical) = (a.accept)(&a.bytes) else {
            rep.machinery_error(&format!("artifact {} is not accepted unmodified", a.name));
            continue;
        };
        let muts = mutations(a, tier);
        let results = par_map(muts.len(), |i| {
            let m = &muts[i];
            let v = apply(m, &a.bytes);
            match catch(|| (a.accept)(&v)) {
                Err(p) => (2u8, format!("panic: {p}")),
                Ok(None) => (0, String::new()),
                Ok(Some(items)) => {
                    if items == orig_logical {
                        (1, String::new())
                    } else if let Some(bad) = items.iter().find(|it| !orig_logical.contains(it)) {
                        (3, bad.clone())
                    } else {
                        // items were dropped, none altered
                        (4, String::new())
                    }
                }
            }
        });
        let mut rejected = 0u64;
        let mut accepted_same = 0u64;
        let codes: Vec<u8> = results.iter().map(|r| r.0).collect();
        for (m, (code, info)) in muts.iter().zip(results) {
            match code {
                0 => rejected += 1,
                1 => accepted_same += 1,
                4 => {
                    rejected += 1;
                    rep.bump("mutants_whose_corrupted_items_were_dropped", 1);
                }
                2 => {
                    // a panic is C02's subject; here it is only "not accepted"
                    rejected += 1;
                    rep.bump("mutants_that_panicked_the_loader", 1);
                    let _ = info;
                }
                _ => {
                    let class = match m {
                        Mutation::Flip(..) => "bit-flip",
                        Mutation::Subst(..) => "byte-substitution",
                        Mutation::DeleteSuffix(..) => "truncation",
                        Mutation::DeleteInfix(..) => "deletion",
                        Mutation::Insert(..) => "insertion",
                    };
                    rep.violation(
                        "corruption-accepted",
                        &format!("corruption-accepted|{}|{class}", a.name),
                        json!({"artifact": a.name, "mutation": format!("{m:?}"), "original_logical": format!("{orig_logical:?}").chars().take(300).collect::<String>(), "mutant_item_not_in_original": info.chars().take(300).collect::<String>(), "artifact_hex": hex::encode(&a.bytes[..a.bytes.len().min(2048)])}),
                        &format!("{}: {m:?} inside the protected region is accepted and changes the logical value", a.name),
                    );
                }
            }
        }
        // second level: a length-preserving mutant that is accepted with the value unchanged is a
        // protected byte the check does not notice — harmless alone, but it may be the byte that
        // *disables* the check (a version or flag field). Every such mutant is combined with every
        // bit flip and 0x00/0xFF substitution inside the protected region.
        let holes: Vec<&Mutation> = muts
            .iter()
            .zip(codes.iter())
            .filter(|(m, c)| **c == 1 && matches!(m, Mutation::Flip(..) | Mutation::Subst(..)))
            .map(|(m, _)| m)
            .collect();
        const HOLE_CAP: usize = 16;
        if holes.len() > HOLE_CAP {
            rep.bump("artifacts_with_more_unnoticed_single_mutations_than_combined", 1);
        }
        let mut second: Vec<(usize, Mutation)> = Vec::new();
        for (hi, h) in holes.iter().take(HOLE_CAP).enumerate() {
            let hp = match h {
                Mutation::Flip(p, _) | Mutation::Subst(p, _) => *p,
                _ => continue,
            };
            for r in &a.regions {
                for p in r.clone() {
                    if p == hp {
                        continue;
                    }
                    for bit in 0..8 {
                        second.push((hi, Mutation::Flip(p, bit)));
                    }
                    for b in [0u8, 0xFF] {
                        if b != a.bytes[p] && (b ^ a.bytes[p]).count_ones() != 1 {
                            second.push((hi, Mutation::Subst(p, b)));
                        }
                    }
                }
            }
        }
        let pair_results = par_map(second.len(), |i| {
            let (hi, m2) = &second[i];
            let v = apply(m2, &apply(holes[*hi], &a.bytes));
            match catch(|| (a.accept)(&v)) {
                Err(_) | Ok(None) => None,
                Ok(Some(items)) => items.iter().find(|it| !orig_logical.contains(it)).cloned(),
            }
        });
        for ((hi, m2), bad) in second.iter().zip(pair_results) {
            if let Some(bad) = bad {
                rep.violation(
                    "corruption-accepted",
                    &format!("corruption-accepted|{}|pair-with-unnoticed-{}", a.name, match holes[*hi] { Mutation::Flip(..) => "bit-flip", _ => "byte-substitution" }),
                    json!({"artifact": a.name, "mutation": format!("{:?} + {m2:?}", holes[*hi]), "original_logical": format!("{orig_logical:?}").chars().take(300).collect::<String>(), "mutant_item_not_in_original": bad.chars().take(300).collect::<String>(), "artifact_hex": hex::encode(&a.bytes[..a.bytes.len().min(2048)])}),
                    &format!("{}: {:?} alone is accepted with the value unchanged; together with {m2:?} the altered value is accepted — the first mutation switches the integrity check off", a.name, holes[*hi]),
                );
            }
        }
        rep.bump("second_level_mutants", second.len() as u64);
        rep.add_evaluations((muts.len() + second.len()) as u64);
        rep.add_nontrivial_count((muts.len() + second.len()) as u64);
        rep.add_outcome(fnv64_str(&format!("{}|{rejected}|{accepted_same}", a.name)));
        rep.sample(json!({"artifact": a.name, "bytes": a.bytes.len(), "protected_bytes": a.regions.iter().map(|r| r.len()).sum::<usize>(), "mutants": muts.len(), "rejected": rejected, "accepted_with_unchanged_value": accepted_same}));
        if rejected == 0 {
            rep.machinery_error(&format!("artifact {}: no mutant was rejected — the protected region is probably mislocated", a.name));
        }
    }
}

// ---------------------------------------------------------------- cache part (SEQ)

#[derive(Clone, Debug, PartialEq)]
pub enum Op {
    Put(u8),
    /// put_validated(key of value i, bytes of value j): must be refused when i != j
    PutWrong(u8, u8),
    Get(u8),
    FlipBit(u8),
    Truncate(u8),
    /// overwrite the backing file of key i with the (valid) bytes of value j
    Replace(u8, u8),
    Delete(u8),
    /// new cache instance on the same directory
    Reopen,
}

fn value(i: u8) -> Vec<u8> {
    match i {
        0 => Vec::new(),
        1 => vec![0x42],
        _ => (0..1024u32).map(|x| (x * 7 + u32::from(i)) as u8).collect(),
    }
}

fn ckey(i: u8) -> ContentKey {
    ContentKey::from_data(&value(i))
}

struct CacheSubject;

fn backing_file(dir: &std::path::Path, i: u8) -> std::path::PathBuf {
    let k = BlteBlockKey::new_raw(ckey(i), 0);
    dir.join(k.as_cache_key())
}

impl SeqSubject for CacheSubject {
    type Op = Op;
    fn config_name(&self) -> String {
        "ContentAddressedCache<DiskCache>".into()
    }
    fn sig_config(&self) -> String {
        "content-addressed-disk".into()
    }
    fn alphabet(&self) -> Vec<Op> {
        let mut a = Vec::new();
        for i in 0..3u8 {
            a.push(Op::Put(i));
        }
        a.push(Op::PutWrong(1, 2));
        a.push(Op::PutWrong(2, 1));
        for i in 0..3u8 {
            a.push(Op::Get(i));
        }
        a.push(Op::FlipBit(1));
        a.push(Op::FlipBit(2));
        a.push(Op::Truncate(2));
        a.push(Op::Replace(1, 2));
        a.push(Op::Replace(2, 1));
        a.push(Op::Replace(0, 1));
        // the empty size class: the file of a non-empty value keeps its header and no payload
        a.push(Op::Replace(2, 0));
        a.push(Op::Delete(2));
        a.push(Op::Reopen);
        a
    }
    fn run(&self, hist: &[Op]) -> SeqRun {
        let sc = Scratch::new("c07c");
        let dir = sc.path.join("cache");
        let mk = || -> ContentAddressedCache<DiskCache<BlteBlockKey>> {
            let cfg = DiskCacheConfig::new(dir.clone()).with_default_ttl(Duration::from_secs(3600)).with_subdirectories(false, 1);
            let disk = Arc::new(DiskCache::new(cfg).expect("disk cache"));
            ContentAddressedCache::new(disk, Arc::new(NgdpValidationHooks::new()))
        };
        let mut cache = mk();
        let mut calls = 0u64;
        let mut log = String::new();
        for (i, op) in hist.iter().enumerate() {
            calls += 1;
            let fail = |kind: &str, d: String| SeqRun { violation: Some((i, kind.to_string(), d)), state_key: None, outcome: 0, calls };
            match op {
                Op::Put(v) => {
                    let r = block_on(cache.put_validated(ckey(*v), Bytes::from(value(*v))));
                    log.push_str(&format!("put{}={};", v, r.is_ok()));
                }
                Op::PutWrong(k, v) => {
                    let r = block_on(cache.put_validated(ckey(*k), Bytes::from(value(*v))));
                    if r.is_ok() {
                        return fail("put-accepts-mismatch", format!("put_validated(key of v{k}, bytes of v{v}) was accepted"));
                    }
                    log.push_str("putwrong=refused;");
                }
                Op::Get(v) => {
                    let r = block_on(cache.get_validated(ckey(*v)));
                    match r {
                        Ok(Some(b)) => {
                            if crate::refmd5(&b) != *ckey(*v).as_bytes() {
                                return fail("validated-get-serves-wrong-content", format!("get_validated(key of v{v}) returned {} bytes whose MD5 is not the key", b.len()));
                            }
                            log.push_str("get=some;");
                        }
                        Ok(None) => log.push_str("get=none;"),
                        Err(_) => log.push_str("get=err;"),
                    }
                }
                // the backing file is header + payload: faults change the payload and keep the
                // header, so that the cache itself still accepts the file
                Op::FlipBit(v) => {
                    let p = backing_file(&dir, *v);
                    if let Ok(mut d) = std::fs::read(&p) {
                        let off = crate::util::disk_cache_payload_offset(&d);
                        if d.len() > off {
                            let i = off + (d.len() - off) / 2;
                            d[i] ^= 0x10;
                            let _ = std::fs::write(&p, d);
                        }
                    }
                }
                Op::Truncate(v) => {
                    let p = backing_file(&dir, *v);
                    if let Ok(d) = std::fs::read(&p) {
                        let off = crate::util::disk_cache_payload_offset(&d);
                        let _ = std::fs::write(&p, &d[..off + (d.len() - off) / 2]);
                    }
                }
                Op::Replace(k, v) => {
                    let p = backing_file(&dir, *k);
                    if let Ok(d) = std::fs::read(&p) {
                        let off = crate::util::disk_cache_payload_offset(&d);
                        let mut f = d[..off].to_vec();
                        f.extend_from_slice(&value(*v));
                        let _ = std::fs::write(&p, f);
                    }
                }
                Op::Delete(v) => {
                    let _ = std::fs::remove_file(backing_file(&dir, *v));
                }
                Op::Reopen => {
                    cache = mk();
                }
            }
        }
        SeqRun { violation: None, state_key: None, outcome: fnv64_str(&log), calls }
    }
}


// ---------------------------------------------------------------- multi-layer validated reads (SEQ)

#[derive(Clone, Debug, PartialEq)]
pub enum LOp {
    /// put_with_validation(key i, content key of value i, bytes of value i)
    PutV(u8),
    /// put_to_layer(key i, bytes of value j, layer): bytes that do not hash to key i's content key when i != j
    PutLayer(u8, u8, u8),
    /// get_with_validation(key i, Some(content key of value i))
    GetV(u8),
    /// plain put of another key: evicts key from the 1-entry memory layer
    Evict,
    FlipDisk(u8),
    ReplaceDisk(u8, u8),
    DeleteDisk(u8),
}

struct LayeredSubject;

fn lkey(i: u8) -> crate::props::c11::SKey {
    crate::props::c11::SKey(format!("obj{i}"))
}

impl SeqSubject for LayeredSubject {
    type Op = LOp;
    fn config_name(&self) -> String {
        "MultiLayerCacheImpl[Memory(1),Disk]+Md5ValidationHooks".into()
    }
    fn sig_config(&self) -> String {
        "multi-layer-validated".into()
    }
    fn alphabet(&self) -> Vec<LOp> {
        vec![
            LOp::PutV(1),
            LOp::PutV(2),
            LOp::PutLayer(1, 1, 1),
            LOp::PutLayer(1, 2, 1),
            LOp::PutLayer(1, 2, 0),
            LOp::PutLayer(2, 2, 1),
            LOp::GetV(1),
            LOp::GetV(2),
            LOp::Evict,
            LOp::FlipDisk(1),
            LOp::FlipDisk(2),
            LOp::ReplaceDisk(1, 2),
            // the empty size class: no payload behind the header / an empty value put below
            LOp::ReplaceDisk(1, 0),
            LOp::PutLayer(1, 0, 1),
            LOp::DeleteDisk(1),
        ]
    }
    fn run(&self, hist: &[LOp]) -> SeqRun {
        use cascette_cache::config::{MemoryCacheConfig, MultiLayerCacheConfig};
        use cascette_cache::traits::{AsyncCache, MultiLayerCache as _};
        let sc = Scratch::new("c07m");
        let dir = sc.path.join("cache");
        let mem = MemoryCacheConfig::new().with_max_entries(1).with_default_ttl(Duration::from_secs(3600));
        let disk = DiskCacheConfig::new(dir.clone()).with_default_ttl(Duration::from_secs(3600)).with_subdirectories(false, 1);
        let cfg = MultiLayerCacheConfig::new().add_memory_layer(mem).add_disk_layer(disk);
        // background tasks out of the way: ten-year intervals (the first tick runs on the empty cache)
        let mut cache: cascette_cache::MultiLayerCacheImpl<crate::props::c11::SKey> = block_on(async { cascette_cache::MultiLayerCacheImpl::new(cfg) }).expect("multi-layer cache");
        cache.set_validation_hooks(Some(Arc::new(cascette_cache::validation::Md5ValidationHooks::new())));
        let file_of = |i: u8| dir.join(format!("obj{i}"));
        let mut calls = 0u64;
        let mut log = String::new();
        for (i, op) in hist.iter().enumerate() {
            calls += 1;
            let fail = |kind: &str, d: String| SeqRun { violation: Some((i, kind.to_string(), d)), state_key: None, outcome: 0, calls };
            match op {
                LOp::PutV(v) => {
                    let r = block_on(cache.put_with_validation(lkey(*v), ckey(*v), Bytes::from(value(*v))));
                    log.push_str(&format!("putv={};", r.is_ok()));
                }
                LOp::PutLayer(k, v, layer) => {
                    let r = block_on(cache.put_to_layer(lkey(*k), Bytes::from(value(*v)), *layer as usize));
                    log.push_str(&format!("putl={};", r.is_ok()));
                }
                LOp::GetV(v) => match block_on(cache.get_with_validation(&lkey(*v), Some(ckey(*v)))) {
                    Ok(Some(b)) => {
                        let bytes = b.into_bytes();
                        if crate::refmd5(&bytes) != *ckey(*v).as_bytes() {
                            return fail("validated-get-serves-wrong-content", format!("get_with_validation(obj{v}, Some(its content key)) returned {} bytes whose MD5 is not the key (hooks installed)", bytes.len()));
                        }
                        log.push_str("getv=some;");
                    }
                    Ok(None) => log.push_str("getv=none;"),
                    Err(_) => log.push_str("getv=err;"),
                },
                LOp::Evict => {
                    let _ = block_on(cache.put(crate::props::c11::SKey("other".into()), Bytes::from_static(b"x")));
                }
                LOp::FlipDisk(v) => {
                    let p = file_of(*v);
                    if let Ok(mut d) = std::fs::read(&p) {
                        let off = crate::util::disk_cache_payload_offset(&d);
                        if d.len() > off {
                            let ix = off + (d.len() - off) / 2;
                            d[ix] ^= 0x10;
                            let _ = std::fs::write(&p, d);
                            log.push_str("flip;");
                        }
                    }
                }
                LOp::ReplaceDisk(k, v) => {
                    let p = file_of(*k);
                    if let Ok(d) = std::fs::read(&p) {
                        let off = crate::util::disk_cache_payload_offset(&d);
                        let mut f = d[..off].to_vec();
                        f.extend_from_slice(&value(*v));
                        let _ = std::fs::write(&p, f);
                        log.push_str("repl;");
                    }
                }
                LOp::DeleteDisk(v) => {
                    if std::fs::remove_file(file_of(*v)).is_ok() {
                        log.push_str("del;");
                    }
                }
            }
        }
        SeqRun { violation: None, state_key: None, outcome: fnv64_str(&log), calls }
    }
}

pub fn run(tier: Tier, seed: u64) -> i32 {
    let rep = Report::new("C07", tier, seed, Level::FaultEnumeration);
    rep.set_rule("artifact part: per artifact every single-bit flip and every byte substitution (all 255 values for small artifacts, boundary values otherwise), every suffix deletion, 1-byte infix deletion and 1-byte insertion (00/FF) at every position inside the protected region; cache part: every history ≤ depth d over put_validated / mismatching put / get_validated / corrupt-backing-file ops / reopen on ContentAddressedCache<DiskCache>; every mutant differs from the original, so distinct_nontrivial = cases");
    rep.assume("accept(mutant) ⇒ logical(mutant) = logical(original); a mutation that the parser normalises away without changing the value is not a violation; a panic is treated as 'not accepted' here (C02 judges panics)");
    rep.assume("protected regions: encoding pages (MD5 in the page index), archive-index footer fields + footer hash, whole LRU file, update-entry bytes 0..23 (guard + hashed range), .idx guarded blocks: stored Jenkins hash + 16-byte header block, stored Jenkins hash + sorted entry block (the block_size words are outside the hashes), local header 30 bytes, V1 MIME message before the Checksum line");
    // (the full artifact part and depth 5 take seconds: the quick tier runs them too)
    run_artifacts(&rep, Tier::Thorough);
    let st = explore(&CacheSubject, &SeqBounds::depth(tier.pick(5, 6)).with_budget(tier.pick(30, 600)), &rep);
    rep.extra("cache_part", json!({"depth_completed": st.completed_depth, "histories": st.histories, "violating": st.violations}));
    let st2 = explore(&LayeredSubject, &SeqBounds::depth(tier.pick(5, 6)).with_budget(tier.pick(30, 600)), &rep);
    rep.extra("multi_layer_part", json!({"depth_completed": st2.completed_depth, "histories": st2.histories, "violating": st2.violations}));
    rep.finish()
}

pub fn replay(w: &serde_json::Value) -> i32 {
    println!("witness: {}", serde_json::to_string_pretty(&w["witness"]).unwrap_or_default());
    println!("artifact-part witnesses name the artifact and the mutation; re-run `./check C07 quick` to re-evaluate (deterministic enumeration)");
    let rep = Report::new("C07", Tier::Quick, 0, Level::FaultEnumeration);
    run_artifacts(&rep, Tier::Quick);
    let sig = w["sig"].as_str().unwrap_or("");
    let hit = rep.violations_snapshot().into_iter().any(|v| v.sig == sig);
    if hit {
        println!("violates: {sig}");
        1
    } else {
        println!("signature {sig} not reproduced by the artifact part (cache-part witnesses carry core_ops)");
        0
    }
}
