//! One module per property: alphabet + bound + oracle.

use crate::report::Tier;

pub mod c01;
pub mod c02;
pub mod c03;
pub mod c04;
pub mod c05;
pub mod c06;
pub mod c07;
pub mod c09;
pub mod c10;
pub mod c10_expiry;
pub mod c11;
pub mod c12;
pub mod c13;
pub mod c14;
pub mod c14_cdn;
pub mod c15;
pub mod c16;
pub mod c17;
pub mod c18;
pub mod c19;
pub mod c20;
pub mod seeds;

/// Run the check for a property; returns the process exit code.
pub fn run(prop: &str, tier: Tier, seed: u64) -> Option<i32> {
    Some(match prop {
        "C01" => c01::run(tier, seed),
        "C02" => c02::run(tier, seed),
        "C03" => c03::run(tier, seed),
        "C04" => c04::run(tier, seed),
        "C05" => c05::run(tier, seed),
        "C08" => c02::run_c08(tier, seed),
        "C06" => c06::run(tier, seed),
        "C07" => c07::run(tier, seed),
        "C09" => c09::run(tier, seed),
        "C10" => c10::run(tier, seed),
        "C11" => c11::run(tier, seed),
        "C12" => c12::run(tier, seed),
        "C13" => c13::run(tier, seed),
        "C14" => c14::run(tier, seed),
        "C15" => c15::run(tier, seed),
        "C16" => c16::run(tier, seed),
        "C17" => c17::run(tier, seed),
        "C18" => c18::run(tier, seed),
        "C19" => c19::run(tier, seed),
        "C20" => c20::run(tier, seed),
        _ => return None,
    })
}

pub fn replay(prop: &str, witness: &serde_json::Value) -> Option<i32> {
    Some(match prop {
        "C01" => c01::replay(witness),
        "C02" | "C08" => c02::replay(witness),
        "C03" => c03::replay(witness),
        "C04" => c04::replay(witness),
        "C05" => c05::replay(witness),
        "C06" => c06::replay(witness),
        "C07" => c07::replay(witness),
        "C09" => c09::replay(witness),
        "C10" => c10::replay(witness),
        "C11" => c11::replay(witness),
        "C12" => c12::replay(witness),
        "C13" => c13::replay(witness),
        "C14" => c14::replay(witness),
        "C15" => c15::replay(witness),
        "C16" => c16::replay(witness),
        "C17" => c17::replay(witness),
        "C18" => c18::replay(witness),
        "C19" => c19::replay(witness),
        "C20" => c20::replay(witness),
        _ => return None,
    })
}
