//! C01 — BLTE encode/decode is the identity on content; the chunk table is truthful; an
//! encoder call that cannot honour this returns an error.
//!
//! ENUM engine (in-process, `catch_unwind` around every program): every *builder program*
//! up to a call depth over a small alphabet is executed on the real `BlteBuilder` /
//! `BlteFile`, serialized with `CascFormat::build`, and judged by a three-part oracle:
//!
//! 1. every call returned `Ok` ⇒ `BlteFile::parse(bytes)` + `decompress_with_keys(matching
//!    store)` (and `decompress()` when no chunk is encrypted) yield exactly the concatenation
//!    of the payloads handed in, in call order;
//! 2. the independent decoder `refimpl::blte_dec` (own header/table parser, own E-chunk
//!    header, own Salsa20 / RC4 / LZ4-block, zlib and MD5 from crates the subject does not
//!    use for this) decodes the same bytes to the same payload, and the chunk table is
//!    audited: recorded compressed size = bytes the chunk occupies, recorded decompressed
//!    size = bytes that chunk decodes to, checksum = MD5 of the chunk bytes;
//! 3. an `Err` from any builder call, from `build()` or from serialization is fine; an `Ok`
//!    whose container decodes to anything else, or does not decode, is the violation.
//!
//! Interpretation decisions (all in the direction of not alarming):
//! * "decompressed size matches the chunk it describes" is read as "equals the number of
//!   content bytes the chunk contributes to the decoded output". It is only audited when the
//!   independent decoder recovered the added content (otherwise per-chunk lengths are
//!   meaningless and the identity clause already reports the program).
//! * ARC4 keying: the repository's format documentation says the 16-byte key is used
//!   without derivation; the reference does the same. Other keying conventions (key ‖ IV ‖
//!   block index) are not judged here.
//! * `add_encrypted_data(.., block_index)` with `block_index` ≠ the position the chunk ends
//!   up at is a call "the encoder cannot honour": the statement requires `Err`; `Ok` +
//!   correct decode would also be accepted (only a wrong/undecodable container alarms).
//! * Chunk size 0 ("all chunk sizes") is covered by a handful of programs that run in child
//!   processes with an address-space limit and a time-out, because a call that never returns
//!   cannot be observed in-process (kind `no-return`).

use crate::refimpl::blte_dec;
use crate::report::{Level, Report, Tier};
use crate::util::{catch, fnv64_str, par_map, seeded_bytes, take_last_panic_loc};
use cascette_crypto::{TactKey, TactKeyStore};
use cascette_formats::CascFormat;
use cascette_formats::blte::{BlteBuilder, BlteFile, ChunkData, CompressionMode, EncryptionSpec};
use serde_json::{Value, json};
use std::collections::{BTreeMap, HashMap, HashSet};
use std::sync::Mutex;
use std::sync::atomic::{AtomicBool, Ordering};

// ---------------------------------------------------------------------------------------
// alphabet
// ---------------------------------------------------------------------------------------

#[derive(Clone, Copy, PartialEq, Eq, Hash, Debug, PartialOrd, Ord)]
pub enum Mode {
    N,
    Z,
    L4,
    /// `CompressionMode::Encrypted` / `Frame` handed to the *compression* setters: calls the
    /// encoder cannot honour (or must degrade gracefully)
    E,
    F,
}

impl Mode {
    fn name(self) -> &'static str {
        match self {
            Mode::N => "N",
            Mode::Z => "Z",
            Mode::L4 => "4",
            Mode::E => "E",
            Mode::F => "F",
        }
    }
    fn parse(s: &str) -> Option<Mode> {
        Some(match s {
            "N" => Mode::N,
            "Z" => Mode::Z,
            "4" => Mode::L4,
            "E" => Mode::E,
            "F" => Mode::F,
            _ => return None,
        })
    }
    #[allow(deprecated)]
    fn real(self) -> CompressionMode {
        match self {
            Mode::N => CompressionMode::None,
            Mode::Z => CompressionMode::ZLib,
            Mode::L4 => CompressionMode::LZ4,
            Mode::E => CompressionMode::Encrypted,
            Mode::F => CompressionMode::Frame,
        }
    }
}

/// Chunk size configuration: `Default` = no `with_chunk_size*` call (256 KiB).
#[derive(Clone, Copy, PartialEq, Eq, Hash, Debug)]
pub enum Cs {
    Default,
    Sz(usize),
}

impl Cs {
    fn name(self) -> String {
        match self {
            Cs::Default => "default".into(),
            Cs::Sz(n) => n.to_string(),
        }
    }
    /// base length for the size-relative payload classes
    fn base(self) -> usize {
        match self {
            Cs::Default => 6,
            Cs::Sz(n) => n,
        }
    }
}

/// Payload classes, simplest first (the shrinker moves towards lower indices).
pub const PAYLOADS: &[&str] = &[
    "1B", "empty", "N", "Z", "4", "E", "F", "N+", "Z+", "4+", "E+", "F+", "cs-1", "cs", "cs+1", "2cs", "2cs+1",
    "zeros70", "rand67", "blte", "long1029", "rand40k", "n65537",
];
pub type P = u8;

fn pclass(name: &str) -> P {
    PAYLOADS.iter().position(|n| *n == name).expect("payload class") as P
}

pub fn payload(p: P, cs: Cs, seed: u64) -> Vec<u8> {
    let c = cs.base();
    let fill = |n: usize| seeded_bytes(seed, 0xC01_0000 + u64::from(p), n);
    let lead = |b: u8| {
        let mut v = fill(c + 1);
        v[0] = b;
        v
    };
    match PAYLOADS[p as usize] {
        "1B" => vec![b'x'],
        "empty" => vec![],
        "N" => vec![b'N'],
        "Z" => vec![b'Z'],
        "4" => vec![b'4'],
        "E" => vec![b'E'],
        "F" => vec![b'F'],
        "N+" => lead(b'N'),
        "Z+" => lead(b'Z'),
        "4+" => lead(b'4'),
        "E+" => lead(b'E'),
        "F+" => lead(b'F'),
        "cs-1" => fill(c.saturating_sub(1)),
        "cs" => fill(c),
        "cs+1" => fill(c + 1),
        "2cs" => fill(2 * c),
        "2cs+1" => fill(2 * c + 1),
        "zeros70" => vec![0u8; 70],
        "rand67" => fill(67),
        "blte" => b"BLTE\0\0\0\0Nhi".to_vec(),
        "long1029" => fill(1029),
        // incompressible and larger than zlib's 32 KiB stored-block limit and flate2's read buffer:
        // used only with the default chunk size (one big chunk), see tier_levels
        "rand40k" => fill(40_000),
        // with chunk size 1: 65 537 chunks, one more than a 16-bit chunk count holds (the header
        // field is 24 bits wide); used only with chunk size 1, see tier_levels
        "n65537" => fill(65_537),
        other => unreachable!("payload class {other}"),
    }
}

pub struct SpecDef {
    pub label: &'static str,
    pub cipher: u8,
    pub key_name: u64,
    pub iv: [u8; 4],
    pub key: [u8; 16],
}

const KEY_A: [u8; 16] = [0x00, 0x11, 0x22, 0x33, 0x44, 0x55, 0x66, 0x77, 0x88, 0x99, 0xAA, 0xBB, 0xCC, 0xDD, 0xEE, 0xFF];
const KEY_B: [u8; 16] = [0xA5; 16];
const NAME_A: u64 = 0x0123_4567_89AB_CDEF;
const NAME_B: u64 = 0;
/// first byte 0xFF: XOR with a block index and addition of a block index differ
const IV_1: [u8; 4] = [0xFF, 0xFF, 0x01, 0x80];
const IV_0: [u8; 4] = [0, 0, 0, 0];

/// Encryption specs, simplest first. Two key names with two keys and two IVs, both ciphers.
pub const SPECS: &[SpecDef] = &[
    SpecDef { label: "salsa20/kA/iv1", cipher: b'S', key_name: NAME_A, iv: IV_1, key: KEY_A },
    SpecDef { label: "arc4/kA/iv1", cipher: b'A', key_name: NAME_A, iv: IV_1, key: KEY_A },
    SpecDef { label: "salsa20/kB/iv0", cipher: b'S', key_name: NAME_B, iv: IV_0, key: KEY_B },
    SpecDef { label: "arc4/kB/iv0", cipher: b'A', key_name: NAME_B, iv: IV_0, key: KEY_B },
];
pub type SpecId = u8;

fn real_spec(s: SpecId) -> (EncryptionSpec, [u8; 16]) {
    let d = &SPECS[s as usize];
    let spec = if d.cipher == b'S' {
        EncryptionSpec::salsa20(d.key_name, d.iv)
    } else {
        EncryptionSpec::arc4(d.key_name, d.iv)
    };
    (spec, d.key)
}

/// The matching key store: every key name the alphabet can use, with its key.
fn subject_store() -> TactKeyStore {
    let mut s = TactKeyStore::empty();
    s.add(TactKey::new(NAME_A, KEY_A));
    s.add(TactKey::new(NAME_B, KEY_B));
    s
}
const KEYRING: &[(u64, [u8; 16])] = &[(NAME_A, KEY_A), (NAME_B, KEY_B)];

#[derive(Clone, Copy, PartialEq, Eq, Hash, Debug)]
pub enum Idx {
    /// the honest caller: the number of chunks already in the builder
    Pos,
    Plus1,
    Minus1,
}

impl Idx {
    fn name(self) -> &'static str {
        match self {
            Idx::Pos => "pos",
            Idx::Plus1 => "pos+1",
            Idx::Minus1 => "pos-1",
        }
    }
}

#[derive(Clone, PartialEq, Eq, Hash, Debug)]
pub enum Call {
    AddData(P),
    AddMixed(P, Option<SpecId>),
    AddEnc(P, SpecId, Idx),
    AddChunk(P, Mode),
}

impl Call {
    fn p(&self) -> P {
        match self {
            Call::AddData(p) | Call::AddMixed(p, _) | Call::AddEnc(p, _, _) | Call::AddChunk(p, _) => *p,
        }
    }
    fn with_p(&self, p: P) -> Call {
        match self {
            Call::AddData(_) => Call::AddData(p),
            Call::AddMixed(_, s) => Call::AddMixed(p, *s),
            Call::AddEnc(_, s, i) => Call::AddEnc(p, *s, *i),
            Call::AddChunk(_, m) => Call::AddChunk(p, *m),
        }
    }
    fn describe(&self) -> String {
        let pn = |p: &P| PAYLOADS[*p as usize];
        match self {
            Call::AddData(p) => format!("add_data({})", pn(p)),
            Call::AddMixed(p, None) => format!("add_mixed_data({},None)", pn(p)),
            Call::AddMixed(p, Some(s)) => format!("add_mixed_data({},{})", pn(p), SPECS[*s as usize].label),
            Call::AddEnc(p, s, i) => {
                format!("add_encrypted_data({},{},idx={})", pn(p), SPECS[*s as usize].label, i.name())
            }
            Call::AddChunk(p, m) => format!("add_chunk(ChunkData::new({},{}))", pn(p), m.name()),
        }
    }
}

#[derive(Clone, PartialEq, Eq, Hash, Debug)]
pub enum Prog {
    Builder { mode: Mode, cs: Cs, enc: Option<SpecId>, calls: Vec<Call> },
    /// `BlteFile::compress(p, cs, mode)`
    Compress { p: P, cs: usize, mode: Mode },
    /// `BlteFile::single_chunk(p, mode)`
    Single { p: P, mode: Mode },
}

impl Prog {
    pub fn describe(&self) -> String {
        match self {
            Prog::Builder { mode, cs, enc, calls } => format!(
                "builder[mode={} cs={} enc={}] {}",
                mode.name(),
                cs.name(),
                enc.map_or("-", |s| SPECS[s as usize].label),
                calls.iter().map(Call::describe).collect::<Vec<_>>().join("; ")
            ),
            Prog::Compress { p, cs, mode } => {
                format!("BlteFile::compress({},{cs},{})", PAYLOADS[*p as usize], mode.name())
            }
            Prog::Single { p, mode } => format!("BlteFile::single_chunk({},{})", PAYLOADS[*p as usize], mode.name()),
        }
    }

    fn admissible(&self) -> bool {
        match self {
            // pos-1 needs a predecessor chunk; every call adds at least one chunk
            Prog::Builder { calls, .. } => !matches!(calls.first(), Some(Call::AddEnc(_, _, Idx::Minus1))),
            _ => true,
        }
    }

    pub fn to_json(&self) -> Value {
        match self {
            Prog::Builder { mode, cs, enc, calls } => json!({
                "kind": "builder",
                "mode": mode.name(),
                "chunk_size": match cs { Cs::Default => Value::Null, Cs::Sz(n) => json!(n) },
                "enc": enc,
                "enc_label": enc.map(|s| SPECS[s as usize].label),
                "calls": calls.iter().map(|c| match c {
                    Call::AddData(p) => json!({"op": "add_data", "p": PAYLOADS[*p as usize]}),
                    Call::AddMixed(p, s) => json!({"op": "add_mixed_data", "p": PAYLOADS[*p as usize], "spec": s}),
                    Call::AddEnc(p, s, i) => json!({"op": "add_encrypted_data", "p": PAYLOADS[*p as usize], "spec": s, "idx": i.name()}),
                    Call::AddChunk(p, m) => json!({"op": "add_chunk", "p": PAYLOADS[*p as usize], "mode": m.name()}),
                }).collect::<Vec<_>>(),
            }),
            Prog::Compress { p, cs, mode } => {
                json!({"kind": "compress", "p": PAYLOADS[*p as usize], "chunk_size": cs, "mode": mode.name()})
            }
            Prog::Single { p, mode } => json!({"kind": "single_chunk", "p": PAYLOADS[*p as usize], "mode": mode.name()}),
        }
    }

    pub fn from_json(v: &Value) -> Option<Prog> {
        let pc = |v: &Value| -> Option<P> {
            let n = v.as_str()?;
            PAYLOADS.iter().position(|x| *x == n).map(|i| i as P)
        };
        let spec = |v: &Value| -> Option<SpecId> {
            let s = v.as_u64()? as usize;
            if s < SPECS.len() { Some(s as SpecId) } else { None }
        };
        let mode = |v: &Value| Mode::parse(v.as_str()?);
        match v["kind"].as_str()? {
            "builder" => {
                let cs = match &v["chunk_size"] {
                    Value::Null => Cs::Default,
                    n => Cs::Sz(n.as_u64()? as usize),
                };
                let enc = if v["enc"].is_null() { None } else { Some(spec(&v["enc"])?) };
                let mut calls = Vec::new();
                for c in v["calls"].as_array()? {
                    let p = pc(&c["p"])?;
                    calls.push(match c["op"].as_str()? {
                        "add_data" => Call::AddData(p),
                        "add_mixed_data" => {
                            Call::AddMixed(p, if c["spec"].is_null() { None } else { Some(spec(&c["spec"])?) })
                        }
                        "add_encrypted_data" => Call::AddEnc(
                            p,
                            spec(&c["spec"])?,
                            match c["idx"].as_str()? {
                                "pos" => Idx::Pos,
                                "pos+1" => Idx::Plus1,
                                "pos-1" => Idx::Minus1,
                                _ => return None,
                            },
                        ),
                        "add_chunk" => Call::AddChunk(p, mode(&c["mode"])?),
                        _ => return None,
                    });
                }
                Some(Prog::Builder { mode: mode(&v["mode"])?, cs, enc, calls })
            }
            "compress" => {
                Some(Prog::Compress { p: pc(&v["p"])?, cs: v["chunk_size"].as_u64()? as usize, mode: mode(&v["mode"])? })
            }
            "single_chunk" => Some(Prog::Single { p: pc(&v["p"])?, mode: mode(&v["mode"])? }),
            _ => None,
        }
    }
}

// ---------------------------------------------------------------------------------------
// running a program on the real encoder
// ---------------------------------------------------------------------------------------

fn new_builder(mode: Mode, cs: Cs, enc: Option<SpecId>) -> BlteBuilder {
    let mut b = BlteBuilder::new().with_compression(mode.real());
    if let Cs::Sz(n) = cs {
        b = b.with_chunk_size_unchecked(n);
    }
    if let Some(s) = enc {
        let (spec, key) = real_spec(s);
        b = b.with_encryption(spec, key);
    }
    b
}

/// Apply `calls` with already resolved explicit block indices. `Err((k, msg))` = call k
/// returned an error.
fn exec(
    mode: Mode,
    cs: Cs,
    enc: Option<SpecId>,
    calls: &[Call],
    resolved: &[Option<usize>],
    seed: u64,
) -> Result<BlteBuilder, (usize, String)> {
    let mut b = new_builder(mode, cs, enc);
    for (k, c) in calls.iter().enumerate() {
        let data = payload(c.p(), cs, seed);
        b = match c {
            Call::AddData(_) => b.add_data(&data).map_err(|e| (k, e.to_string()))?,
            Call::AddMixed(_, s) => b.add_mixed_data(&data, s.map(real_spec)).map_err(|e| (k, e.to_string()))?,
            Call::AddEnc(_, s, _) => {
                let (spec, key) = real_spec(*s);
                let idx = resolved[k].expect("resolved index");
                b.add_encrypted_data(&data, spec, key, idx).map_err(|e| (k, e.to_string()))?
            }
            Call::AddChunk(_, m) => {
                let chunk = ChunkData::new(data, m.real()).map_err(|e| (k, format!("ChunkData::new: {e}")))?;
                b.add_chunk(chunk)
            }
        };
    }
    Ok(b)
}

enum Encoded {
    /// some encoder call returned `Err` — fine by clause 3
    Refused { stage: String, err: String },
    File(BlteFile),
}

fn encode(prog: &Prog, seed: u64) -> (Encoded, Vec<u8>) {
    match prog {
        Prog::Builder { mode, cs, enc, calls } => {
            let mut expected = Vec::new();
            for c in calls {
                expected.extend_from_slice(&payload(c.p(), *cs, seed));
            }
            // resolve the explicit block indices of add_encrypted_data: "pos" is the number
            // of chunks the real builder holds before the call, observed by building the prefix
            let mut resolved: Vec<Option<usize>> = vec![None; calls.len()];
            for k in 0..calls.len() {
                if let Call::AddEnc(_, _, idx) = &calls[k] {
                    let pos = if k == 0 {
                        0
                    } else {
                        match exec(*mode, *cs, *enc, &calls[..k], &resolved, seed) {
                            Err((at, e)) => {
                                return (Encoded::Refused { stage: format!("call{at}"), err: e }, expected);
                            }
                            Ok(b) => match b.build() {
                                Ok(f) => f.chunks.len(),
                                Err(e) => {
                                    return (
                                        Encoded::Refused { stage: "prefix-build".into(), err: e.to_string() },
                                        expected,
                                    );
                                }
                            },
                        }
                    };
                    resolved[k] = Some(match idx {
                        Idx::Pos => pos,
                        Idx::Plus1 => pos + 1,
                        Idx::Minus1 => pos.checked_sub(1).expect("admissible program"),
                    });
                }
            }
            match exec(*mode, *cs, *enc, calls, &resolved, seed) {
                Err((at, e)) => (Encoded::Refused { stage: format!("call{at}"), err: e }, expected),
                Ok(b) => match b.build() {
                    Err(e) => (Encoded::Refused { stage: "build".into(), err: e.to_string() }, expected),
                    Ok(f) => (Encoded::File(f), expected),
                },
            }
        }
        Prog::Compress { p, cs, mode } => {
            let data = payload(*p, Cs::Sz(*cs), seed);
            match BlteFile::compress(&data, *cs, mode.real()) {
                Err(e) => (Encoded::Refused { stage: "compress".into(), err: e.to_string() }, data),
                Ok(f) => (Encoded::File(f), data),
            }
        }
        Prog::Single { p, mode } => {
            let data = payload(*p, Cs::Default, seed);
            match BlteFile::single_chunk(data.clone(), mode.real()) {
                Err(e) => (Encoded::Refused { stage: "single_chunk".into(), err: e.to_string() }, data),
                Ok(f) => (Encoded::File(f), data),
            }
        }
    }
}

// ---------------------------------------------------------------------------------------
// oracle
// ---------------------------------------------------------------------------------------

#[derive(Clone, Debug)]
pub struct Vio {
    /// oracle clause that failed; the shrinker preserves it
    pub group: String,
    pub kind: &'static str,
    /// stable label that opens the signature
    pub label: String,
    pub detail: String,
}

#[derive(Default, Debug)]
pub struct Eval {
    pub outcome: String,
    /// a container was serialized and clauses 1–2 were evaluated
    pub container: bool,
    pub vios: Vec<Vio>,
    pub chunks: usize,
    pub enc_chunks: usize,
    pub bytes: Vec<u8>,
    pub expected: Vec<u8>,
    pub subject: String,
    pub reference: String,
}

fn short_hex(b: &[u8]) -> String {
    if b.len() <= 48 { hex::encode(b) } else { format!("{}…({} bytes)", hex::encode(&b[..48]), b.len()) }
}

/// Where two byte strings part ways (the hex previews are truncated).
fn diff_at(got: &[u8], want: &[u8]) -> String {
    match got.iter().zip(want).position(|(a, b)| a != b) {
        Some(i) => format!("first difference at byte {i} (got {:02x}, want {:02x}); lengths {}/{}", got[i], want[i], got.len(), want.len()),
        None => format!("common prefix equal; lengths {}/{}", got.len(), want.len()),
    }
}

fn err_class(e: &str) -> String {
    crate::util::norm_msg(e).chars().take(48).collect()
}

fn evaluate_inner(prog: &Prog, seed: u64) -> Eval {
    let mut ev = Eval::default();
    let (enc, expected) = encode(prog, seed);
    ev.expected = expected;
    let file = match enc {
        Encoded::Refused { stage, err } => {
            let st = if stage.starts_with("call") { "call" } else { stage.as_str() };
            ev.outcome = format!("refused:{st}:{}", err_class(&err));
            return ev;
        }
        Encoded::File(f) => f,
    };
    let mem_lens: Vec<usize> = file.chunks.iter().map(|c| 1 + c.data.len()).collect();
    let bytes = match CascFormat::build(&file) {
        Ok(b) => b,
        Err(e) => {
            ev.outcome = format!("refused:serialize:{}", err_class(&e.to_string()));
            return ev;
        }
    };
    ev.container = true;
    ev.chunks = file.chunks.len();
    ev.enc_chunks = file.chunks.iter().filter(|c| c.mode == CompressionMode::Encrypted).count();
    let expected = &ev.expected;

    // clause 1: the subject's own decoder on the serialized bytes
    let store = subject_store();
    let mut identity: Option<(&'static str, String)> = None;
    match BlteFile::parse(&bytes) {
        Err(e) => identity = Some(("undecodable", format!("BlteFile::parse failed: {e}"))),
        Ok(parsed) => {
            match parsed.decompress_with_keys(&store) {
                Err(e) => identity = Some(("undecodable", format!("decompress_with_keys failed: {e}"))),
                Ok(out) if out != *expected => {
                    identity = Some((
                        "wrong-plaintext",
                        format!("decompress_with_keys returned Ok({}), added content is {} — {}", short_hex(&out), short_hex(expected), diff_at(&out, expected)),
                    ));
                }
                Ok(_) => {}
            }
            if identity.is_none() && ev.enc_chunks == 0 {
                match parsed.decompress() {
                    Err(e) => identity = Some(("undecodable", format!("decompress failed: {e}"))),
                    Ok(out) if out != *expected => {
                        identity = Some((
                            "wrong-plaintext",
                            format!("decompress returned Ok({}), added content is {} — {}", short_hex(&out), short_hex(expected), diff_at(&out, expected)),
                        ));
                    }
                    Ok(_) => {}
                }
            }
        }
    }
    ev.subject = match &identity {
        None => "decodes to the added content".into(),
        Some((k, d)) => format!("{k}: {d}"),
    };

    // clause 2: independent decoder + chunk-table audit
    let mut refdis: Option<String> = None;
    match blte_dec::decode(&bytes, KEYRING) {
        Err(e) => refdis = Some(format!("container structure unreadable: {e}")),
        Ok(cont) => {
            match cont.plaintext() {
                Err(e) => refdis = Some(e),
                Ok(p) if p != *expected => {
                    refdis = Some(format!("decodes to {}, added content is {} — {}", short_hex(&p), short_hex(expected), diff_at(&p, expected)));
                }
                Ok(_) => {}
            }
            // per-chunk output lengths mean something only when the reference recovered the
            // added content (a chunk decrypted to garbage can "decode" to any length)
            let audit_dsize = refdis.is_none();
            if cont.chunks.len() != mem_lens.len() {
                ev.vios.push(Vio {
                    group: "table-count".into(),
                    kind: "untruthful-table(size)",
                    label: "untruthful-table(size:count)".into(),
                    detail: format!("container describes {} chunks, the encoder wrote {}", cont.chunks.len(), mem_lens.len()),
                });
            } else if !cont.single {
                let mut cs_bad = Vec::new();
                let mut ds_bad = Vec::new();
                let mut md_bad = Vec::new();
                for (c, mem) in cont.chunks.iter().zip(&mem_lens) {
                    if c.rec_csize != Some(*mem as u32) {
                        cs_bad.push(format!("chunk {}: table says {} bytes, the encoder wrote {mem}", c.index, c.rec_csize.unwrap_or(0)));
                    }
                    if let (true, Ok(d)) = (audit_dsize, &c.decoded) {
                        if c.rec_dsize != Some(d.len() as u32) {
                            ds_bad.push(format!(
                                "chunk {} (mode {}{}): table says {} bytes, the chunk decodes to {}",
                                c.index,
                                c.mode as char,
                                c.inner_mode.map(|m| format!("/{}", m as char)).unwrap_or_default(),
                                c.rec_dsize.unwrap_or(0),
                                d.len()
                            ));
                        }
                    }
                    if c.rec_md5 != Some(c.md5) {
                        md_bad.push(format!(
                            "chunk {}: table says {}, MD5 of the {} chunk bytes is {}",
                            c.index,
                            hex::encode(c.rec_md5.unwrap_or_default()),
                            c.disk_len,
                            hex::encode(c.md5)
                        ));
                    }
                }
                if cont.trailing != 0 {
                    cs_bad.push(format!("{} bytes follow the last chunk the table describes", cont.trailing));
                }
                for (bad, group, kind, label) in [
                    (cs_bad, "table-csize", "untruthful-table(size)", "untruthful-table(size:compressed)"),
                    (ds_bad, "table-dsize", "untruthful-table(size)", "untruthful-table(size:decompressed)"),
                    (md_bad, "table-md5", "untruthful-table(checksum)", "untruthful-table(checksum)"),
                ] {
                    if !bad.is_empty() {
                        ev.vios.push(Vio {
                            group: group.into(),
                            kind,
                            label: label.into(),
                            detail: bad.into_iter().take(3).collect::<Vec<_>>().join("; "),
                        });
                    }
                }
            } else if cont.chunks.first().map(|c| c.disk_len) != mem_lens.first().copied() {
                ev.vios.push(Vio {
                    group: "table-csize".into(),
                    kind: "untruthful-table(size)",
                    label: "untruthful-table(size:compressed)".into(),
                    detail: "single-chunk container: bytes after the header differ from the chunk the encoder wrote".into(),
                });
            }
        }
    }
    ev.reference = match &refdis {
        None => "decodes to the added content".into(),
        Some(d) => d.clone(),
    };
    match (&identity, &refdis) {
        (Some((kind, d)), _) => ev.vios.push(Vio {
            group: "identity".into(),
            kind,
            label: (*kind).into(),
            detail: format!("{d} [independent decoder: {}]", ev.reference),
        }),
        (None, Some(d)) => ev.vios.push(Vio {
            group: "refdec".into(),
            kind: "independent-decoder-disagrees",
            label: "independent-decoder-disagrees".into(),
            detail: format!("the subject's decoder returns the added content, the independent decoder does not: {d}"),
        }),
        (None, None) => {}
    }

    let modes: String = {
        let mut m: Vec<u8> = file.chunks.iter().map(|c| c.mode.as_byte()).collect();
        m.sort_unstable();
        m.dedup();
        String::from_utf8_lossy(&m).into_owned()
    };
    let nb = match ev.chunks {
        0 => "0",
        1 => "1",
        2 => "2",
        3..=9 => "3-9",
        10..=255 => "10-255",
        _ => "256+",
    };
    ev.outcome = format!(
        "container:{}:{modes}:{nb}:{}",
        if file.header.is_single_chunk() { "single" } else { "table" },
        ev.vios.iter().map(|v| v.label.as_str()).collect::<Vec<_>>().join(",")
    );
    ev.bytes = bytes;
    ev
}

fn norm_panic_loc(loc: &str) -> String {
    let l = match loc.find("crates/") {
        Some(i) => &loc[i..],
        None => loc,
    };
    match l.rfind(':') {
        Some(i) => l[..i].to_string(),
        None => l.to_string(),
    }
}

/// Evaluate one program; a panic anywhere in the subject becomes a violation of kind `panic`.
///
/// Chunk-size-0 programs may only come here from the child process or after a child process
/// has shown that the program returns (`run_isolated` → `Isolated::Exit`).
pub fn evaluate(prog: &Prog, seed: u64) -> Eval {
    match catch(|| evaluate_inner(prog, seed)) {
        Ok(ev) => ev,
        Err(msg) => {
            let loc = take_last_panic_loc().unwrap_or_else(|| "<unknown>".into());
            let nloc = norm_panic_loc(&loc);
            let nmsg = crate::util::norm_msg(&msg);
            let mut ev = Eval::default();
            ev.outcome = format!("panic:{nloc}");
            ev.vios.push(Vio {
                group: format!("panic:{nloc}"),
                kind: "panic",
                label: format!("panic@{nloc}:{nmsg}"),
                detail: format!("panicked at {loc}: {msg}"),
            });
            ev
        }
    }
}

// ---------------------------------------------------------------------------------------
// shrinking a violating program to a 1-minimal core (deterministic, memoised)
// ---------------------------------------------------------------------------------------

fn candidates(p: &Prog) -> Vec<Prog> {
    let mut out = Vec::new();
    match p {
        Prog::Builder { mode, cs, enc, calls } => {
            let mk = |calls: Vec<Call>| Prog::Builder { mode: *mode, cs: *cs, enc: *enc, calls };
            // 1. make every explicit index honest
            for (i, c) in calls.iter().enumerate() {
                if let Call::AddEnc(p, s, idx) = c {
                    if *idx != Idx::Pos {
                        let mut cs2 = calls.clone();
                        cs2[i] = Call::AddEnc(*p, *s, Idx::Pos);
                        out.push(mk(cs2));
                    }
                }
            }
            // 2. drop a call
            for i in (0..calls.len()).rev() {
                let mut cs2 = calls.clone();
                cs2.remove(i);
                out.push(mk(cs2));
            }
            // 3. a simpler call
            for (i, c) in calls.iter().enumerate() {
                let simpler = match c {
                    Call::AddChunk(p, m) if *m != Mode::N => Some(Call::AddChunk(*p, Mode::N)),
                    Call::AddChunk(p, _) => Some(Call::AddData(*p)),
                    Call::AddMixed(p, None) => Some(Call::AddData(*p)),
                    Call::AddMixed(p, Some(_)) => Some(Call::AddMixed(*p, None)),
                    Call::AddEnc(p, s, Idx::Pos) => Some(Call::AddMixed(*p, Some(*s))),
                    _ => None,
                };
                if let Some(s) = simpler {
                    let mut cs2 = calls.clone();
                    cs2[i] = s;
                    out.push(mk(cs2));
                }
            }
            // 4. a simpler configuration
            if enc.is_some() {
                out.push(Prog::Builder { mode: *mode, cs: *cs, enc: None, calls: calls.clone() });
            }
            if matches!(enc, Some(s) if *s != 0) {
                out.push(Prog::Builder { mode: *mode, cs: *cs, enc: Some(0), calls: calls.clone() });
            }
            if *mode != Mode::N {
                out.push(Prog::Builder { mode: Mode::N, cs: *cs, enc: *enc, calls: calls.clone() });
            }
            if *cs != Cs::Default {
                out.push(Prog::Builder { mode: *mode, cs: Cs::Default, enc: *enc, calls: calls.clone() });
            }
            if matches!(cs, Cs::Sz(n) if *n != 4) {
                out.push(Prog::Builder { mode: *mode, cs: Cs::Sz(4), enc: *enc, calls: calls.clone() });
            }
            // 5. the simplest spec in a call
            for (i, c) in calls.iter().enumerate() {
                let simpler = match c {
                    Call::AddMixed(p, Some(s)) if *s != 0 => Some(Call::AddMixed(*p, Some(0))),
                    Call::AddEnc(p, s, idx) if *s != 0 => Some(Call::AddEnc(*p, 0, *idx)),
                    _ => None,
                };
                if let Some(s) = simpler {
                    let mut cs2 = calls.clone();
                    cs2[i] = s;
                    out.push(mk(cs2));
                }
            }
            // 6. a simpler payload
            for (i, c) in calls.iter().enumerate() {
                for q in 0..c.p() {
                    let mut cs2 = calls.clone();
                    cs2[i] = c.with_p(q);
                    out.push(mk(cs2));
                }
            }
        }
        Prog::Compress { p, cs, mode } => {
            if *mode != Mode::N {
                out.push(Prog::Compress { p: *p, cs: *cs, mode: Mode::N });
            }
            if *cs != 4 {
                out.push(Prog::Compress { p: *p, cs: 4, mode: *mode });
            }
            for q in 0..*p {
                out.push(Prog::Compress { p: q, cs: *cs, mode: *mode });
            }
        }
        Prog::Single { p, mode } => {
            if *mode != Mode::N {
                out.push(Prog::Single { p: *p, mode: Mode::N });
            }
            for q in 0..*p {
                out.push(Prog::Single { p: q, mode: *mode });
            }
        }
    }
    // never evaluate a chunk-size-0 program in-process: it may not return (see run_isolated)
    out.retain(|c| c.admissible() && !needs_isolation(c));
    out
}

#[derive(Default)]
pub struct ShrinkMemo {
    map: Mutex<HashMap<(Prog, String), Prog>>,
    evals: std::sync::atomic::AtomicU64,
}

/// Greedy descent: take the first candidate (fixed order) that still violates the same
/// oracle clause; repeat until none does. A pure function of (program, group, seed), so the
/// memo table cannot change results.
pub fn shrink(prog: &Prog, group: &str, seed: u64, memo: &ShrinkMemo) -> Prog {
    let mut cur = prog.clone();
    let mut path: Vec<Prog> = Vec::new();
    let mut start = true;
    let fin = 'outer: loop {
        // the enumeration never repeats a program, so only intermediate programs (reached
        // by many different starting points) are worth looking up and remembering
        if !start {
            if let Some(hit) = memo.map.lock().unwrap().get(&(cur.clone(), group.to_string())) {
                break hit.clone();
            }
            path.push(cur.clone());
        }
        start = false;
        for c in candidates(&cur) {
            memo.evals.fetch_add(1, Ordering::Relaxed);
            if evaluate(&c, seed).vios.iter().any(|v| v.group == group) {
                cur = c;
                continue 'outer;
            }
        }
        break cur;
    };
    let mut g = memo.map.lock().unwrap();
    for p in path {
        g.insert((p, group.to_string()), fin.clone());
    }
    fin
}

// ---------------------------------------------------------------------------------------
// isolated execution: programs that may not return at all (chunk size 0)
// ---------------------------------------------------------------------------------------

const CHILD_ENV: &str = "VERIF_C01_CHILD";
const CHILD_MEM_LIMIT: u64 = 512 << 20;
const CHILD_TIMEOUT_S: u64 = 20;

fn needs_isolation(p: &Prog) -> bool {
    matches!(p, Prog::Builder { cs: Cs::Sz(0), .. } | Prog::Compress { cs: 0, .. })
}

pub enum Isolated {
    /// the child evaluated the program and returned this `vcheck replay` exit code
    Exit(i32),
    /// the encoder never returned: the child was killed by a signal (memory limit → abort)
    /// or by the time-out
    NoReturn(String),
    Machinery(String),
}

/// Evaluate `prog` in a child `vcheck replay C01 <file>` with an address-space limit and a
/// time-out, so that a non-terminating or memory-exhausting encoder call is observable.
pub fn run_isolated(prog: &Prog, seed: u64) -> Isolated {
    use std::os::unix::process::{CommandExt, ExitStatusExt};
    let scratch = crate::util::Scratch::new("c01iso");
    let file = scratch.path().join("case.json");
    let body = json!({"property": "C01", "witness": {"program": prog.to_json(), "seed": seed}});
    if let Err(e) = std::fs::write(&file, serde_json::to_vec(&body).unwrap()) {
        return Isolated::Machinery(format!("cannot write {}: {e}", file.display()));
    }
    let exe = match std::env::current_exe() {
        Ok(e) => e,
        Err(e) => return Isolated::Machinery(format!("current_exe: {e}")),
    };
    let mut cmd = std::process::Command::new(exe);
    cmd.arg("replay").arg("C01").arg(&file).env(CHILD_ENV, "1");
    cmd.stdout(std::process::Stdio::null()).stderr(std::process::Stdio::null());
    unsafe {
        cmd.pre_exec(|| {
            let lim = libc::rlimit { rlim_cur: CHILD_MEM_LIMIT, rlim_max: CHILD_MEM_LIMIT };
            if libc::setrlimit(libc::RLIMIT_AS, &lim) != 0 {
                return Err(std::io::Error::last_os_error());
            }
            Ok(())
        });
    }
    let mut child = match cmd.spawn() {
        Ok(c) => c,
        Err(e) => return Isolated::Machinery(format!("cannot spawn child: {e}")),
    };
    let t0 = std::time::Instant::now();
    loop {
        match child.try_wait() {
            Ok(Some(st)) => {
                return match (st.code(), st.signal()) {
                    (Some(c), _) => Isolated::Exit(c),
                    (None, Some(sig)) => Isolated::NoReturn(format!(
                        "the call did not return: the process was killed by signal {sig} after {:.1}s under a {} MiB address-space limit (allocation failure aborts)",
                        t0.elapsed().as_secs_f64(),
                        CHILD_MEM_LIMIT >> 20
                    )),
                    _ => Isolated::Machinery("child ended without code or signal".into()),
                };
            }
            Ok(None) => {
                if t0.elapsed().as_secs() >= CHILD_TIMEOUT_S {
                    let _ = child.kill();
                    let _ = child.wait();
                    return Isolated::NoReturn(format!("the call did not return within {CHILD_TIMEOUT_S}s (killed)"));
                }
                std::thread::sleep(std::time::Duration::from_millis(20));
            }
            Err(e) => return Isolated::Machinery(format!("wait: {e}")),
        }
    }
}

/// Chunk size 0 ("all chunk sizes"): payload classes that do not depend on the chunk size,
/// one program per chunking loop in the subject (compress, add_data, add_mixed_data) plus the
/// call that does not chunk. Mode and encryption cannot influence whether the chunking loop
/// terminates, so they stay at their simplest values.
fn isolated_programs() -> Vec<Prog> {
    let mut v = Vec::new();
    for p in names(&["empty", "1B"]) {
        v.push(Prog::Compress { p, cs: 0, mode: Mode::N });
        v.push(Prog::Builder { mode: Mode::N, cs: Cs::Sz(0), enc: None, calls: vec![Call::AddData(p)] });
        v.push(Prog::Builder { mode: Mode::N, cs: Cs::Sz(0), enc: None, calls: vec![Call::AddMixed(p, None)] });
        v.push(Prog::Builder { mode: Mode::N, cs: Cs::Sz(0), enc: None, calls: vec![Call::AddEnc(p, 0, Idx::Pos)] });
    }
    v
}

// ---------------------------------------------------------------------------------------
// enumeration
// ---------------------------------------------------------------------------------------

#[derive(Clone, Debug)]
struct CallAlphabet {
    payloads: Vec<P>,
    specs: Vec<SpecId>,
    chunk_modes: Vec<Mode>,
}

impl CallAlphabet {
    /// all calls; `first` = the call is the first of the program (pos-1 does not exist)
    fn calls(&self, first: bool) -> Vec<Call> {
        let mut v = Vec::new();
        for &p in &self.payloads {
            v.push(Call::AddData(p));
        }
        for &p in &self.payloads {
            v.push(Call::AddMixed(p, None));
            for &s in &self.specs {
                v.push(Call::AddMixed(p, Some(s)));
            }
        }
        for &p in &self.payloads {
            for &s in &self.specs {
                v.push(Call::AddEnc(p, s, Idx::Pos));
                v.push(Call::AddEnc(p, s, Idx::Plus1));
                if !first {
                    v.push(Call::AddEnc(p, s, Idx::Minus1));
                }
            }
        }
        for &p in &self.payloads {
            for &m in &self.chunk_modes {
                v.push(Call::AddChunk(p, m));
            }
        }
        v
    }
    fn to_json(&self) -> Value {
        json!({
            "payload_classes": self.payloads.iter().map(|p| PAYLOADS[*p as usize]).collect::<Vec<_>>(),
            "encryption_specs": self.specs.iter().map(|s| SPECS[*s as usize].label).collect::<Vec<_>>(),
            "add_chunk_modes": self.chunk_modes.iter().map(|m| m.name()).collect::<Vec<_>>(),
            "explicit_block_index": ["pos", "pos+1", "pos-1 (not for the first call)"],
        })
    }
}

#[derive(Clone, Debug)]
struct LevelDef {
    depth: usize,
    modes: Vec<Mode>,
    css: Vec<Cs>,
    encs: Vec<Option<SpecId>>,
    alpha: CallAlphabet,
}

impl LevelDef {
    fn to_json(&self) -> Value {
        json!({
            "calls_per_program": self.depth,
            "with_compression": self.modes.iter().map(|m| m.name()).collect::<Vec<_>>(),
            "chunk_sizes": self.css.iter().map(|c| c.name()).collect::<Vec<_>>(),
            "with_encryption": self.encs.iter().map(|e| e.map_or("none", |s| SPECS[s as usize].label)).collect::<Vec<_>>(),
            "call_alphabet": self.alpha.to_json(),
        })
    }
}

/// One unit of parallel work: a configuration plus the first call (or a degenerate program).
enum Shard {
    Builder { level: usize, mode: Mode, cs: Cs, enc: Option<SpecId>, first: Option<Call> },
    Degenerate(Vec<Prog>),
}

#[derive(Default)]
struct ShardOut {
    programs: u64,
    containers: u64,
    refused: u64,
    chunks: u64,
    enc_chunks: u64,
    max_chunks: usize,
    violating: u64,
    outcomes: HashSet<u64>,
    outcome_names: BTreeMap<String, u64>,
    /// signature → (kind, witness, detail, occurrences)
    vios: BTreeMap<String, (String, Value, String, u64)>,
    sample: Option<Value>,
    skipped: bool,
}

fn witness(min: &Prog, orig: &Prog, seed: u64, ev: &Eval) -> Value {
    let payloads: Vec<Value> = match min {
        Prog::Builder { cs, calls, .. } => calls.iter().map(|c| json!(short_hex(&payload(c.p(), *cs, seed)))).collect(),
        Prog::Compress { p, cs, .. } => vec![json!(short_hex(&payload(*p, Cs::Sz(*cs), seed)))],
        Prog::Single { p, .. } => vec![json!(short_hex(&payload(*p, Cs::Default, seed)))],
    };
    json!({
        "program": min.to_json(),
        "program_text": min.describe(),
        "seed": seed,
        "payloads_hex": payloads,
        "added_content_hex": short_hex(&ev.expected),
        "container_hex": if ev.bytes.len() <= 512 { hex::encode(&ev.bytes) } else { short_hex(&ev.bytes) },
        "subject_decoder": ev.subject,
        "independent_decoder": ev.reference,
        "first_seen_in": orig.describe(),
    })
}

fn judge(prog: &Prog, seed: u64, memo: &ShrinkMemo, out: &mut ShardOut) {
    let ev = evaluate(prog, seed);
    out.programs += 1;
    let oh = fnv64_str(&ev.outcome);
    out.outcomes.insert(oh);
    *out.outcome_names.entry(ev.outcome.clone()).or_insert(0) += 1;
    if ev.container {
        out.containers += 1;
        out.chunks += ev.chunks as u64;
        out.enc_chunks += ev.enc_chunks as u64;
        out.max_chunks = out.max_chunks.max(ev.chunks);
        if out.sample.is_none() && ev.vios.is_empty() {
            out.sample = Some(json!({
                "program": prog.describe(),
                "container_bytes": ev.bytes.len(),
                "chunks": ev.chunks,
                "encrypted_chunks": ev.enc_chunks,
                "container_hex": short_hex(&ev.bytes),
                "verdict": "subject and independent decoder return the added content; table truthful",
            }));
        }
    } else if ev.vios.is_empty() {
        out.refused += 1;
    }
    if ev.vios.is_empty() {
        return;
    }
    out.violating += 1;
    for v in &ev.vios {
        let min = shrink(prog, &v.group, seed, memo);
        let mev = evaluate(&min, seed);
        let Some(mv) = mev.vios.iter().find(|x| x.group == v.group) else {
            // cannot happen: shrink only accepts programs that violate the group
            let sig = format!("UNSTABLE|{}", prog.describe());
            out.vios.entry(sig).or_insert(("unstable".into(), prog.to_json(), "shrunk program does not violate".into(), 0)).3 += 1;
            continue;
        };
        let sig = format!("{}|{}", mv.label, min.describe());
        let e = out
            .vios
            .entry(sig)
            .or_insert_with(|| (mv.kind.to_string(), witness(&min, prog, seed, &mev), mv.detail.clone(), 0));
        e.3 += 1;
    }
}

fn run_shard(sh: &Shard, levels: &[LevelDef], seed: u64, memo: &ShrinkMemo, stop: &AtomicBool) -> ShardOut {
    let mut out = ShardOut::default();
    if stop.load(Ordering::Relaxed) {
        out.skipped = true;
        return out;
    }
    match sh {
        Shard::Degenerate(ps) => {
            for p in ps {
                judge(p, seed, memo, &mut out);
            }
        }
        Shard::Builder { level, mode, cs, enc, first } => {
            let lv = &levels[*level];
            let Some(first) = first else {
                judge(&Prog::Builder { mode: *mode, cs: *cs, enc: *enc, calls: vec![] }, seed, memo, &mut out);
                return out;
            };
            let rest = lv.alpha.calls(false);
            // odometer over the remaining depth-1 positions
            let n = lv.depth - 1;
            let mut ix = vec![0usize; n];
            loop {
                let mut calls = Vec::with_capacity(lv.depth);
                calls.push(first.clone());
                for &i in &ix {
                    calls.push(rest[i].clone());
                }
                judge(&Prog::Builder { mode: *mode, cs: *cs, enc: *enc, calls }, seed, memo, &mut out);
                let mut k = n;
                loop {
                    if k == 0 {
                        return out;
                    }
                    k -= 1;
                    ix[k] += 1;
                    if ix[k] < rest.len() {
                        break;
                    }
                    ix[k] = 0;
                }
            }
        }
    }
    out
}

fn names(ps: &[&str]) -> Vec<P> {
    ps.iter().map(|n| pclass(n)).collect()
}

fn tier_levels(tier: Tier) -> Vec<LevelDef> {
    let all_payloads: Vec<P> =
        (0..PAYLOADS.len() as P).filter(|p| !["rand40k", "n65537"].contains(&PAYLOADS[*p as usize])).collect();
    // chunk counts beyond 8 and 16 bits of the 24-bit count field: depth 1, chunk size 1
    let many_chunks_level = || LevelDef {
        depth: 1,
        modes: vec![Mode::N, Mode::Z],
        css: vec![Cs::Sz(1)],
        encs: vec![None, Some(0)],
        alpha: CallAlphabet { payloads: names(&["long1029", "n65537"]), specs: vec![0], chunk_modes: vec![Mode::N] },
    };
    // the big incompressible payload: depth 1, default chunk size only (a single large chunk per call)
    let big_level = |all_modes: &Vec<Mode>| LevelDef {
        depth: 1,
        modes: all_modes.clone(),
        css: vec![Cs::Default],
        encs: vec![None, Some(0), Some(2)],
        alpha: CallAlphabet { payloads: vec![pclass("rand40k")], specs: vec![0, 2], chunk_modes: all_modes.clone() },
    };
    // depth 2 leaves out the three many-chunk classes (they stay at depth 1 under every configuration)
    let no_long: Vec<P> = all_payloads
        .iter()
        .copied()
        .filter(|p| !["long1029", "zeros70", "rand67"].contains(&PAYLOADS[*p as usize]))
        .collect();
    let all_modes = vec![Mode::N, Mode::Z, Mode::L4, Mode::E, Mode::F];
    let nz4 = vec![Mode::N, Mode::Z, Mode::L4];
    let encs4 = vec![None, Some(0), Some(1), Some(2)];
    match tier {
        Tier::Quick => vec![
            LevelDef {
                depth: 0,
                modes: vec![Mode::N],
                css: vec![Cs::Default],
                encs: vec![None, Some(0)],
                alpha: CallAlphabet { payloads: vec![], specs: vec![], chunk_modes: vec![] },
            },
            LevelDef {
                depth: 1,
                modes: all_modes.clone(),
                css: vec![Cs::Sz(4), Cs::Sz(5), Cs::Default],
                encs: vec![None, Some(0), Some(1), Some(2), Some(3)],
                alpha: CallAlphabet { payloads: all_payloads.clone(), specs: vec![0, 1, 2, 3], chunk_modes: all_modes.clone() },
            },
            LevelDef {
                depth: 2,
                modes: nz4.clone(),
                css: vec![Cs::Sz(4), Cs::Default],
                encs: encs4.clone(),
                alpha: CallAlphabet {
                    payloads: names(&["1B", "empty", "E", "cs", "cs+1", "2cs+1"]),
                    specs: vec![0, 1, 2],
                    chunk_modes: nz4.clone(),
                },
            },
            big_level(&all_modes),
            many_chunks_level(),
            // three calls: the smallest alphabet in which a third call can follow an empty piece,
            // an encrypted piece and a piece that straddles the chunk size
            LevelDef {
                depth: 3,
                modes: vec![Mode::N, Mode::Z],
                css: vec![Cs::Sz(4), Cs::Default],
                encs: vec![None, Some(0)],
                alpha: CallAlphabet { payloads: names(&["1B", "empty", "cs+1"]), specs: vec![0], chunk_modes: vec![Mode::N] },
            },
        ],
        Tier::Thorough => vec![
            big_level(&all_modes),
            many_chunks_level(),
            LevelDef {
                depth: 0,
                modes: all_modes.clone(),
                css: vec![Cs::Default, Cs::Sz(4)],
                encs: encs4.clone(),
                alpha: CallAlphabet { payloads: vec![], specs: vec![], chunk_modes: vec![] },
            },
            LevelDef {
                depth: 1,
                modes: all_modes.clone(),
                css: vec![Cs::Sz(4), Cs::Sz(5), Cs::Sz(1024), Cs::Default],
                encs: vec![None, Some(0), Some(1), Some(2), Some(3)],
                alpha: CallAlphabet { payloads: all_payloads.clone(), specs: vec![0, 1, 2, 3], chunk_modes: all_modes.clone() },
            },
            LevelDef {
                depth: 2,
                modes: nz4.clone(),
                css: vec![Cs::Sz(4), Cs::Sz(5), Cs::Sz(1024), Cs::Default],
                encs: encs4.clone(),
                alpha: CallAlphabet { payloads: no_long.clone(), specs: vec![0, 1, 2], chunk_modes: nz4.clone() },
            },
            LevelDef {
                depth: 3,
                modes: nz4.clone(),
                css: vec![Cs::Sz(4), Cs::Default],
                encs: vec![None, Some(0), Some(1)],
                alpha: CallAlphabet {
                    payloads: names(&["1B", "empty", "E", "cs", "cs+1"]),
                    specs: vec![0, 1],
                    chunk_modes: vec![Mode::N, Mode::Z],
                },
            },
        ],
    }
}

fn degenerate_programs(tier: Tier) -> Vec<Prog> {
    let mut v = Vec::new();
    let modes = [Mode::N, Mode::Z, Mode::L4, Mode::E, Mode::F];
    let css: &[usize] = tier.pick(&[4, 5], &[4, 5, 1024]);
    for p in 0..PAYLOADS.len() as P {
        for m in modes {
            v.push(Prog::Single { p, mode: m });
            for &cs in css {
                v.push(Prog::Compress { p, cs, mode: m });
            }
        }
    }
    v
}

/// Negative control for the audit: corrupt a truthful container in three ways and require
/// the independent decoder to notice each.
fn audit_negative_control(seed: u64) -> Result<(), String> {
    let prog = Prog::Builder {
        mode: Mode::Z,
        cs: Cs::Sz(4),
        enc: None,
        calls: vec![Call::AddData(pclass("2cs+1")), Call::AddMixed(pclass("1B"), Some(0))],
    };
    let ev = evaluate(&prog, seed);
    if !ev.container {
        return Err(format!("control program produced no container: {}", ev.outcome));
    }
    let good = blte_dec::decode(&ev.bytes, KEYRING)?;
    if good.plaintext().as_deref() != Ok(ev.expected.as_slice()) {
        return Err("control container does not decode with the independent decoder".into());
    }
    // flip one payload bit of the last chunk → MD5 audit must fail
    let mut b = ev.bytes.clone();
    let last = b.len() - 1;
    b[last] ^= 1;
    let c = blte_dec::decode(&b, KEYRING)?;
    if c.chunks.iter().all(|c| c.rec_md5 == Some(c.md5)) {
        return Err("MD5 audit did not notice a flipped chunk bit".into());
    }
    // bump the decompressed size of chunk 0 → dsize audit must fail
    let mut b = ev.bytes.clone();
    b[12 + 7] ^= 1;
    let c = blte_dec::decode(&b, KEYRING)?;
    let ch = &c.chunks[0];
    if ch.decoded.as_ref().map(|d| d.len() as u32).ok() == ch.rec_dsize {
        return Err("decompressed-size audit did not notice an altered table entry".into());
    }
    // decrypting with the wrong block index must not give the content
    let mut wrong = blte_dec::decode(&ev.bytes, KEYRING)?;
    let e = wrong.chunks.pop().ok_or("no chunk")?;
    let body = &ev.bytes[e.offset + 1..e.offset + e.disk_len];
    let ct = &body[15..];
    let pt = blte_dec::salsa20_xor(&KEY_A, &IV_1, (e.index as u32) ^ 1, ct);
    if pt == blte_dec::salsa20_xor(&KEY_A, &IV_1, e.index as u32, ct) {
        return Err("Salsa20 reference ignores the block index".into());
    }
    Ok(())
}

/// Safety net: bound the address space of this process so that a subject (or harness) bug
/// that allocates without end aborts this process instead of exhausting the machine.
fn limit_own_memory() {
    let lim = libc::rlimit { rlim_cur: 16 << 30, rlim_max: 16 << 30 };
    unsafe {
        libc::setrlimit(libc::RLIMIT_AS, &lim);
    }
}

pub fn run(tier: Tier, seed: u64) -> i32 {
    limit_own_memory();
    let rep = Report::new("C01", tier, seed, Level::Exploration);
    rep.set_rule(
        "every builder program of the stated depth over the stated alphabet (configuration prefix × call sequence; payloads are classes, the seed only picks filler bytes) plus every BlteFile::compress / single_chunk call over the same payload classes; programs are distinct by construction; a program is non-trivial when every encoder call returned Ok and a container was serialized, i.e. oracle clauses 1 and 2 (subject decoder, independent decoder, chunk-table audit) were all evaluated on it",
    );
    rep.assume("independent decoder refimpl::blte_dec (own container/table/E-header parser, own Salsa20, RC4 and LZ4 block decoder, self-checked at start-up on the Salsa20 specification §9 vector, RC4 vectors, a hand-assembled container and negative controls); zlib inflate from flate2 and MD5 from the `md5` crate are trusted");
    rep.assume("ARC4 keying = bare 16-byte key as the repository's format documentation states; other keying conventions are not judged");
    rep.assume("the 'honest' explicit block index of add_encrypted_data is the number of chunks the real builder holds before the call, observed by building the program prefix");
    rep.assume("the matching key store holds both key names of the alphabet; programs that would need two different keys under one key name are outside the alphabet");

    if let Err(e) = blte_dec::self_test() {
        rep.machinery_error(&format!("reference decoder self-test failed: {e}"));
        return rep.finish();
    }
    // The control container is built by the subject. If the (self-tested) independent decoder
    // cannot read it, the subject's encoder is at fault: the control program is part of the
    // explored space, so the exploration reports it as a violation; only if it does not is this a
    // machinery error.
    let mut control_bad: Option<String> = None;
    if let Err(e) = audit_negative_control(seed) {
        if e.starts_with("control ") {
            control_bad = Some(e);
        } else {
            rep.machinery_error(&format!("audit negative control failed: {e}"));
            return rep.finish();
        }
    }

    let levels = tier_levels(tier);
    let mut shards: Vec<Shard> = Vec::new();
    // cheapest first: if the wall-clock cap ever cuts the run, it cuts the deepest level
    for chunk in degenerate_programs(tier).chunks(16) {
        shards.push(Shard::Degenerate(chunk.to_vec()));
    }
    for (li, lv) in levels.iter().enumerate() {
        for &mode in &lv.modes {
            for &cs in &lv.css {
                for &enc in &lv.encs {
                    if lv.depth == 0 {
                        shards.push(Shard::Builder { level: li, mode, cs, enc, first: None });
                    } else {
                        for c in lv.alpha.calls(true) {
                            shards.push(Shard::Builder { level: li, mode, cs, enc, first: Some(c) });
                        }
                    }
                }
            }
        }
    }

    let memo = ShrinkMemo::default();
    let stop = AtomicBool::new(false);
    let cap_s = tier.pick(38.0, 840.0);
    let outs = par_map(shards.len(), |i| {
        if rep.elapsed_s() > cap_s {
            stop.store(true, Ordering::Relaxed);
        }
        run_shard(&shards[i], &levels, seed, &memo, &stop)
    });

    let mut tot = ShardOut::default();
    let mut skipped = 0u64;
    let mut per_level: Vec<(u64, u64)> = vec![(0, 0); levels.len() + 1];
    let nsamp = (outs.len() / 10).max(1);
    for (i, o) in outs.into_iter().enumerate() {
        if o.skipped {
            skipped += 1;
            continue;
        }
        let li = match &shards[i] {
            Shard::Builder { level, .. } => *level,
            Shard::Degenerate(_) => levels.len(),
        };
        per_level[li].0 += o.programs;
        per_level[li].1 += o.containers;
        tot.programs += o.programs;
        tot.containers += o.containers;
        tot.refused += o.refused;
        tot.chunks += o.chunks;
        tot.enc_chunks += o.enc_chunks;
        tot.max_chunks = tot.max_chunks.max(o.max_chunks);
        tot.violating += o.violating;
        for h in &o.outcomes {
            rep.add_outcome(*h);
        }
        for (k, n) in o.outcome_names {
            *tot.outcome_names.entry(k).or_insert(0) += n;
        }
        if i % nsamp == 0 {
            if let Some(s) = o.sample {
                rep.sample(s);
            }
        }
        for (sig, (kind, wit, detail, n)) in o.vios {
            if kind == "unstable" {
                rep.machinery_error(&format!("shrinker returned a non-violating program for {sig}"));
                continue;
            }
            // the first call stores the witness, the others only count occurrences
            rep.violation(&kind, &sig, wit, &detail);
            for _ in 1..n {
                rep.violation(&kind, &sig, Value::Null, "");
            }
        }
    }
    // chunk size 0: each program in its own child process (a call that does not return
    // cannot be observed in-process)
    let iso = isolated_programs();
    let iso_res = crate::util::par_map_threads(iso.len(), 8, |i| run_isolated(&iso[i], seed));
    let mut iso_counts = (0u64, 0u64, 0u64); // returned fine, returned with violation, no return
    for (p, r) in iso.iter().zip(iso_res) {
        match r {
            Isolated::Exit(0) => iso_counts.0 += 1,
            Isolated::Exit(1) => {
                // the program returns, so it is safe to judge it in-process like any other
                iso_counts.1 += 1;
                let mut o = ShardOut::default();
                judge(p, seed, &memo, &mut o);
                for (sig, (kind, wit, detail, _)) in o.vios {
                    rep.violation(&kind, &sig, wit, &detail);
                }
            }
            Isolated::Exit(c) => rep.machinery_error(&format!("isolated child for {} exited with code {c}", p.describe())),
            Isolated::NoReturn(d) => {
                iso_counts.2 += 1;
                rep.add_outcome(fnv64_str("no-return"));
                rep.violation(
                    "no-return",
                    &format!("no-return|{}", p.describe()),
                    json!({"program": p.to_json(), "program_text": p.describe(), "seed": seed, "isolated": true}),
                    &format!("neither Ok nor Err: {d}"),
                );
            }
            Isolated::Machinery(m) => rep.machinery_error(&format!("isolated run of {}: {m}", p.describe())),
        }
    }
    tot.programs += iso.len() as u64;
    rep.extra(
        "isolated_chunk_size_0",
        json!({
            "programs": iso.len(),
            "returned_and_passed": iso_counts.0,
            "returned_with_violation": iso_counts.1,
            "did_not_return": iso_counts.2,
            "address_space_limit_mib": CHILD_MEM_LIMIT >> 20,
            "timeout_s": CHILD_TIMEOUT_S,
            "what": "BlteFile::compress(p, 0, N) and with_chunk_size_unchecked(0) + one of add_data / add_mixed_data(None) / add_encrypted_data, payloads {empty, 1B}, each in a child process",
        }),
    );

    if skipped > 0 {
        rep.cap_hit(&format!("wall-clock cap {cap_s}s: {skipped} of {} shards (configuration × first call) not run", shards.len()));
    }
    rep.add_evaluations(tot.programs);
    rep.add_nontrivial_count(tot.containers);
    let mut lv_json: Vec<Value> = levels
        .iter()
        .enumerate()
        .map(|(i, l)| {
            let mut j = l.to_json();
            j["programs_run"] = json!(per_level[i].0);
            j["containers_judged"] = json!(per_level[i].1);
            j
        })
        .collect();
    lv_json.push(json!({
        "degenerate_programs": "BlteFile::single_chunk(p, mode) and BlteFile::compress(p, cs, mode), all payload classes × modes {N,Z,4,E,F}",
        "chunk_sizes": tier.pick(vec![4, 5], vec![4, 5, 1024]),
        "programs_run": per_level[levels.len()].0,
        "containers_judged": per_level[levels.len()].1,
    }));
    rep.extra("bounds", json!({"levels": lv_json}));
    rep.extra("programs", json!(tot.programs));
    rep.extra("containers_judged", json!(tot.containers));
    rep.extra("programs_refused_with_err", json!(tot.refused));
    rep.extra("programs_violating_incl_known_findings", json!(tot.violating));
    rep.extra("chunks_decoded_and_audited", json!(tot.chunks));
    rep.extra("encrypted_chunks", json!(tot.enc_chunks));
    rep.extra("largest_chunk_count", json!(tot.max_chunks));
    rep.extra("shrinker_evaluations", json!(memo.evals.load(Ordering::Relaxed)));
    rep.extra("outcome_classes", json!(tot.outcome_names));

    // vacuity guard
    if rep.outcomes() < 10 {
        rep.machinery_error(&format!("vacuous enumeration: only {} distinct outcome classes", rep.outcomes()));
    }
    if tot.containers == 0 || tot.refused == 0 || tot.enc_chunks == 0 || tot.max_chunks < 256 {
        rep.machinery_error(&format!(
            "vacuous enumeration: containers={} refused={} encrypted_chunks={} largest_chunk_count={}",
            tot.containers, tot.refused, tot.enc_chunks, tot.max_chunks
        ));
    }
    if let Some(e) = control_bad {
        if rep.violation_count() == 0 {
            rep.machinery_error(&format!("audit negative control failed ({e}) although the exploration found no violation"));
        }
    }
    rep.finish()
}

pub fn replay(w: &Value) -> i32 {
    let wit = &w["witness"];
    let Some(prog) = Prog::from_json(&wit["program"]) else {
        println!("MACHINERY-ERROR: witness has no parsable program");
        return 2;
    };
    let seed = wit["seed"].as_u64().unwrap_or(0);
    crate::util::install_quiet_panic_hook();
    println!("replaying: {}", prog.describe());
    if needs_isolation(&prog) && std::env::var_os(CHILD_ENV).is_none() {
        println!("  (chunk size 0: evaluated in a child process with a memory limit and a time-out)");
        match run_isolated(&prog, seed) {
            Isolated::NoReturn(d) => {
                println!("violates: no-return — neither Ok nor Err: {d}");
                return 1;
            }
            Isolated::Machinery(m) => {
                println!("MACHINERY-ERROR: {m}");
                return 2;
            }
            Isolated::Exit(_) => {} // it returns: evaluate in-process below for the details
        }
    }
    let ev = evaluate(&prog, seed);
    println!("  outcome class: {}", ev.outcome);
    if ev.container {
        println!("  added content : {}", short_hex(&ev.expected));
        println!("  container     : {}", short_hex(&ev.bytes));
        println!("  subject decoder    : {}", ev.subject);
        println!("  independent decoder: {}", ev.reference);
    }
    if ev.vios.is_empty() {
        println!("no violation");
        return 0;
    }
    for v in &ev.vios {
        println!("violates: {} — {}", v.label, v.detail);
    }
    1
}
