//! C20 — no key or endpoint string makes the library touch files outside its directories;
//! distinct well-formed keys never share a file; URLs and cache keys are built without
//! panicking for keys of any length.
//!
//! ENUM engine, in-process with `catch_unwind`. Every string composed of ≤ k tokens from a
//! path-significant alphabet (joined with and without `/`) is handed to every public API that
//! turns a string into a file-system path or URL. Each call runs against
//! `<scratch>/s/l10/…/l1/b/c/root` (the configured directory). Everything else below `<scratch>` —
//! `…/c/outside/sentinel`, decoy files named like the name tokens in the ancestors of `root`,
//! and `…/c/absroot` — is snapshotted after every call (names, kinds, sizes, inode/mtime/ctime of the
//! directory levels the string can reach) and, with content hashes over the whole scratch
//! directory, once more when the case ends. Oracle, exactly the property text:
//!   * the snapshot of `<scratch>` minus `root/` is unchanged after every call,
//!   * no `get`/download/query returns the content of a file outside `root`,
//!   * no call panics,
//!   * for every ordered pair of distinct well-formed typed keys the files created under
//!     `root` are distinct and each `get` returns its own value.
//!
//! Safety of the harness itself: `root` is 13 levels below the scratch directory and a test
//! string holds at most 12 `..` (checked before every case), so relative strings cannot leave
//! the scratch directory.
//! A test string that starts with `/` would be an absolute path on the real file system
//! (`/abs`, `/a`): it is re-rooted at `<scratch>/…/c/absroot` before it is handed to the
//! API (still an absolute path *outside the configured root*, which is all `Path::join`
//! looks at), so nothing outside the scratch directory is ever touched.
//!
//! Network-shaped APIs (`RibbitTactClient::query`, `CdnClient::*`) run for real against a
//! loopback mock (plain HTTP, answers every request with a small BPSV document). Endpoint
//! validation is always decided by the real `query` (a string counts as an endpoint only if
//! `query` does not answer `InvalidEndpoint`). CDN host strings are not varied (the host is
//! only interpolated into the URL, never into a path or cache key, and bare names would
//! trigger DNS).

use crate::report::{Level, Report, Tier};
use crate::util::{Scratch, block_on, catch, fnv64, fnv64_str, norm_msg, par_map, take_last_panic_loc};
use bytes::Bytes;
use cascette_cache::config::DiskCacheConfig;
use cascette_cache::disk_cache::DiskCache;
use cascette_cache::key::{
    ArchiveIndexKey, ArchiveRangeKey, BlteBlockKey, BlteKey, CacheKey, ConfigKey, ContentCacheKey, EncodingFileKey,
    ManifestKey, RibbitKey, RootFileKey,
};
use cascette_cache::traits::AsyncCache;
use cascette_client_storage::{Storage, StorageConfig};
use cascette_crypto::{ContentKey, EncodingKey};
use cascette_protocol::cache::ProtocolCache;
use cascette_protocol::cdn::RangeDownloader;
use cascette_protocol::error::ProtocolError;
use cascette_protocol::{CacheConfig, CdnClient, CdnConfig, CdnEndpoint, ClientConfig, ContentType, RibbitTactClient};
use serde_json::{Value, json};
use std::collections::{BTreeMap, BTreeSet};
use std::path::{Path, PathBuf};
use std::sync::{Arc, OnceLock};

// ---------------------------------------------------------------------------------------
// alphabet
// ---------------------------------------------------------------------------------------

const HEX: &str = "0123456789abcdef0123456789abcdef";
const LONG_LEN: usize = 300;
const SENTINEL: &str = "SENTINEL";
const MOCK_MARK: &str = "MOCKBODY";

fn long_name() -> String {
    "L".repeat(LONG_LEN)
}

fn tokens() -> Vec<String> {
    vec![
        "..".into(),
        "../../..".into(),
        ".".into(),
        "/".into(),
        "a".into(),
        "a.b".into(),
        "a.tmp".into(),
        String::new(),
        "\0".into(),
        "\\".into(),
        ":".into(),
        "~".into(),
        long_name(),
        "/abs".into(),
        HEX.into(),
        // a sibling of the configured directory ("root") whose name starts with its name: a
        // containment test on path *strings* instead of components lets `../root-x` through
        "root-x".into(),
        // a sibling of the configured directory that looks like an installation an earlier run left
        // behind (it has a data/ subdirectory): "it exists already" is no reason to skip a check
        "old-inst".into(),
    ]
}

/// All strings of 1..=k tokens, consecutive tokens joined by "" or "/", simplest first,
/// deduplicated.
fn strings(k: usize) -> Vec<String> {
    let toks = tokens();
    let mut seen: BTreeSet<String> = BTreeSet::new();
    let mut out: Vec<String> = Vec::new();
    let mut level: Vec<String> = Vec::new();
    for t in &toks {
        level.push(t.clone());
    }
    for depth in 1..=k {
        for s in &level {
            if seen.insert(s.clone()) {
                out.push(s.clone());
            }
        }
        if depth == k {
            break;
        }
        let mut next = Vec::with_capacity(level.len() * toks.len() * 2);
        for s in &level {
            for t in &toks {
                next.push(format!("{s}{t}"));
                next.push(format!("{s}/{t}"));
            }
        }
        level = next;
    }
    out
}

/// Printable, stable rendering of a test string (for signatures and messages).
fn show(s: &str) -> String {
    let l = long_name();
    let mut t = s.replace(&l, "<300xL>").replace(HEX, "<hex32>").replace('\0', "\\0");
    if t.len() > 60 {
        t.truncate(60);
        t.push('…');
    }
    t
}

/// Lexical class of a string as a path fragment — the mechanism by which it could leave the
/// directory. Part of the violation signature.
fn class_of(s: &str, embedded: bool) -> &'static str {
    // `embedded`: the API puts the string behind a prefix of its own ("config:", "api/ribbit/",
    // "cdn/<path>/"), so a leading '/' only yields an empty component
    if s.starts_with('/') && !embedded {
        return "absolute";
    }
    let mut depth: i32 = 0;
    let mut climbed = false;
    for c in s.split('/') {
        match c {
            "" | "." => {}
            ".." => {
                depth -= 1;
                if depth < 0 {
                    climbed = true;
                }
            }
            _ => depth += 1,
        }
    }
    if climbed {
        "dotdot"
    } else if s.split('/').any(|c| c == "..") {
        "dotdot-inner"
    } else if s.split('/').all(|c| c.is_empty() || c == ".") {
        "empty-or-dot"
    } else {
        "plain"
    }
}

// ---------------------------------------------------------------------------------------
// sandbox + snapshot
// ---------------------------------------------------------------------------------------

const DECOYS: [&str; 4] = ["a", "a.b", "a.tmp", HEX];
/// `root` lies 13 directories below the scratch directory: a test string holds at most
/// 4 tokens × 3 `..` = 12 climbs (checked by `MAX_CLIMB` before every case).
const DEEP: &str = "s/l10/l9/l8/l7/l6/l5/l4/l3/l2/l1/b/c";
const MAX_CLIMB: usize = 12;

fn climbs(s: &str) -> usize {
    s.split('/').filter(|c| *c == "..").count()
}

fn decoy_body(rel: &str) -> String {
    // parses as a BPSV document, so that a cache-poisoned `query` would hand it back
    format!("##seqn!DEC:4|region!STRING:0\n1|{SENTINEL}-{}\n", rel.replace(['/', '.'], "_"))
}

pub struct Sandbox {
    _scratch: Scratch,
    top: PathBuf,
    pub root: PathBuf,
    absroot: PathBuf,
}

#[derive(Clone, Debug, PartialEq, Eq)]
enum Ent {
    Dir,
    File { size: u64, hash: u64 },
    Other,
}

type Snap = BTreeMap<String, Ent>;

impl Sandbox {
    pub fn new() -> Sandbox {
        let scratch = Scratch::new("c20");
        let top = scratch.path.clone();
        let dir = top.join(DEEP);
        let root = dir.join("root");
        let absroot = dir.join("absroot");
        std::fs::create_dir_all(&root).expect("sandbox root");
        std::fs::create_dir_all(&absroot).expect("sandbox absroot");
        std::fs::create_dir_all(dir.join("outside")).expect("sandbox outside");
        std::fs::write(dir.join("outside/sentinel"), decoy_body("outside/sentinel")).expect("sentinel");
        let parent = dir.parent().expect("parent of c").to_path_buf();
        for (d, tag) in [(dir.clone(), "c"), (parent, "b"), (absroot.clone(), "absroot")] {
            for n in DECOYS {
                std::fs::write(d.join(n), decoy_body(&format!("{tag}/{n}"))).expect("decoy");
            }
        }
        for d in [&dir, &absroot] {
            std::fs::create_dir_all(d.join("old-inst/data")).expect("decoy installation");
        }
        Sandbox { _scratch: scratch, top, root, absroot }
    }

    /// Strings that start with '/' are re-rooted at `absroot` (see module doc).
    pub fn eff(&self, s: &str) -> String {
        if s.starts_with('/') { format!("{}{}", self.absroot.display(), s) } else { s.to_string() }
    }

    /// Full snapshot: everything below the scratch directory except `root/`, contents hashed.
    fn snapshot(&self) -> Snap {
        let mut m = Snap::new();
        walk(&self.top, &self.top, &self.root, false, true, &mut m);
        m
    }

    /// Per-call snapshot: metadata only (inode, size, mtime, ctime instead of a content hash),
    /// limited to the `levels` nearest ancestors of `root` (level 1 = the sandbox directory `c`
    /// with everything below it, level 2 = `b`, …). A string with n `..` cannot name anything
    /// above level n; the caller passes n + 2. The full, content-hashed snapshot is compared
    /// once more when the case ends, so nothing rests on this shortcut alone.
    fn snapshot_meta(&self, levels: usize) -> Snap {
        let mut m = Snap::new();
        let comps: Vec<&str> = DEEP.split('/').collect();
        for level in 1..=levels.min(comps.len()) {
            let dir = self.top.join(comps[..comps.len() + 1 - level].join("/"));
            walk(&self.top, &dir, &self.root, true, level == 1, &mut m);
        }
        m
    }

    /// Files and directories below root (relative names).
    fn root_listing(&self) -> BTreeSet<String> {
        let mut m = Snap::new();
        walk(&self.root, &self.root, Path::new("/nonexistent-skip"), true, true, &mut m);
        m.into_iter().filter(|(_, e)| matches!(e, Ent::File { .. })).map(|(k, _)| k).collect()
    }

    fn wipe_root(&self) {
        let _ = std::fs::remove_dir_all(&self.root);
        std::fs::create_dir_all(&self.root).expect("recreate root");
    }
}

fn walk(base: &Path, dir: &Path, skip: &Path, meta_only: bool, recurse: bool, out: &mut Snap) {
    use std::os::unix::fs::MetadataExt;
    let Ok(rd) = std::fs::read_dir(dir) else { return };
    for e in rd.flatten() {
        let p = e.path();
        if p == skip {
            continue;
        }
        let rel = p.strip_prefix(base).unwrap_or(&p).to_string_lossy().into_owned();
        let Ok(ft) = e.file_type() else { continue };
        if ft.is_dir() {
            out.insert(rel, Ent::Dir);
            if recurse {
                walk(base, &p, skip, meta_only, recurse, out);
            }
        } else if ft.is_file() {
            if meta_only {
                let (size, id) = match e.metadata() {
                    Ok(m) => (m.len(), fnv64_str(&format!("{}|{}|{}|{}|{}", m.ino(), m.mtime(), m.mtime_nsec(), m.ctime(), m.ctime_nsec()))),
                    Err(_) => (u64::MAX, 0),
                };
                out.insert(rel, Ent::File { size, hash: id });
            } else {
                let data = std::fs::read(&p).unwrap_or_default();
                out.insert(rel, Ent::File { size: data.len() as u64, hash: fnv64(&data) });
            }
        } else {
            out.insert(rel, Ent::Other);
        }
    }
}

/// Level (see `snapshot_meta`) of a snapshot key.
fn level_of(key: &str) -> usize {
    if key.starts_with(DEEP) && key.as_bytes().get(DEEP.len()) == Some(&b'/') {
        1
    } else {
        (DEEP.split('/').count() + 1).saturating_sub(key.matches('/').count())
    }
}

fn diff(a: &Snap, b: &Snap) -> Vec<String> {
    let mut d = Vec::new();
    for (k, v) in a {
        match b.get(k) {
            None => d.push(format!("deleted {k}")),
            Some(w) if w != v => d.push(format!("modified {k}")),
            _ => {}
        }
    }
    for k in b.keys() {
        if !a.contains_key(k) {
            d.push(format!("created {k}"));
        }
    }
    d
}

/// Replace sandbox-specific prefixes so that details are stable.
fn stable_rel(s: &str) -> String {
    // "s/a/b/c/outside/x" -> "<sandbox>/outside/x" etc. The snapshot keys are already relative
    // to the scratch directory.
    let mut t = s.replace(&format!("{DEEP}/"), "<sandbox>/");
    // ancestors of the sandbox directory: "<sandbox>/..", "<sandbox>/../.." …
    let comps: Vec<&str> = DEEP.split('/').collect();
    for up in 1..comps.len() {
        let prefix = format!("{}/", comps[..comps.len() - up].join("/"));
        if t.contains(&prefix) {
            t = t.replace(&prefix, &format!("<sandbox>/{}", "../".repeat(up)));
            break;
        }
    }
    t.replace(&long_name(), "<300xL>").replace(HEX, "<hex32>")
}

// ---------------------------------------------------------------------------------------
// case bookkeeping
// ---------------------------------------------------------------------------------------

#[derive(Clone, Debug)]
pub struct Vio {
    pub kind: &'static str,
    pub sig: String,
    pub detail: String,
    pub witness: Value,
}

#[derive(Default)]
pub struct CaseOut {
    pub vios: Vec<Vio>,
    pub outcomes: Vec<u64>,
    pub calls: u64,
    pub nontrivial: Vec<u64>,
    pub accepted_endpoint: bool,
    pub log: Vec<String>,
    pub keep_log: bool,
    pub skipped_unsafe: u64,
}

pub struct OpRes {
    pub class: String,
    pub read: Option<Vec<u8>>,
}

impl OpRes {
    fn new(class: impl Into<String>) -> OpRes {
        OpRes { class: class.into(), read: None }
    }
    fn with_read(class: impl Into<String>, data: Vec<u8>) -> OpRes {
        OpRes { class: class.into(), read: Some(data) }
    }
}

fn norm_panic_loc(loc: &str) -> String {
    let l = match loc.rfind(':') {
        Some(i) => &loc[..i],
        None => loc,
    };
    if let Some(i) = l.find("crates/") {
        l[i..].to_string()
    } else if let Some(i) = l.find("library/") {
        l[i..].to_string()
    } else {
        l.rsplit('/').next().unwrap_or(l).to_string()
    }
}

fn norm_panic_msg(m: &str) -> String {
    // cut at the first quote/backtick: what follows is the offending string itself
    let cut = m.find(['`', '"']).unwrap_or(m.len());
    norm_msg(&m[..cut]).trim().to_string()
}

/// One evaluation context: a sandbox, its current outside-snapshot, and where results go.
pub struct Ctx<'a> {
    sbx: Option<Sandbox>,
    /// full, content-hashed snapshot of the pristine outside
    base: Snap,
    /// metadata snapshot (all levels), kept current after every call
    meta: Snap,
    levels: usize,
    surface: String,
    /// the test string as generated (before re-rooting)
    s: String,
    class: String,
    witness: Value,
    out: &'a mut CaseOut,
    touched_outside: bool,
}

thread_local! {
    /// A sandbox whose outside is known to be pristine (with its snapshot), reused by the next
    /// case on this thread after `root` has been wiped.
    static POOL: std::cell::RefCell<Option<(Sandbox, Snap, Snap)>> = const { std::cell::RefCell::new(None) };
}

fn take_sandbox() -> (Sandbox, Snap, Snap) {
    if let Some(x) = POOL.with(|p| p.borrow_mut().take()) {
        return x;
    }
    let sb = Sandbox::new();
    let base = sb.snapshot();
    let meta = sb.snapshot_meta(usize::MAX);
    (sb, base, meta)
}

fn give_back(sb: Sandbox, base: Snap, meta: Snap) {
    sb.wipe_root();
    POOL.with(|p| *p.borrow_mut() = Some((sb, base, meta)));
}

impl Drop for Ctx<'_> {
    fn drop(&mut self) {
        // the full, content-hashed comparison — once per case
        if !self.touched_outside {
            let full = self.sb().snapshot();
            let d = diff(&self.base, &full);
            if !d.is_empty() {
                self.touched_outside = true;
                self.out.vios.push(Vio {
                    kind: "outside-touched",
                    sig: format!("{}:(whole sequence):outside-touched:{}", self.surface, self.class),
                    detail: format!(
                        "{} call sequence with string {:?} changed files outside the configured directory (seen only by the final content-hash snapshot): {}",
                        self.surface,
                        show(&self.s),
                        d.iter().take(4).map(|x| stable_rel(x)).collect::<Vec<_>>().join(", ")
                    ),
                    witness: self.witness.clone(),
                });
            }
        }
        if !self.touched_outside {
            // hand the untouched sandbox to the next case
            if let Some(sb) = self.sbx.take() {
                give_back(sb, std::mem::take(&mut self.base), std::mem::take(&mut self.meta));
            }
        }
    }
}

impl<'a> Ctx<'a> {
    fn new(surface: &str, s: &str, class: &str, witness: Value, out: &'a mut CaseOut) -> Ctx<'a> {
        let (sb, base, meta) = take_sandbox();
        let levels = (climbs(s) + 2).min(DEEP.split('/').count());
        Ctx { sbx: Some(sb), base, meta, levels, surface: surface.to_string(), s: s.to_string(), class: class.to_string(), witness, out, touched_outside: false }
    }

    pub fn sb(&self) -> &Sandbox {
        self.sbx.as_ref().expect("sandbox present until drop")
    }

    /// Run one call of the code under test and apply the oracle to it.
    fn step(&mut self, op: &str, f: impl FnOnce() -> OpRes) -> Option<OpRes> {
        self.out.calls += 1;
        let _ = take_last_panic_loc();
        let r = catch(f);
        let after = self.sb().snapshot_meta(self.levels);
        let levels = self.levels;
        let before: Snap = self.meta.iter().filter(|(k, _)| level_of(k) <= levels).map(|(k, v)| (k.clone(), v.clone())).collect();
        let d = diff(&before, &after);
        let mut res_class;
        let ret = match r {
            Ok(o) => {
                res_class = o.class.clone();
                if let Some(data) = &o.read {
                    if find_sub(data, SENTINEL.as_bytes()) {
                        res_class.push_str("+SENTINEL");
                        self.out.vios.push(Vio {
                            kind: "read-outside",
                            sig: format!("{}:{op}:read-outside:{}", self.surface, self.class),
                            detail: format!(
                                "{} {op} with string {:?} returned the content of a file outside the configured directory: {:?}",
                                self.surface,
                                show(&self.s),
                                String::from_utf8_lossy(&data[..data.len().min(80)])
                            ),
                            witness: self.witness.clone(),
                        });
                    }
                }
                Some(o)
            }
            Err(msg) => {
                res_class = "panic".to_string();
                let loc = take_last_panic_loc().map(|l| norm_panic_loc(&l)).unwrap_or_else(|| "?".into());
                self.out.vios.push(Vio {
                    kind: "panic",
                    sig: format!("{}:{op}:panic:{loc}:{}", self.surface, norm_panic_msg(&msg)),
                    detail: format!("{} {op} with string {:?} panicked at {loc}: {}", self.surface, show(&self.s), show(&msg)),
                    witness: self.witness.clone(),
                });
                None
            }
        };
        if !d.is_empty() {
            self.touched_outside = true;
            let extra = if self.class == "plain" || self.class == "dotdot-inner" { format!(":{}", show(&self.s)) } else { String::new() };
            self.out.vios.push(Vio {
                kind: "outside-touched",
                sig: format!("{}:{op}:outside-touched:{}{extra}", self.surface, self.class),
                detail: format!(
                    "{} {op} with string {:?} (result {res_class}) changed files outside the configured directory: {}",
                    self.surface,
                    show(&self.s),
                    d.iter().take(4).map(|x| stable_rel(x)).collect::<Vec<_>>().join(", ")
                ),
                witness: self.witness.clone(),
            });
            res_class.push_str("+OUTSIDE");
        }
        if !d.is_empty() {
            self.meta.retain(|k, _| level_of(k) > levels);
            self.meta.extend(after);
        }
        self.out.outcomes.push(fnv64_str(&format!("{}|{op}|{res_class}", self.surface)));
        if self.out.keep_log {
            self.out.log.push(format!(
                "{} {op}({:?}) -> {res_class}{}",
                self.surface,
                show(&self.s),
                if d.is_empty() { String::new() } else { format!("  outside: {}", d.iter().map(|x| stable_rel(x)).collect::<Vec<_>>().join(", ")) }
            ));
        }
        ret
    }

    fn mark_nontrivial_if_root_used(&mut self) {
        if self.touched_outside || !self.sb().root_listing().is_empty() {
            self.out.nontrivial.push(fnv64_str(&format!("{}|{}", self.surface, self.s)));
        }
    }
}

fn find_sub(hay: &[u8], needle: &[u8]) -> bool {
    hay.windows(needle.len()).any(|w| w == needle)
}

fn err_class(e: &dyn std::fmt::Display) -> String {
    let m = e.to_string();
    let low = m.to_lowercase();
    let c = if low.contains("name too long") {
        "name-too-long"
    } else if low.contains("is a directory") {
        "is-a-directory"
    } else if low.contains("not a directory") {
        "not-a-directory"
    } else if low.contains("nul byte") || low.contains("nul ") || low.contains("invalid argument") || low.contains("invalid input") {
        "invalid-name"
    } else if low.contains("no such file") {
        "no-such-file"
    } else if low.contains("busy") {
        "busy"
    } else if low.contains("exists") {
        "exists"
    } else if low.contains("not empty") {
        "not-empty"
    } else {
        "other"
    };
    format!("err:{c}")
}

// ---------------------------------------------------------------------------------------
// DiskCache
// ---------------------------------------------------------------------------------------

#[derive(Debug, Clone, PartialEq, Eq, Hash)]
pub struct RawKey(pub String);

impl CacheKey for RawKey {
    fn as_cache_key(&self) -> &str {
        &self.0
    }
}

fn disk_cfg(root: &Path, hashed: bool) -> DiskCacheConfig {
    let c = DiskCacheConfig::new(root);
    if hashed { c.with_subdirectories(true, 2) } else { c.with_subdirectories(false, 0) }
}

const VALUE: &[u8] = b"VALUE-c20";

fn get_res(r: Result<Option<Bytes>, cascette_cache::CacheError>) -> OpRes {
    match r {
        Ok(Some(b)) => OpRes::with_read("some", b.to_vec()),
        Ok(None) => OpRes::new("none"),
        Err(e) => OpRes::new(err_class(&e)),
    }
}

/// The put/get/contains/remove sequence on a fresh DiskCache over `root`, plus a second
/// instance over the same directory (its `get` takes the "not in index, look on disk" path).
fn disk_seq<K: CacheKey + 'static>(cx: &mut Ctx<'_>, hashed: bool, short: bool, mk: &dyn Fn() -> K) {
    let root = cx.sb().root.clone();
    let c1 = match DiskCache::<K>::new(disk_cfg(&root, hashed)) {
        Ok(c) => c,
        Err(_) => return,
    };
    if !short {
        cx.step("get-fresh", || get_res(block_on(c1.get(&mk()))));
    }
    cx.step("put", || match block_on(c1.put(mk(), Bytes::from_static(VALUE))) {
        Ok(()) => OpRes::new("ok"),
        Err(e) => OpRes::new(err_class(&e)),
    });
    cx.mark_nontrivial_if_root_used();
    if !short {
        cx.step("get", || get_res(block_on(c1.get(&mk()))));
        cx.step("contains", || match block_on(c1.contains(&mk())) {
            Ok(b) => OpRes::new(format!("{b}")),
            Err(e) => OpRes::new(err_class(&e)),
        });
    }
    if let Ok(c2) = DiskCache::<K>::new(disk_cfg(&root, hashed)) {
        cx.step("get-reopened", || get_res(block_on(c2.get(&mk()))));
    }
    cx.step("remove", || match block_on(c1.remove(&mk())) {
        Ok(b) => OpRes::new(format!("{b}")),
        Err(e) => OpRes::new(err_class(&e)),
    });
    if !short {
        cx.step("get-after-remove", || get_res(block_on(c1.get(&mk()))));
    }
}

thread_local! {
    // Runtime for the disk cache built with its background tasks: tokio's clock is paused, so the
    // cleanup task runs exactly when a step advances the clock past its interval.
    static PAUSED_RT: tokio::runtime::Runtime = tokio::runtime::Builder::new_current_thread().enable_all().start_paused(true).build().expect("tokio runtime (paused clock)");
}

/// The instance built with `new_with_background_tasks` (what the multi-layer cache uses): the
/// cleanup task removes expired entries and, above `max_files`, evicts — both by deleting files.
/// Sequence: an entry that is expired at once, a cleanup pass, two live entries over
/// `max_files = 1`, another cleanup pass, a look from a second instance.
fn disk_background_seq<K: CacheKey + 'static>(cx: &mut Ctx<'_>, mk: &dyn Fn() -> K, other: &dyn Fn() -> K) {
    use std::time::Duration;
    let root = cx.sb().root.clone();
    let interval = Duration::from_secs(300);
    let mut cfg = disk_cfg(&root, false).with_max_files(1);
    cfg.cleanup_interval = interval;
    cfg.sync_interval = Duration::from_secs(10 * 365 * 24 * 3600);
    let on_rt = |f: &mut dyn FnMut() -> OpRes| -> OpRes { PAUSED_RT.with(|rt| rt.block_on(async { f() })) };
    let Ok(c1) = PAUSED_RT.with(|rt| rt.block_on(async { DiskCache::<K>::new_with_background_tasks(cfg.clone()) })) else { return };
    let tick = || {
        PAUSED_RT.with(|rt| {
            rt.block_on(async {
                tokio::time::advance(interval + Duration::from_secs(1)).await;
                for _ in 0..3 {
                    tokio::task::yield_now().await;
                }
            });
        });
        OpRes::new("tick")
    };
    let _ = on_rt;
    let put = |c: &DiskCache<K>, k: K, ttl: Option<Duration>| -> OpRes {
        let r = PAUSED_RT.with(|rt| {
            rt.block_on(async {
                match ttl {
                    Some(t) => c.put_with_ttl(k, Bytes::from_static(VALUE), t).await,
                    None => c.put(k, Bytes::from_static(VALUE)).await,
                }
            })
        });
        match r {
            Ok(()) => OpRes::new("ok"),
            Err(e) => OpRes::new(err_class(&e)),
        }
    };
    cx.step("put_with_ttl(0)", || put(&c1, mk(), Some(Duration::ZERO)));
    cx.mark_nontrivial_if_root_used();
    cx.step("cleanup-pass", tick);
    cx.step("put", || put(&c1, mk(), None));
    cx.mark_nontrivial_if_root_used();
    cx.step("put-other", || put(&c1, other(), None));
    cx.step("cleanup-pass-2", tick);
    cx.step("get", || get_res(PAUSED_RT.with(|rt| rt.block_on(c1.get(&mk())))));
    if let Ok(c2) = DiskCache::<K>::new(disk_cfg(&root, false)) {
        cx.step("get-reopened", || get_res(block_on(c2.get(&mk()))));
    }
}

fn ck(n: u8) -> ContentKey {
    let mut b = [0x11u8; 16];
    b[15] = n;
    ContentKey::from_bytes(b)
}
fn ek(n: u8) -> EncodingKey {
    let mut b = [0x22u8; 16];
    b[15] = n;
    EncodingKey::from_bytes(b)
}

/// Typed keys with one string field taken from the enumeration, the others well-formed.
const TYPED_FIELDS: [&str; 10] = [
    "RibbitKey.endpoint",
    "RibbitKey.region",
    "RibbitKey.product",
    "ConfigKey.config_type",
    "ConfigKey.hash",
    "ArchiveIndexKey.archive_name",
    "ArchiveIndexKey.index_hash",
    "ManifestKey.manifest_type",
    "ManifestKey.version",
    "ArchiveRangeKey.archive_id",
];

fn typed_seq(cx: &mut Ctx<'_>, field: &str, hashed: bool, short: bool, s: &str) {
    let s = s.to_string();
    match field {
        "RibbitKey.endpoint" => disk_seq(cx, hashed, short, &|| RibbitKey::with_product(s.clone(), "us", "wow")),
        "RibbitKey.region" => disk_seq(cx, hashed, short, &|| RibbitKey::new("versions", s.clone())),
        "RibbitKey.product" => disk_seq(cx, hashed, short, &|| RibbitKey::with_product("versions", "us", s.clone())),
        "ConfigKey.config_type" => disk_seq(cx, hashed, short, &|| ConfigKey::new(s.clone(), HEX)),
        "ConfigKey.hash" => disk_seq(cx, hashed, short, &|| ConfigKey::new("buildconfig", s.clone())),
        "ArchiveIndexKey.archive_name" => disk_seq(cx, hashed, short, &|| ArchiveIndexKey::new(s.clone(), HEX)),
        "ArchiveIndexKey.index_hash" => disk_seq(cx, hashed, short, &|| ArchiveIndexKey::new("data.000", s.clone())),
        "ManifestKey.manifest_type" => disk_seq(cx, hashed, short, &|| ManifestKey::new(s.clone(), ck(1))),
        "ManifestKey.version" => disk_seq(cx, hashed, short, &|| ManifestKey::with_version("root", ck(1), s.clone())),
        "ArchiveRangeKey.archive_id" => disk_seq(cx, hashed, short, &|| ArchiveRangeKey::new(s.clone(), 0, 16)),
        _ => {}
    }
}

// ---------------------------------------------------------------------------------------
// network mock + shared runtime
// ---------------------------------------------------------------------------------------

struct Net {
    rt: tokio::runtime::Runtime,
    port: u16,
}

static NET: OnceLock<Net> = OnceLock::new();

fn mock_body() -> String {
    mock_body_for("")
}

/// The document served for a request target: the region field names the target, so that two
/// different requests are never answered alike.
fn mock_body_for(target: &str) -> String {
    format!("##seqn!DEC:4|region!STRING:0|buildconfig!HEX:16\n1|{MOCK_MARK}{:016x}|abcd1234abcd1234abcd1234abcd1234\n", fnv64_str(target))
}

fn net() -> &'static Net {
    NET.get_or_init(|| {
        let rt = tokio::runtime::Builder::new_multi_thread().worker_threads(6).enable_all().build().expect("net runtime");
        let listener = rt.block_on(async { tokio::net::TcpListener::bind(("127.0.0.1", 0)).await.expect("bind loopback mock") });
        let port = listener.local_addr().expect("mock addr").port();
        rt.spawn(async move {
            loop {
                let Ok((sock, _)) = listener.accept().await else { continue };
                tokio::spawn(serve_conn(sock));
            }
        });
        Net { rt, port }
    })
}

async fn serve_conn(mut sock: tokio::net::TcpStream) {
    use tokio::io::{AsyncReadExt, AsyncWriteExt};
    let mut buf: Vec<u8> = Vec::new();
    let mut tmp = [0u8; 4096];
    loop {
        // read one request head
        let head_end = loop {
            if let Some(p) = buf.windows(4).position(|w| w == b"\r\n\r\n") {
                break p + 4;
            }
            match sock.read(&mut tmp).await {
                Ok(0) | Err(_) => return,
                Ok(n) => buf.extend_from_slice(&tmp[..n]),
            }
            // not HTTP (e.g. a TLS ClientHello from an https:// URL): drop the connection
            if buf.len() >= 5 && !(buf.starts_with(b"GET ") || buf.starts_with(b"HEAD ")) {
                return;
            }
            if buf.len() > 1 << 20 {
                return;
            }
        };
        let head: Vec<u8> = buf.drain(..head_end).collect();
        let is_head = head.starts_with(b"HEAD ");
        if !(head.starts_with(b"GET ") || is_head) {
            // not HTTP (e.g. a TLS ClientHello): drop the connection
            return;
        }
        let target = String::from_utf8_lossy(&head).split_whitespace().nth(1).unwrap_or("").to_string();
        let body = mock_body_for(&target);
        let mut resp = format!("HTTP/1.1 200 OK\r\nContent-Type: text/plain\r\nContent-Length: {}\r\n\r\n", body.len()).into_bytes();
        if !is_head {
            resp.extend_from_slice(body.as_bytes());
        }
        if sock.write_all(&resp).await.is_err() {
            return;
        }
    }
}

fn proto_err_class(e: &ProtocolError) -> String {
    match e {
        ProtocolError::InvalidEndpoint(_) => "rejected".into(),
        ProtocolError::Cache(c) => err_class(c),
        ProtocolError::Http(_) => "err:http".into(),
        ProtocolError::Parse(_) => "err:parse".into(),
        ProtocolError::Network(_) => "err:network".into(),
        ProtocolError::RangeNotSupported => "err:range".into(),
        other => format!("err:{}", norm_msg(&other.to_string()).chars().take(24).collect::<String>()),
    }
}

fn cache_cfg(root: &Path) -> CacheConfig {
    CacheConfig { cache_dir: Some(root.to_path_buf()), ..CacheConfig::default() }
}

fn client_cfg(root: Option<&Path>) -> ClientConfig {
    let port = net().port;
    ClientConfig {
        tact_https_url: format!("http://127.0.0.1:{port}"),
        tact_http_url: String::new(),
        ribbit_url: "tcp://127.0.0.1:1".to_string(),
        cache_config: match root {
            Some(r) => cache_cfg(r),
            None => CacheConfig::default(),
        },
        ..ClientConfig::default()
    }
}

thread_local! {
    /// Memory-cached client used only to ask the real `validate_endpoint` (through `query`)
    /// whether a string is an endpoint at all.
    static PROBE: RibbitTactClient = RibbitTactClient::new(client_cfg(None)).expect("probe client");
}

/// Does the real `query` accept `s` as an endpoint (anything but `InvalidEndpoint`)?
fn endpoint_accepted(s: &str) -> Result<bool, String> {
    catch(|| {
        PROBE.with(|c| match net().rt.block_on(c.query(s)) {
            Err(ProtocolError::InvalidEndpoint(_)) => false,
            _ => true,
        })
    })
}

const KEY16: [u8; 16] = [0xab, 0xcd, 0xef, 0x12, 0x34, 0x56, 0x78, 0x90, 0xab, 0xcd, 0xef, 0x12, 0x34, 0x56, 0x78, 0x90];

fn endpoint_for(path: &str) -> CdnEndpoint {
    CdnEndpoint {
        host: format!("127.0.0.1:{}", net().port),
        path: path.to_string(),
        product_path: None,
        scheme: Some("http".to_string()),
        is_fallback: false,
        strict: false,
        max_hosts: None,
    }
}

fn dl_res(r: Result<Vec<u8>, ProtocolError>) -> OpRes {
    match r {
        Ok(d) => OpRes::with_read("ok", d),
        Err(e) => OpRes::new(proto_err_class(&e)),
    }
}

// ---------------------------------------------------------------------------------------
// surfaces taking a test string
// ---------------------------------------------------------------------------------------

pub const STRING_SURFACES: [&str; 10] = [
    "DiskCache(flat)",
    "DiskCache(hashed)",
    "DiskCache(background)",
    "DiskCache-typed",
    "ProtocolCache",
    "RibbitTactClient::query",
    "CdnClient(path)",
    "CdnClient(archive_key)",
    "RangeDownloader(archive_name)",
    "Storage::open_installation",
];

fn witness(surface: &str, s: &str, extra: Value) -> Value {
    json!({"surface": surface, "string": s, "string_shown": show(s), "extra": extra,
           "note": "strings starting with '/' are re-rooted at <sandbox>/absroot before use"})
}

/// Run every call sequence of one surface for one string. `typed_depth_ok` limits the typed
/// fields surface (see bounds).
pub fn run_string_surface(surface: &str, s: &str, typed_short: bool, out: &mut CaseOut) {
    let embedded = !matches!(surface, "DiskCache(flat)" | "DiskCache(hashed)" | "DiskCache(background)" | "ProtocolCache" | "Storage::open_installation");
    let class = class_of(s, embedded);
    if climbs(s) > MAX_CLIMB {
        // cannot happen with ≤ 4 tokens; never run a string that could leave the scratch dir
        out.skipped_unsafe += 1;
        return;
    }
    match surface {
        "DiskCache(flat)" | "DiskCache(hashed)" => {
            let hashed = surface == "DiskCache(hashed)";
            let mut cx = Ctx::new(surface, s, class, witness(surface, s, Value::Null), out);
            let k = cx.sb().eff(s);
            disk_seq(&mut cx, hashed, false, &|| RawKey(k.clone()));
        }
        "DiskCache(background)" => {
            let mut cx = Ctx::new(surface, s, class, witness(surface, s, Value::Null), out);
            let k = cx.sb().eff(s);
            disk_background_seq(&mut cx, &|| RawKey(k.clone()), &|| RawKey("zz-other".to_string()));
        }
        "DiskCache-typed" => {
            for field in TYPED_FIELDS {
                for hashed in [false, true] {
                    if typed_short && hashed {
                        continue;
                    }
                    let name = format!("DiskCache<{field}>({})", if hashed { "hashed" } else { "flat" });
                    let mut cx = Ctx::new(&name, s, class, witness(surface, s, json!({"field": field, "hashed": hashed, "typed_short": typed_short})), out);
                    typed_seq(&mut cx, field, hashed, typed_short, s);
                }
            }
        }
        "ProtocolCache" => {
            let mut cx = Ctx::new(surface, s, class, witness(surface, s, Value::Null), out);
            let k = cx.sb().eff(s);
            let root = cx.sb().root.clone();
            let Ok(c1) = ProtocolCache::new(&cache_cfg(&root)) else { return };
            let pc_get = |c: &ProtocolCache, k: &str| match c.get(k) {
                Ok(Some(d)) => OpRes::with_read("some", d),
                Ok(None) => OpRes::new("none"),
                Err(e) => OpRes::new(proto_err_class(&e)),
            };
            cx.step("get-fresh", || pc_get(&c1, &k));
            cx.step("store_bytes", || match c1.store_bytes(&k, VALUE) {
                Ok(()) => OpRes::new("ok"),
                Err(e) => OpRes::new(proto_err_class(&e)),
            });
            cx.step("get", || pc_get(&c1, &k));
            if let Ok(c2) = ProtocolCache::new(&cache_cfg(&root)) {
                cx.step("get_bytes-reopened", || match c2.get_bytes(&k) {
                    Ok(Some(d)) => OpRes::with_read("some", d),
                    Ok(None) => OpRes::new("none"),
                    Err(e) => OpRes::new(proto_err_class(&e)),
                });
            }
            cx.mark_nontrivial_if_root_used();
        }
        "RibbitTactClient::query" => {
            // only strings the real validate_endpoint accepts count as endpoints
            match endpoint_accepted(s) {
                Ok(false) => {
                    out.outcomes.push(fnv64_str("query|rejected"));
                    out.calls += 1;
                    return;
                }
                Ok(true) => {}
                Err(msg) => {
                    out.vios.push(Vio {
                        kind: "panic",
                        sig: format!("{surface}:probe:panic:{}", norm_panic_msg(&msg)),
                        detail: format!("query({:?}) panicked: {}", show(s), show(&msg)),
                        witness: witness(surface, s, Value::Null),
                    });
                    return;
                }
            }
            out.accepted_endpoint = true;
            let mut cx = Ctx::new(surface, s, class, witness(surface, s, Value::Null), out);
            // a cache directory that has been used before: the prefix directories exist
            let _ = std::fs::create_dir_all(cx.sb().root.join("api/ribbit"));
            let root = cx.sb().root.clone();
            let q = |c: &RibbitTactClient| match net().rt.block_on(c.query(s)) {
                Ok(doc) => OpRes::with_read("ok", format!("{doc:?}").into_bytes()),
                Err(e) => OpRes::new(proto_err_class(&e)),
            };
            if let Ok(c1) = RibbitTactClient::new(client_cfg(Some(&root))) {
                cx.step("query", || q(&c1));
                cx.step("query-cached", || q(&c1));
            }
            if let Ok(c2) = RibbitTactClient::new(client_cfg(Some(&root))) {
                cx.step("query-reopened", || q(&c2));
            }
            cx.mark_nontrivial_if_root_used();
        }
        "CdnClient(path)" => {
            let mut cx = Ctx::new(surface, s, class, witness(surface, s, Value::Null), out);
            let _ = std::fs::create_dir_all(cx.sb().root.join("cdn"));
            let root = cx.sb().root.clone();
            let Ok(cache) = ProtocolCache::new(&cache_cfg(&root)) else { return };
            let Ok(client) = CdnClient::new(Arc::new(cache), CdnConfig::default()) else { return };
            let ep = endpoint_for(s);
            cx.step("download", || dl_res(net().rt.block_on(client.download(&ep, ContentType::Data, &KEY16))));
            cx.step("download_archive_index", || dl_res(net().rt.block_on(client.download_archive_index(&ep, HEX))));
            if let Ok(cache2) = ProtocolCache::new(&cache_cfg(&root)) {
                if let Ok(client2) = CdnClient::new(Arc::new(cache2), CdnConfig::default()) {
                    cx.step("download-reopened", || dl_res(net().rt.block_on(client2.download(&ep, ContentType::Data, &KEY16))));
                }
            }
            cx.mark_nontrivial_if_root_used();
        }
        "CdnClient(archive_key)" => {
            let mut cx = Ctx::new(surface, s, class, witness(surface, s, Value::Null), out);
            let _ = std::fs::create_dir_all(cx.sb().root.join("cdn/tpr/wow/data"));
            let root = cx.sb().root.clone();
            let Ok(cache) = ProtocolCache::new(&cache_cfg(&root)) else { return };
            let Ok(client) = CdnClient::new(Arc::new(cache), CdnConfig::default()) else { return };
            let ep = endpoint_for("tpr/wow");
            cx.step("download_archive_index", || dl_res(net().rt.block_on(client.download_archive_index(&ep, s))));
            cx.step("download_archive_index-cached", || dl_res(net().rt.block_on(client.download_archive_index(&ep, s))));
            cx.step("get_index_size", || match net().rt.block_on(client.get_index_size(&ep, s)) {
                Ok(v) => OpRes::new(format!("ok:{}", v.is_some())),
                Err(e) => OpRes::new(proto_err_class(&e)),
            });
            cx.mark_nontrivial_if_root_used();
        }
        "RangeDownloader(archive_name)" => {
            let mut cx = Ctx::new(surface, s, class, witness(surface, s, Value::Null), out);
            // make sure a rustls provider is installed (CdnClient::new does that)
            let _ = ProtocolCache::new(&CacheConfig::default()).and_then(|c| CdnClient::new(Arc::new(c), CdnConfig::default()));
            let Ok(rd) = RangeDownloader::with_config(1, 1 << 20, std::time::Duration::from_secs(5)) else { return };
            let ep = endpoint_for("tpr/wow");
            cx.step("download_archive_content", || match net().rt.block_on(rd.download_archive_content(&ep, s, 0, 16)) {
                Ok(d) => OpRes::with_read("ok", d),
                Err(_) => OpRes::new("err"),
            });
        }
        "Storage::open_installation" => {
            let mut cx = Ctx::new(surface, s, class, witness(surface, s, Value::Null), out);
            let name = cx.sb().eff(s);
            let root = cx.sb().root.clone();
            let Ok(storage) = Storage::new(StorageConfig { base_path: root, ..StorageConfig::default() }) else { return };
            cx.step("open_installation", || match storage.open_installation(&name) {
                Ok(_) => OpRes::new("ok"),
                Err(e) => OpRes::new(err_class(&e)),
            });
            cx.mark_nontrivial_if_root_used();
        }
        _ => {}
    }
}

// ---------------------------------------------------------------------------------------
// CDN content keys of every length, range arithmetic
// ---------------------------------------------------------------------------------------

fn key_of_len(n: usize) -> Vec<u8> {
    (0..n).map(|i| 0xa0u8.wrapping_add(i as u8)).collect()
}

fn cdn_keylen_case(len: usize, out: &mut CaseOut) {
    let surface = "CdnClient(key-length)";
    let key = key_of_len(len);
    for (ct, ctn) in [(ContentType::Config, "config"), (ContentType::Data, "data"), (ContentType::Patch, "patch")] {
        let w = json!({"surface": surface, "key_len": len, "content_type": ctn});
        let label = format!("len={}", if len < 2 { format!("{len}") } else { "≥2".to_string() });
        let mut cx = Ctx::new(surface, &format!("<{len}-byte key>"), &label, w, out);
        let root = cx.sb().root.clone();
        let Ok(cache) = ProtocolCache::new(&cache_cfg(&root)) else { return };
        let Ok(client) = CdnClient::new(Arc::new(cache), CdnConfig::default()) else { return };
        let ep = endpoint_for("tpr/wow");
        cx.step("download", || dl_res(net().rt.block_on(client.download(&ep, ct, &key))));
        cx.step("download_with_resume(None)", || dl_res(net().rt.block_on(client.download_with_resume(&ep, ct, &key, None))));
        cx.step("download_with_resume(Some)", || dl_res(net().rt.block_on(client.download_with_resume(&ep, ct, &key, Some(1)))));
        cx.step("download_range", || dl_res(net().rt.block_on(client.download_range(&ep, ct, &key, 0, 1))));
        cx.step("download_with_progress", || dl_res(net().rt.block_on(client.download_with_progress(&ep, ct, &key, |_, _| {}))));
        cx.step("get_file_size", || match net().rt.block_on(client.get_file_size(&ep, ct, &key)) {
            Ok(v) => OpRes::new(format!("ok:{}", v.is_some())),
            Err(e) => OpRes::new(proto_err_class(&e)),
        });
        // distinct files for distinct keys of the same length (second key differs in the last byte)
        if len >= 2 {
            let before = cx.sb().root_listing();
            let mut key2 = key.clone();
            *key2.last_mut().expect("len>=2") ^= 1;
            cx.step("download(second key)", || dl_res(net().rt.block_on(client.download(&ep, ct, &key2))));
            let after = cx.sb().root_listing();
            if after.len() != before.len() + 1 {
                cx.out.vios.push(Vio {
                    kind: "pair-collision",
                    sig: format!("{surface}:download:two-keys-one-file"),
                    detail: format!("two content keys of {len} bytes differing in the last byte produced {} new cache file(s)", after.len() as i64 - before.len() as i64),
                    witness: cx.witness.clone(),
                });
            }
        }
        cx.mark_nontrivial_if_root_used();
    }
}

const RANGE_VALUES: [u64; 3] = [0, 1, u64::MAX];

fn cdn_range_case(offset: u64, length: u64, out: &mut CaseOut) {
    let label = format!(
        "offset={},length={}",
        if offset == u64::MAX { "max".to_string() } else { offset.to_string() },
        if length == u64::MAX { "max".to_string() } else { length.to_string() }
    );
    {
        let surface = "CdnClient(range)";
        let w = json!({"surface": surface, "offset": offset.to_string(), "length": length.to_string()});
        let mut cx = Ctx::new(surface, &label, "range", w, out);
        let root = cx.sb().root.clone();
        let Ok(cache) = ProtocolCache::new(&cache_cfg(&root)) else { return };
        let Ok(client) = CdnClient::new(Arc::new(cache), CdnConfig::default()) else { return };
        let ep = endpoint_for("tpr/wow");
        cx.step("download_range", || dl_res(net().rt.block_on(client.download_range(&ep, ContentType::Data, &KEY16, offset, length))));
        cx.step("download_with_resume", || dl_res(net().rt.block_on(client.download_with_resume(&ep, ContentType::Data, &KEY16, Some(offset)))));
    }
    {
        let surface = "RangeDownloader(range)";
        let w = json!({"surface": surface, "offset": offset.to_string(), "length": length.to_string()});
        let mut cx = Ctx::new(surface, &label, "range", w, out);
        let Ok(rd) = RangeDownloader::with_config(1, 1 << 20, std::time::Duration::from_secs(5)) else { return };
        let url = format!("http://127.0.0.1:{}/tpr/wow/data/ab/cd/{}", net().port, HEX);
        cx.step("download_range", || match net().rt.block_on(rd.download_range(&url, offset, length)) {
            Ok(d) => OpRes::with_read("ok", d),
            Err(_) => OpRes::new("err"),
        });
        let ep = endpoint_for("tpr/wow");
        cx.step("download_archive_content", || match net().rt.block_on(rd.download_archive_content(&ep, HEX, offset, length)) {
            Ok(d) => OpRes::with_read("ok", d),
            Err(_) => OpRes::new("err"),
        });
    }
}

// ---------------------------------------------------------------------------------------
// fixed-width binary keys: format_content_key_path, lru_file_path, index file names
// ---------------------------------------------------------------------------------------

fn inside(root: &Path, p: &Path) -> bool {
    // lexical: p = root + only normal components
    match p.strip_prefix(root) {
        Ok(rest) => rest.components().all(|c| matches!(c, std::path::Component::Normal(_))),
        Err(_) => false,
    }
}

fn fixed_width_cases(out: &mut CaseOut) {
    use cascette_client_storage::container::hardlink::format_content_key_path;
    use cascette_client_storage::index::IndexManager;
    use cascette_client_storage::lru::lru_file::{filename_to_generation, lru_file_path};
    let surface = "fixed-width";
    let mut cx = Ctx::new(surface, "<binary keys>", "binary", json!({"surface": surface}), out);
    let root = cx.sb().root.clone();

    // boundary 9-byte keys, including the bytes of '.', '/', NUL
    let mut keys: Vec<[u8; 9]> = vec![[0u8; 9], [0xff; 9], [0x2e; 9], [0x2f; 9], [0x5c; 9]];
    for i in 0..9 {
        let mut k = [0u8; 9];
        k[i] = 1;
        keys.push(k);
        let mut k = [0xffu8; 9];
        k[i] = 0xfe;
        keys.push(k);
    }
    let mut seen: BTreeMap<PathBuf, [u8; 9]> = BTreeMap::new();
    for k in &keys {
        let kk = *k;
        let r = cx.step("format_content_key_path", || {
            let p = format_content_key_path(&root, &kk);
            OpRes::with_read(if inside(&root, &p) { "inside" } else { "OUTSIDE" }, p.to_string_lossy().as_bytes().to_vec())
        });
        if let Some(r) = r {
            let p = PathBuf::from(String::from_utf8_lossy(r.read.as_deref().unwrap_or_default()).into_owned());
            let rel = p.strip_prefix(&root).map(|x| x.to_string_lossy().into_owned()).unwrap_or_default();
            let comps: Vec<&str> = rel.split('/').collect();
            let shape_ok = comps.len() == 3
                && comps[0].len() == 2
                && comps[1].len() == 2
                && comps[2].len() == 14
                && rel.bytes().all(|b| b == b'/' || b.is_ascii_hexdigit())
                && format!("{}{}{}", comps[0], comps[1], comps[2]) == hex::encode(k);
            if r.class != "inside" || !shape_ok {
                cx.out.vios.push(Vio {
                    kind: "path-shape",
                    sig: "format_content_key_path:not-XX/YY/hex-inside-base".into(),
                    detail: format!("format_content_key_path(base, {}) = <base>/{rel}", hex::encode(k)),
                    witness: json!({"surface": surface, "key": hex::encode(k)}),
                });
            }
            if let Some(prev) = seen.insert(p.clone(), *k) {
                if prev != *k {
                    cx.out.vios.push(Vio {
                        kind: "pair-collision",
                        sig: "format_content_key_path:two-keys-one-path".into(),
                        detail: format!("keys {} and {} map to the same path {rel}", hex::encode(prev), hex::encode(k)),
                        witness: json!({"surface": surface, "key": hex::encode(k)}),
                    });
                }
            }
        }
    }
    let mut seen_g: BTreeMap<PathBuf, u64> = BTreeMap::new();
    for g in [0u64, 1, 0xff, 1 << 32, (1 << 63) - 1, 1 << 63, u64::MAX - 1, u64::MAX, 0x2e2e_2e2e_2e2e_2e2e, 0x2f2f_2f2f_2f2f_2f2f] {
        let r = cx.step("lru_file_path", || {
            let p = lru_file_path(&root, g);
            OpRes::with_read(if inside(&root, &p) { "inside" } else { "OUTSIDE" }, p.to_string_lossy().as_bytes().to_vec())
        });
        if let Some(r) = r {
            let p = PathBuf::from(String::from_utf8_lossy(r.read.as_deref().unwrap_or_default()).into_owned());
            let name = p.file_name().map(|n| n.to_string_lossy().into_owned()).unwrap_or_default();
            let ok = r.class == "inside" && p.parent() == Some(root.as_path()) && name == format!("{g:016x}.lru") && filename_to_generation(&name) == Some(g);
            if !ok {
                cx.out.vios.push(Vio {
                    kind: "path-shape",
                    sig: "lru_file_path:not-16hex.lru-inside-dir".into(),
                    detail: format!("lru_file_path(dir, {g:#x}) = {name:?} (round trip {:?})", filename_to_generation(&name)),
                    witness: json!({"surface": surface, "generation": g.to_string()}),
                });
            }
            if let Some(prev) = seen_g.insert(p, g) {
                if prev != g {
                    cx.out.vios.push(Vio {
                        kind: "pair-collision",
                        sig: "lru_file_path:two-generations-one-path".into(),
                        detail: format!("generations {prev} and {g} map to the same file"),
                        witness: json!({"surface": surface, "generation": g.to_string()}),
                    });
                }
            }
        }
    }
    // index file names: one key per bucket + boundary keys, saved through the public API
    let data = root.join("data");
    let _ = std::fs::create_dir_all(&data);
    let mut ekeys: Vec<[u8; 16]> = vec![[0u8; 16], [0xff; 16], [0x2e; 16], [0x2f; 16]];
    for b in 0..16u8 {
        let mut k = [0u8; 16];
        k[0] = b;
        ekeys.push(k);
        k[1] = b << 4;
        ekeys.push(k);
    }
    let r = cx.step("IndexManager::save_all", || {
        let mut im = IndexManager::new(&data);
        for (i, k) in ekeys.iter().enumerate() {
            if let Err(e) = im.add_entry(&EncodingKey::from_bytes(*k), 0, (i as u32) * 64, 32) {
                return OpRes::new(err_class(&e));
            }
        }
        match im.save_all() {
            Ok(()) => OpRes::new("ok"),
            Err(e) => OpRes::new(err_class(&e)),
        }
    });
    if r.is_some() {
        let names = cx.sb().root_listing();
        let buckets: BTreeSet<u8> = ekeys.iter().map(|k| IndexManager::bucket_for_key(&EncodingKey::from_bytes(*k))).collect();
        let expect: BTreeSet<String> = buckets.iter().map(|b| format!("data/{b:02x}00000001.idx")).collect();
        let idx_files: BTreeSet<String> = names.iter().filter(|n| n.ends_with(".idx")).cloned().collect();
        let shape = |n: &str| {
            let f = n.strip_prefix("data/").unwrap_or("");
            f.len() == 14 && f.ends_with(".idx") && f[..10].bytes().all(|b| b.is_ascii_hexdigit())
        };
        if idx_files != expect || !names.iter().all(|n| shape(n)) {
            cx.out.vios.push(Vio {
                kind: "path-shape",
                sig: "IndexManager::save_all:unexpected-index-files".into(),
                detail: format!("index files written: {names:?}, expected exactly {expect:?}"),
                witness: json!({"surface": surface}),
            });
        }
        cx.out.outcomes.push(fnv64_str(&format!("idx|{}", idx_files.len())));
    }
    cx.mark_nontrivial_if_root_used();
}

// ---------------------------------------------------------------------------------------
// pairs of distinct well-formed typed keys
// ---------------------------------------------------------------------------------------

#[derive(Clone, Debug, PartialEq)]
pub enum TK {
    Ribbit { endpoint: &'static str, region: &'static str, product: Option<&'static str> },
    Config { ty: &'static str, hash: &'static str },
    ArchiveIndex { name: &'static str, hash: &'static str },
    Manifest { ty: &'static str, ck: u8, version: Option<&'static str> },
    ArchiveRange { id: &'static str, off: u64, len: u32 },
    Blte { ek: u8, block: Option<u32> },
    Content { ck: u8 },
    Root { ck: u8, parsed: bool, version: Option<u8> },
    Encoding { ek: u8, parsed: bool, page: Option<u32> },
    BlteBlock { ck: u8, idx: u32, dec: bool },
}

const H1: &str = "0123456789abcdef0123456789abcdef";
const H2: &str = "0123456789abcdef0123456789abcdee"; // differs in the last digit
const H3: &str = "1123456789abcdef0123456789abcdef"; // differs in the first digit

impl TK {
    fn type_name(&self) -> &'static str {
        match self {
            TK::Ribbit { .. } => "RibbitKey",
            TK::Config { .. } => "ConfigKey",
            TK::ArchiveIndex { .. } => "ArchiveIndexKey",
            TK::Manifest { .. } => "ManifestKey",
            TK::ArchiveRange { .. } => "ArchiveRangeKey",
            TK::Blte { .. } => "BlteKey",
            TK::Content { .. } => "ContentCacheKey",
            TK::Root { .. } => "RootFileKey",
            TK::Encoding { .. } => "EncodingFileKey",
            TK::BlteBlock { .. } => "BlteBlockKey",
        }
    }
    fn ribbit(&self) -> Option<RibbitKey> {
        if let TK::Ribbit { endpoint, region, product } = self {
            Some(match product {
                Some(p) => RibbitKey::with_product(*endpoint, *region, *p),
                None => RibbitKey::new(*endpoint, *region),
            })
        } else {
            None
        }
    }
    fn cache_key(&self) -> String {
        match self {
            TK::Ribbit { .. } => self.ribbit().expect("ribbit").as_cache_key().to_string(),
            TK::Config { ty, hash } => ConfigKey::new(*ty, *hash).as_cache_key().to_string(),
            TK::ArchiveIndex { name, hash } => ArchiveIndexKey::new(*name, *hash).as_cache_key().to_string(),
            TK::Manifest { ty, ck: c, version } => match version {
                Some(v) => ManifestKey::with_version(*ty, ck(*c), *v).as_cache_key().to_string(),
                None => ManifestKey::new(*ty, ck(*c)).as_cache_key().to_string(),
            },
            TK::ArchiveRange { id, off, len } => ArchiveRangeKey::new(*id, *off, *len).as_cache_key().to_string(),
            TK::Blte { ek: e, block } => match block {
                Some(b) => BlteKey::with_block(ek(*e), *b).as_cache_key().to_string(),
                None => BlteKey::new(ek(*e)).as_cache_key().to_string(),
            },
            TK::Content { ck: c } => ContentCacheKey::new(ck(*c)).as_cache_key().to_string(),
            TK::Root { ck: c, parsed, version } => match version {
                Some(v) => RootFileKey::with_version(ck(*c), *parsed, *v).as_cache_key().to_string(),
                None if *parsed => RootFileKey::new_parsed(ck(*c)).as_cache_key().to_string(),
                None => RootFileKey::new_raw(ck(*c)).as_cache_key().to_string(),
            },
            TK::Encoding { ek: e, parsed, page } => match page {
                Some(p) => EncodingFileKey::with_page(ek(*e), *p, *parsed).as_cache_key().to_string(),
                None if *parsed => EncodingFileKey::new_parsed(ek(*e)).as_cache_key().to_string(),
                None => EncodingFileKey::new_raw(ek(*e)).as_cache_key().to_string(),
            },
            TK::BlteBlock { ck: c, idx, dec } => {
                if *dec {
                    BlteBlockKey::new_decompressed(ck(*c), *idx).as_cache_key().to_string()
                } else {
                    BlteBlockKey::new_raw(ck(*c), *idx).as_cache_key().to_string()
                }
            }
        }
    }
}

/// The universe of well-formed typed keys: documented field values only (regions, product
/// names, endpoint names incl. the documented "products/wow", config types, hex hashes that
/// differ in the first / last digit, archive names "data.000"/"data.001", dotted versions).
fn universe() -> Vec<TK> {
    let mut u = Vec::new();
    for endpoint in ["versions", "cdns", "summary", "products/wow"] {
        for region in ["us", "eu"] {
            u.push(TK::Ribbit { endpoint, region, product: None });
            for product in ["wow", "wow_classic"] {
                u.push(TK::Ribbit { endpoint, region, product: Some(product) });
            }
        }
    }
    for ty in ["buildconfig", "cdnconfig"] {
        for hash in [H1, H2, H3] {
            u.push(TK::Config { ty, hash });
        }
    }
    for name in ["data.000", "data.001", H1] {
        for hash in [H1, H2] {
            u.push(TK::ArchiveIndex { name, hash });
        }
    }
    for ty in ["root", "encoding"] {
        for c in [1u8, 2] {
            for version in [None, Some("1"), Some("1.15.7.63696"), Some("11.0.7")] {
                u.push(TK::Manifest { ty, ck: c, version });
            }
        }
    }
    for id in [H1, H2] {
        for (off, len) in [(0u64, 1u32), (0, 10), (1, 0), (1, 10), (10, 1), (11, 0)] {
            u.push(TK::ArchiveRange { id, off, len });
        }
    }
    for e in [1u8, 2] {
        // (numbers with more digits than the small ones, sharing their low digits: 1 / 100 001 /
        // 200 001, and the largest chunk index a BLTE file can have)
        for block in [None, Some(0), Some(1), Some(11), Some(100_001), Some(200_001), Some(16_777_215)] {
            u.push(TK::Blte { ek: e, block });
        }
    }
    for c in [1u8, 2] {
        u.push(TK::Content { ck: c });
        for parsed in [false, true] {
            for version in [None, Some(1u8), Some(2)] {
                u.push(TK::Root { ck: c, parsed, version });
            }
            for page in [None, Some(0u32), Some(3), Some(100_003), Some(u32::MAX)] {
                u.push(TK::Encoding { ek: c, parsed, page });
            }
            for idx in [0u32, 1, 15] {
                u.push(TK::BlteBlock { ck: c, idx, dec: parsed });
            }
        }
    }
    u
}

struct PairObs {
    put1: bool,
    put2: bool,
    files1: BTreeSet<String>,
    files2: BTreeSet<String>,
    get1: Option<Vec<u8>>,
    get2: Option<Vec<u8>>,
    get1_reopened: Option<Vec<u8>>,
    get2_reopened: Option<Vec<u8>>,
}

fn pair_run<K: CacheKey + 'static>(sb: &Sandbox, hashed: bool, k1: K, k2: K) -> Option<PairObs> {
    sb.wipe_root();
    let c = DiskCache::<K>::new(disk_cfg(&sb.root, hashed)).ok()?;
    let l0 = sb.root_listing();
    let put1 = block_on(c.put(k1.clone(), Bytes::from_static(b"VALUE-1"))).is_ok();
    let l1 = sb.root_listing();
    let put2 = block_on(c.put(k2.clone(), Bytes::from_static(b"VALUE-2"))).is_ok();
    let l2 = sb.root_listing();
    let get1 = block_on(c.get(&k1)).ok().flatten().map(|b| b.to_vec());
    let get2 = block_on(c.get(&k2)).ok().flatten().map(|b| b.to_vec());
    let c2 = DiskCache::<K>::new(disk_cfg(&sb.root, hashed)).ok()?;
    let get1_reopened = block_on(c2.get(&k1)).ok().flatten().map(|b| b.to_vec());
    let get2_reopened = block_on(c2.get(&k2)).ok().flatten().map(|b| b.to_vec());
    Some(PairObs {
        put1,
        put2,
        files1: l1.difference(&l0).cloned().collect(),
        files2: l2.difference(&l1).cloned().collect(),
        get1,
        get2,
        get1_reopened,
        get2_reopened,
    })
}

fn judge_pair(what: &str, sigbase: &str, o: &PairObs, w: Value, out: &mut CaseOut) {
    out.calls += 8;
    if !(o.put1 && o.put2) {
        // a rejected put is not "sharing a file" — not judged (counted as an outcome)
        out.outcomes.push(fnv64_str(&format!("pair|put-rejected|{}|{}", o.put1, o.put2)));
        return;
    }
    let mut symptoms = Vec::new();
    if o.files1.is_empty() || o.files2.is_empty() {
        symptoms.push("second-put-created-no-new-file");
    }
    if o.get1.as_deref() != Some(b"VALUE-1") || o.get1_reopened.as_deref() != Some(b"VALUE-1") {
        symptoms.push("first-key-lost-or-overwritten");
    }
    if o.get2.as_deref() != Some(b"VALUE-2") || o.get2_reopened.as_deref() != Some(b"VALUE-2") {
        symptoms.push("second-key-lost-or-overwritten");
    }
    out.outcomes.push(fnv64_str(&format!("pair|{symptoms:?}")));
    if !symptoms.is_empty() {
        out.vios.push(Vio {
            kind: "pair-collision",
            sig: format!("{sigbase}:{}", symptoms.join("+")),
            detail: format!(
                "{what}: files created by put#1 {:?}, by put#2 {:?}; get#1 = {:?} (reopened {:?}), get#2 = {:?} (reopened {:?})",
                o.files1,
                o.files2,
                o.get1.as_ref().map(|v| String::from_utf8_lossy(v).into_owned()),
                o.get1_reopened.as_ref().map(|v| String::from_utf8_lossy(v).into_owned()),
                o.get2.as_ref().map(|v| String::from_utf8_lossy(v).into_owned()),
                o.get2_reopened.as_ref().map(|v| String::from_utf8_lossy(v).into_owned())
            ),
            witness: w,
        });
    }
}

fn typed_pair_case(u: &[TK], i: usize, j: usize, sb: &Sandbox, out: &mut CaseOut) {
    let (a, b) = (&u[i], &u[j]);
    let (sa, sb_) = (a.cache_key(), b.cache_key());
    for hashed in [false, true] {
        let w = json!({"surface": "typed-pair", "i": i, "j": j, "hashed": hashed, "key1": format!("{a:?}"), "key2": format!("{b:?}")});
        // same type: through the real typed key (its Hash/Eq); across types: through the
        // cache-key string (the file path depends on nothing else)
        let obs = match (a.ribbit(), b.ribbit()) {
            (Some(x), Some(y)) => pair_run(sb, hashed, x, y),
            _ => pair_run(sb, hashed, RawKey(sa.clone()), RawKey(sb_.clone())),
        };
        let Some(obs) = obs else { continue };
        let sigbase = format!("typed-pair:{}~{}", a.type_name(), b.type_name());
        judge_pair(&format!("distinct well-formed keys {a:?} ({sa:?}) and {b:?} ({sb_:?})"), &sigbase, &obs, w, out);
        out.nontrivial.push(fnv64_str(&format!("pair|{i}|{j}|{hashed}")));
    }
}

/// Plain file-name-like keys / endpoint names (all pass the real endpoint validation).
const NAMES: [&str; 8] = ["a", "a.b", "a.tmp", "a.b.tmp", "a.index", "v1/products/wow/versions", "v1/products/wow/versions.tmp", "v1/products/wow/cdns"];

fn name_pair_case(i: usize, j: usize, sb: &Sandbox, out: &mut CaseOut) {
    let (a, b) = (NAMES[i], NAMES[j]);
    for (form, ka, kb) in [("raw", a.to_string(), b.to_string()), ("api/ribbit", format!("api/ribbit/{a}"), format!("api/ribbit/{b}"))] {
        for hashed in [false, true] {
            let w = json!({"surface": "name-pair", "i": i, "j": j, "form": form, "hashed": hashed, "key1": ka, "key2": kb});
            let Some(obs) = pair_run(sb, hashed, RawKey(ka.clone()), RawKey(kb.clone())) else { continue };
            let cause = if a.ends_with(".tmp") || b.ends_with(".tmp") { "name-ending-in-.tmp" } else { "other" };
            judge_pair(&format!("distinct endpoint-like names {ka:?} and {kb:?}"), &format!("name-pair:{cause}"), &obs, w, out);
            out.nontrivial.push(fnv64_str(&format!("npair|{i}|{j}|{form}|{hashed}")));
        }
    }
}

/// Endpoints for the pair test of `RibbitTactClient::query`: every string is offered to the real
/// validation first; product-like segments differ only in the characters the validation admits
/// next to letters (`_`, `-`, `.`, `/`), so a key derivation that folds one into another shows.
const QUERY_EPS: [&str; 9] = [
    "v1/products/wow/versions",
    "v1/products/wow_beta/versions",
    "v1/products/wow/beta/versions",
    "v1/products/wow-beta/versions",
    "v1/products/wow.beta/versions",
    "v1/products/wowbeta/versions",
    "v1/products/wow/cdns",
    "v1/summary",
    "v1/products/WOW/versions",
];

static QPAIRS_JUDGED: std::sync::atomic::AtomicU64 = std::sync::atomic::AtomicU64::new(0);

/// Two distinct endpoints through the real client on one cache directory: each query must be
/// answered with the document served for *its* endpoint (the mock's answers name the request
/// target), by the same client and by a new one on the same directory.
fn query_pair_case(i: usize, j: usize, sb: &Sandbox, out: &mut CaseOut) {
    let (a, b) = (QUERY_EPS[i], QUERY_EPS[j]);
    if !(matches!(endpoint_accepted(a), Ok(true)) && matches!(endpoint_accepted(b), Ok(true))) {
        out.outcomes.push(fnv64_str("qpair|not-both-accepted"));
        return;
    }
    sb.wipe_root();
    let w = json!({"surface": "query-pair", "i": i, "j": j, "endpoint1": a, "endpoint2": b});
    // the answer's identity: the mark in its region field (the Debug form of a document is not
    // stable — it contains a HashMap)
    let q = |c: &RibbitTactClient, e: &str| {
        net().rt.block_on(c.query(e)).ok().map(|d| {
            let t = format!("{d:?}");
            t.find(MOCK_MARK).map_or_else(|| "<no mark>".to_string(), |p| t[p..].chars().take(MOCK_MARK.len() + 16).collect())
        })
    };
    let Ok(c1) = RibbitTactClient::new(client_cfg(Some(&sb.root))) else { return };
    // what the server serves for each endpoint: asked by two more clients, each on an empty
    // cache directory of its own
    let probe = |e: &str| {
        let dir = Scratch::new("c20q");
        RibbitTactClient::new(client_cfg(Some(&dir.path))).ok().and_then(|c| q(&c, e))
    };
    let (Some(want_a), Some(want_b)) = (probe(a), probe(b)) else {
        out.outcomes.push(fnv64_str("qpair|probe-failed"));
        return;
    };
    out.calls += 6;
    if want_a == want_b {
        // the client asks the server the same question for both: nothing to tell apart
        out.outcomes.push(fnv64_str("qpair|same-request"));
        return;
    }
    let l0 = sb.root_listing();
    let got_a = q(&c1, a);
    let l1 = sb.root_listing();
    let got_b = q(&c1, b);
    let l2 = sb.root_listing();
    let again_a = q(&c1, a);
    drop(c1);
    let Ok(c2) = RibbitTactClient::new(client_cfg(Some(&sb.root))) else { return };
    let (re_a, re_b) = (q(&c2, a), q(&c2, b));
    let mut symptoms = Vec::new();
    if got_a.is_some() && got_b.is_some() && !l1.is_subset(&l0) && l2.is_subset(&l1) {
        symptoms.push("second-query-created-no-new-file");
    }
    for (name, got, want) in [("first", &got_a, &want_a), ("second", &got_b, &want_b), ("first-again", &again_a, &want_a), ("first-new-client", &re_a, &want_a), ("second-new-client", &re_b, &want_b)] {
        if let Some(g) = got {
            if g != want {
                symptoms.push(if g == &want_a || g == &want_b { "answered-with-the-other-endpoints-document" } else { "answered-with-another-document" });
                let _ = name;
            }
        }
    }
    symptoms.sort_unstable();
    symptoms.dedup();
    out.outcomes.push(fnv64_str(&format!("qpair|{symptoms:?}")));
    out.nontrivial.push(fnv64_str(&format!("qpair|{i}|{j}")));
    QPAIRS_JUDGED.fetch_add(1, std::sync::atomic::Ordering::Relaxed);
    if !symptoms.is_empty() {
        out.vios.push(Vio {
            kind: "pair-collision",
            sig: format!("query-pair:{}", symptoms.join("+")),
            detail: format!("distinct accepted endpoints {a:?} and {b:?} on one cache directory: files after the first query {:?}, after the second {:?}; the second query was answered with {} document; answers (first, second, first again, first by a new client, second by a new client) = {:?}, served for the two endpoints on empty caches: {:?}", l1.difference(&l0).collect::<Vec<_>>(), l2.difference(&l1).collect::<Vec<_>>(), if got_b.as_ref() == Some(&want_b) { "its own" } else { "another" }, [&got_a, &got_b, &again_a, &re_a, &re_b], [&want_a, &want_b]),
            witness: w,
        });
    }
}

// ---------------------------------------------------------------------------------------
// driver
// ---------------------------------------------------------------------------------------

fn absorb(rep: &Report, out: CaseOut) {
    rep.add_evaluations(out.calls);
    for h in out.outcomes {
        rep.add_outcome(h);
    }
    for h in out.nontrivial {
        rep.add_nontrivial(h);
    }
    for v in out.vios {
        rep.violation(v.kind, &v.sig, v.witness, &v.detail);
    }
}

/// The background sync task of `DiskCache` runs `sync(1)` on its first tick; with an empty PATH the
/// spawn fails and the task carries on (same arrangement as C10 and C12). Nothing else in this
/// check starts a program.
fn disable_sync_command() {
    // SAFETY: called at the start of `run` / `replay`, before any other thread of the check exists.
    unsafe { std::env::set_var("PATH", "/nonexistent-c20") };
}

pub fn run(tier: Tier, seed: u64) -> i32 {
    disable_sync_command();
    let rep = Report::new("C20", tier, seed, Level::Exploration);
    rep.set_rule(
        "every string of ≤ k tokens from the path-significant alphabet (joined with and without '/', deduplicated; typed-field surfaces: full sequence in both layouts for one token less; network-shaped surfaces: one token less) × every string-taking surface (DiskCache raw keys in both directory layouts and on the instance built with its background tasks — an expired entry and an entry over max_files, each followed by a cleanup pass on a paused clock —, every string field of every typed key in both layouts, ProtocolCache, RibbitTactClient::query, CdnClient endpoint path, CdnClient archive key, RangeDownloader archive name, Storage::open_installation), each a fixed call sequence in a fresh sandbox with a snapshot of everything outside the configured directory after every call; plus content keys of every length 0..=32 × 3 content types × 7 CdnClient calls, the 3×3 offset/length grid, boundary fixed-width binary keys, and every ordered pair of distinct keys from a universe of well-formed typed keys / endpoint-like names in both layouts, and every ordered pair of distinct accepted endpoints (product segments differing only in '_', '-', '.', '/', case) through RibbitTactClient::query on one cache directory against a mock whose answers name the request target. evaluations = calls of the code under test; a (surface, string) case is non-trivial when the calls left at least one file under the configured directory or changed something outside it",
    );
    rep.assume("absolute test strings are re-rooted at <sandbox>/absroot (an absolute path outside the configured directory) so that the run itself never leaves its scratch directory; Path::join treats every absolute argument alike");
    rep.assume("network-shaped APIs run against a loopback HTTP mock that answers every request with 200 and a small BPSV body; CDN host strings are not varied (host never reaches a path or cache key; bare names would need DNS)");
    rep.assume("endpoint validation is decided by the real RibbitTactClient::query (InvalidEndpoint = rejected)");
    rep.assume("a put/store that is rejected with an error is never an alarm; only effects outside the directory, panics, foreign content and lost/shared values are");

    // mock + decoy sanity (vacuity of the read-outside oracle)
    {
        use cascette_formats::CascFormat;
        let ok1 = <cascette_formats::bpsv::BpsvDocument as CascFormat>::parse(decoy_body("c/a").as_bytes()).is_ok();
        let ok2 = <cascette_formats::bpsv::BpsvDocument as CascFormat>::parse(mock_body().as_bytes()).is_ok();
        if !ok1 || !ok2 {
            rep.machinery_error("decoy or mock body does not parse as BPSV");
        }
        match endpoint_accepted("v1/products/wow/versions") {
            Ok(true) => {}
            other => rep.machinery_error(&format!("loopback mock not usable: a well-formed endpoint was not accepted ({other:?})")),
        }
        if !matches!(endpoint_accepted("a:b"), Ok(false)) {
            rep.machinery_error("endpoint validation accepted ':' — the probe does not observe validation");
        }
    }

    let k = tier.pick(3, 4);
    // the typed-field surface multiplies every string by 10 fields: strings of ≤ k_typed tokens
    // get the short sequence (put, get-reopened, remove; flat layout), those of ≤ k_typed_full
    // tokens the full sequence in both layouts
    let k_typed = tier.pick(3, 4);
    let k_typed_full = tier.pick(2, 3);
    let typed_full_set: BTreeSet<String> = strings(k_typed_full).into_iter().collect();
    let unsafe_skips = std::sync::atomic::AtomicU64::new(0);
    let mut all = strings(k);
    if let Some(n) = std::env::var("VERIF_C20_LIMIT").ok().and_then(|v| v.parse::<usize>().ok()) {
        all.truncate(n); // debugging aid only
        rep.cap_hit("VERIF_C20_LIMIT set");
    }
    let typed_set: BTreeSet<String> = strings(k_typed).into_iter().collect();
    // surfaces that go through the loopback mock hop between threads a dozen times per call
    // (latency-bound): one token less as well
    let k_net = tier.pick(2, 3);
    let net_set: BTreeSet<String> = strings(k_net).into_iter().collect();
    let is_net = |surface: &str| matches!(surface, "RibbitTactClient::query" | "CdnClient(path)" | "CdnClient(archive_key)" | "RangeDownloader(archive_name)");
    let n_strings = all.len();

    // 1. strings × surfaces
    let accepted = std::sync::atomic::AtomicU64::new(0);
    let per_surface_calls: Vec<std::sync::atomic::AtomicU64> = STRING_SURFACES.iter().map(|_| std::sync::atomic::AtomicU64::new(0)).collect();
    let per_surface_us: Vec<std::sync::atomic::AtomicU64> = STRING_SURFACES.iter().map(|_| std::sync::atomic::AtomicU64::new(0)).collect();
    let deadline = std::time::Instant::now() + std::time::Duration::from_secs(tier.pick(120, 1500));
    let skipped = std::sync::atomic::AtomicU64::new(0);
    par_map(all.len(), |i| {
        if std::time::Instant::now() > deadline {
            skipped.fetch_add(1, std::sync::atomic::Ordering::Relaxed);
            return;
        }
        let s = &all[i];
        for (si, surface) in STRING_SURFACES.iter().enumerate() {
            if *surface == "DiskCache-typed" && !typed_set.contains(s) {
                continue;
            }
            if is_net(surface) && !net_set.contains(s) {
                continue;
            }
            let mut out = CaseOut::default();
            let t0 = std::time::Instant::now();
            let typed_short = !typed_full_set.contains(s);
            run_string_surface(surface, s, typed_short, &mut out);
            if out.skipped_unsafe > 0 {
                unsafe_skips.fetch_add(out.skipped_unsafe, std::sync::atomic::Ordering::Relaxed);
            }
            per_surface_us[si].fetch_add(t0.elapsed().as_micros() as u64, std::sync::atomic::Ordering::Relaxed);
            if out.accepted_endpoint {
                accepted.fetch_add(1, std::sync::atomic::Ordering::Relaxed);
            }
            per_surface_calls[si].fetch_add(out.calls, std::sync::atomic::Ordering::Relaxed);
            absorb(&rep, out);
        }
        if i % 997 == 0 && i / 997 < 10 {
            rep.sample(json!({"string": show(s), "class_as_raw_key": class_of(s, false), "class_behind_a_prefix": class_of(s, true)}));
        }
    });
    let skipped = skipped.load(std::sync::atomic::Ordering::Relaxed);
    if skipped > 0 {
        rep.cap_hit(&format!("wall-clock budget: {skipped} of {n_strings} strings (the longest ones) were not evaluated"));
    }

    let t_strings = rep.elapsed_s();
    // 2. content keys of every length, range grid, fixed-width keys
    par_map(33, |len| {
        let mut out = CaseOut::default();
        cdn_keylen_case(len, &mut out);
        absorb(&rep, out);
    });
    par_map(9, |i| {
        let mut out = CaseOut::default();
        cdn_range_case(RANGE_VALUES[i / 3], RANGE_VALUES[i % 3], &mut out);
        absorb(&rep, out);
    });
    {
        let mut out = CaseOut::default();
        fixed_width_cases(&mut out);
        absorb(&rep, out);
    }

    let t_fixed = rep.elapsed_s();
    // 3. pairs
    let u = universe();
    // the universe must be made of distinct keys
    {
        let mut seen = Vec::new();
        for k in &u {
            if seen.contains(&k) {
                rep.machinery_error("typed-key universe contains a duplicate");
            }
            seen.push(k);
        }
    }
    let n = u.len();
    par_map(n * n, |idx| {
        let (i, j) = (idx / n, idx % n);
        if i == j {
            return;
        }
        let (sb, base, meta) = take_sandbox();
        let mut out = CaseOut::default();
        typed_pair_case(&u, i, j, &sb, &mut out);
        give_back(sb, base, meta);
        absorb(&rep, out);
    });
    par_map(NAMES.len() * NAMES.len(), |idx| {
        let (i, j) = (idx / NAMES.len(), idx % NAMES.len());
        if i == j {
            return;
        }
        let (sb, base, meta) = take_sandbox();
        let mut out = CaseOut::default();
        name_pair_case(i, j, &sb, &mut out);
        give_back(sb, base, meta);
        absorb(&rep, out);
    });

    par_map(QUERY_EPS.len() * QUERY_EPS.len(), |idx| {
        let (i, j) = (idx / QUERY_EPS.len(), idx % QUERY_EPS.len());
        if i == j {
            return;
        }
        let (sb, base, meta) = take_sandbox();
        let mut out = CaseOut::default();
        query_pair_case(i, j, &sb, &mut out);
        give_back(sb, base, meta);
        absorb(&rep, out);
    });

    let qj = QPAIRS_JUDGED.load(std::sync::atomic::Ordering::Relaxed);
    rep.extra("query_endpoint_pairs_judged", json!(qj));
    if qj < 20 {
        rep.machinery_error("vacuous endpoint-pair part: fewer than 20 pairs of accepted endpoints were answered differently by the mock");
    }

    let t_pairs = rep.elapsed_s();
    rep.extra("phase_wall_s", json!({"strings": t_strings, "key_lengths_ranges_fixed_width": t_fixed - t_strings, "pairs": t_pairs - t_fixed}));
    let mut calls = serde_json::Map::new();
    for (s, c) in STRING_SURFACES.iter().zip(per_surface_calls.iter()) {
        calls.insert((*s).to_string(), json!(c.load(std::sync::atomic::Ordering::Relaxed)));
    }
    let mut cpu = serde_json::Map::new();
    for (s, c) in STRING_SURFACES.iter().zip(per_surface_us.iter()) {
        cpu.insert((*s).to_string(), json!(c.load(std::sync::atomic::Ordering::Relaxed) / 1000));
    }
    rep.extra("thread_ms_per_surface", Value::Object(cpu));
    rep.extra(
        "bounds",
        json!({
            "tokens": tokens().iter().map(|t| show(t)).collect::<Vec<_>>(),
            "max_tokens_per_string": k,
            "max_tokens_per_string_typed_fields": {"short sequence, flat layout": k_typed, "full sequence, both layouts": k_typed_full},
            "strings_skipped_because_they_could_leave_the_scratch_dir": unsafe_skips.load(std::sync::atomic::Ordering::Relaxed),
            "max_tokens_per_string_network_surfaces": k_net,
            "distinct_strings_network_surfaces": net_set.len(),
            "distinct_strings": n_strings,
            "distinct_strings_typed_fields": typed_set.len(),
            "typed_fields": TYPED_FIELDS,
            "strings_accepted_by_validate_endpoint": accepted.load(std::sync::atomic::Ordering::Relaxed),
            "calls_per_surface": calls,
            "content_key_lengths": "0..=32 × {config,data,patch}",
            "range_grid": "offset,length ∈ {0, 1, 2^64-1}",
            "typed_key_universe": n,
            "typed_key_ordered_pairs": n * (n - 1),
            "endpoint_like_names": NAMES,
            "layouts": ["flat", "hashed subdirectories (2 levels)"],
        }),
    );
    if rep.outcomes() < 30 {
        rep.machinery_error("vacuous enumeration: fewer than 30 distinct (surface, op, result) outcomes");
    }
    if accepted.load(std::sync::atomic::Ordering::Relaxed) < 10 {
        rep.machinery_error("vacuous: fewer than 10 strings were accepted as endpoints");
    }
    // replay before report
    for v in rep.violations_snapshot() {
        let sigs = replay_sigs(&v.witness, false);
        if !sigs.contains(&v.sig) {
            rep.machinery_error(&format!("violation {} did not reproduce on replay (got {:?})", v.sig, sigs.iter().take(5).collect::<Vec<_>>()));
        }
    }
    rep.finish()
}

/// Re-run the case a witness describes; returns the signatures it produces.
fn replay_sigs(w: &Value, verbose: bool) -> Vec<String> {
    let mut out = CaseOut { keep_log: verbose, ..CaseOut::default() };
    let surface = w["surface"].as_str().unwrap_or("");
    match surface {
        "CdnClient(key-length)" => cdn_keylen_case(w["key_len"].as_u64().unwrap_or(0) as usize, &mut out),
        "CdnClient(range)" | "RangeDownloader(range)" => {
            let o = w["offset"].as_str().and_then(|s| s.parse().ok()).unwrap_or(0);
            let l = w["length"].as_str().and_then(|s| s.parse().ok()).unwrap_or(0);
            cdn_range_case(o, l, &mut out);
        }
        "fixed-width" => fixed_width_cases(&mut out),
        "typed-pair" => {
            let u = universe();
            let sb = Sandbox::new();
            typed_pair_case(&u, w["i"].as_u64().unwrap_or(0) as usize, w["j"].as_u64().unwrap_or(1) as usize, &sb, &mut out);
        }
        "query-pair" => {
            let sb = Sandbox::new();
            query_pair_case(w["i"].as_u64().unwrap_or(0) as usize, w["j"].as_u64().unwrap_or(1) as usize, &sb, &mut out);
        }
        "name-pair" => {
            let sb = Sandbox::new();
            name_pair_case(w["i"].as_u64().unwrap_or(0) as usize, w["j"].as_u64().unwrap_or(1) as usize, &sb, &mut out);
        }
        _ => {
            let s = w["string"].as_str().unwrap_or("");
            let short = w["extra"]["typed_short"].as_bool().unwrap_or(false);
            run_string_surface(surface, s, short, &mut out);
        }
    }
    if verbose {
        for l in &out.log {
            println!("  {l}");
        }
        for v in &out.vios {
            println!("violates: {} [{}]: {}", v.kind, v.sig, v.detail);
        }
    }
    out.vios.into_iter().map(|v| v.sig).collect()
}

pub fn replay(w: &Value) -> i32 {
    disable_sync_command();
    crate::util::install_quiet_panic_hook();
    let wit = &w["witness"];
    println!("replaying {}", wit);
    let sigs = replay_sigs(wit, true);
    if sigs.is_empty() {
        println!("no violation");
        0
    } else {
        1
    }
}
