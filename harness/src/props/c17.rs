//! C17 — the LRU tracker keeps recency order and its full capacity over any history.
//!
//! SEQ engine: every history ≤ depth d over {touch, remove, evict_tail, evict_to_target,
//! bump_generation, checkpoint, load-latest, run_cycle, reset, shutdown} × 4 keys (one of
//! them all-zero) × capacities 1..3, on the real `LruManager`, in lock-step with a textbook
//! LRU (`VecDeque`) plus a map generation → checkpoint snapshot for the disk protocol.

use crate::report::{Level, Report, Tier};
use crate::seq::{SeqBounds, SeqRun, SeqSubject, explore};
use crate::util::{Scratch, block_on, fnv64_str};
use cascette_client_storage::lru::LruManager;
use std::collections::{BTreeMap, VecDeque};

const AVG: u64 = 100;

#[derive(Clone, Debug, PartialEq)]
pub enum Op {
    Touch(u8),
    Remove(u8),
    EvictTail,
    /// evict_to_target(n * AVG, AVG)
    EvictToTarget(u8),
    BumpGen,
    Checkpoint,
    LoadLatest,
    /// run_cycle(n * AVG, AVG)
    RunCycle(u8),
    Reset,
    Shutdown,
}

impl Op {
    fn is_disk(&self) -> bool {
        matches!(self, Op::Checkpoint | Op::LoadLatest | Op::RunCycle(_) | Op::Shutdown)
    }
}

pub fn key(i: u8) -> [u8; 9] {
    match i {
        0 => [0x11, 1, 2, 3, 4, 5, 6, 7, 8],
        1 => [0x22, 1, 2, 3, 4, 5, 6, 7, 8],
        2 => [0x11, 1, 2, 3, 4, 5, 6, 7, 9], // shares an 8-byte prefix with key 0
        _ => [0; 9],                          // the all-zero key
    }
}

fn key_name(k: &[u8; 9]) -> String {
    for i in 0..4u8 {
        if key(i) == *k {
            return format!("k{i}");
        }
    }
    format!("?{}", hex::encode(k))
}

/// Textbook LRU + the documented generation protocol for checkpoint files.
#[derive(Clone, Debug, Default)]
struct Model {
    cap: usize,
    /// front = least recently used, back = most recently used
    lru: VecDeque<u8>,
    generation: u64,
    prev_generation: u64,
    files: BTreeMap<u64, Vec<u8>>,
}

impl Model {
    fn new(cap: usize) -> Model {
        Model { cap, lru: VecDeque::new(), generation: 1, prev_generation: 0, files: BTreeMap::new() }
    }
    fn touch(&mut self, k: u8) -> bool {
        if self.cap == 0 {
            return false;
        }
        if let Some(p) = self.lru.iter().position(|x| *x == k) {
            self.lru.remove(p);
        } else if self.lru.len() >= self.cap {
            self.lru.pop_front();
        }
        self.lru.push_back(k);
        true
    }
    fn remove(&mut self, k: u8) -> bool {
        if let Some(p) = self.lru.iter().position(|x| *x == k) {
            self.lru.remove(p);
            true
        } else {
            false
        }
    }
    fn evict_to_target(&mut self, target: u64, avg: u64) -> (usize, u64) {
        let mut n = 0;
        let mut freed = 0;
        while freed < target {
            if self.lru.pop_front().is_none() {
                break;
            }
            n += 1;
            freed += avg;
        }
        (n, freed)
    }
    fn bump(&mut self) {
        self.prev_generation = self.generation;
        self.generation += 1;
    }
    fn checkpoint(&mut self) {
        self.files.insert(self.generation, self.lru.iter().copied().collect());
        if self.prev_generation != 0 && self.prev_generation != self.generation {
            self.files.remove(&self.prev_generation);
        }
    }
    fn scan(&mut self) {
        let (g, p) = (self.generation, self.prev_generation);
        self.files.retain(|k, _| *k == g || *k == p);
    }
    fn load_latest(&mut self) -> bool {
        if let Some((g, snap)) = self.files.iter().next_back().map(|(g, s)| (*g, s.clone())) {
            self.lru = snap.into_iter().collect();
            self.generation = g;
            true
        } else {
            false
        }
    }
}

pub struct Subject {
    pub cap: u32,
    /// pre-state: executed (and judged) before every history, not counted in its depth or its
    /// disk-operation bound — histories then start from a checkpointed, non-initial state
    pub pre: Vec<Op>,
    /// quick tier: the longest histories (depth 5) carry at most one disk operation — every disk
    /// operation is five round trips to tokio's blocking pool, and two-disk-operation histories
    /// of depth 5 alone were half of the run time; depth ≤ 4 and the pre-state subjects keep two
    pub lean: bool,
}

/// A corrupted list (self-loop) would make the walk endless: the callback unwinds out of it.
const WALK_LIMIT: usize = 64;

fn observe(m: &LruManager) -> (usize, Vec<String>, [bool; 4]) {
    let mut order = Vec::new();
    m.for_each_entry(|k| {
        order.push(key_name(k));
        assert!(order.len() <= WALK_LIMIT, "for_each_entry visited more than {WALK_LIMIT} entries: the list has a cycle");
    });
    let mut c = [false; 4];
    for i in 0..4u8 {
        c[i as usize] = m.contains(&key(i));
    }
    (m.len(), order, c)
}

impl SeqSubject for Subject {
    type Op = Op;
    fn config_name(&self) -> String {
        if self.pre.is_empty() {
            format!("LruManager(capacity={})", self.cap)
        } else {
            format!("LruManager(capacity={}) after {:?}", self.cap, self.pre)
        }
    }
    fn sig_config(&self) -> String {
        // capacity is not part of the signature unless it is the degenerate 0
        let c = if self.cap == 0 { "cap0" } else { "cap>=1" };
        if self.pre.is_empty() { c.to_string() } else { format!("{c},pre={:?}", self.pre) }
    }
    fn alphabet(&self) -> Vec<Op> {
        let mut a = Vec::new();
        for k in 0..4 {
            a.push(Op::Touch(k));
        }
        for k in 0..4 {
            a.push(Op::Remove(k));
        }
        a.push(Op::EvictTail);
        let mut ns = vec![1u8, 2, self.cap as u8];
        ns.sort_unstable();
        ns.dedup();
        for n in &ns {
            if *n > 0 {
                a.push(Op::EvictToTarget(*n));
            }
        }
        a.push(Op::BumpGen);
        a.push(Op::Checkpoint);
        a.push(Op::LoadLatest);
        let mut ls = vec![0u8, 1, self.cap as u8];
        ls.sort_unstable();
        ls.dedup();
        for n in ls {
            a.push(Op::RunCycle(n));
        }
        a.push(Op::Reset);
        a.push(Op::Shutdown);
        a
    }
    fn admissible(&self, hist: &[Op]) -> bool {
        let d = hist.iter().filter(|o| o.is_disk()).count();
        d <= 2 && !(self.lean && hist.len() >= 5 && d > 1)
    }
    fn canon(&self, hist: &[Op]) -> String {
        // rename the three non-zero keys by first occurrence; the zero key keeps its identity
        let mut names: Vec<u8> = Vec::new();
        let mut nm = |k: u8| -> String {
            if k == 3 {
                return "Z".into();
            }
            let p = match names.iter().position(|x| *x == k) {
                Some(p) => p,
                None => {
                    names.push(k);
                    names.len() - 1
                }
            };
            ["a", "b", "c"][p].to_string()
        };
        let parts: Vec<String> = hist
            .iter()
            .map(|o| match o {
                Op::Touch(k) => format!("touch({})", nm(*k)),
                Op::Remove(k) => format!("remove({})", nm(*k)),
                other => format!("{other:?}"),
            })
            .collect();
        parts.join(";")
    }

    fn run(&self, suffix: &[Op]) -> SeqRun {
        let npre = self.pre.len();
        let full: Vec<Op> = self.pre.iter().cloned().chain(suffix.iter().cloned()).collect();
        let hist: &[Op] = &full;
        let needs_disk = hist.iter().any(Op::is_disk);
        let scratch = if needs_disk { Some(Scratch::new("c17")) } else { None };
        let dir = scratch.as_ref().map(|s| s.path.clone()).unwrap_or_else(|| "/nonexistent-c17".into());
        let mut imp = LruManager::new(self.cap, dir.clone());
        let mut model = Model::new(self.cap as usize);
        let mut calls = 0u64;
        let mut obs_log = String::new();

        let fail = |i: usize, kind: &str, detail: String, calls: u64| SeqRun {
            // index into the history proper (a violation inside the pre-state counts as op 0)
            violation: Some((i.saturating_sub(npre), kind.to_string(), if i < npre { format!("[inside the pre-state, op {i}] {detail}") } else { detail })),
            state_key: None,
            outcome: 0,
            calls,
        };

        for (i, op) in hist.iter().enumerate() {
            calls += 1;
            match op {
                Op::Touch(k) => {
                    let r = imp.touch(&key(*k));
                    let e = model.touch(*k);
                    if r != e {
                        return fail(i, "touch-result", format!("touch(k{k}) returned {r}, textbook LRU says {e}"), calls);
                    }
                }
                Op::Remove(k) => {
                    let r = imp.remove(&key(*k));
                    let e = model.remove(*k);
                    if r != e {
                        return fail(i, "remove-result", format!("remove(k{k}) returned {r}, model {e}"), calls);
                    }
                }
                Op::EvictTail => {
                    let r = imp.evict_tail().is_some();
                    let e = model.lru.pop_front().is_some();
                    if r != e {
                        return fail(i, "evict-tail-result", format!("evict_tail returned is_some={r}, model {e}"), calls);
                    }
                }
                Op::EvictToTarget(n) => {
                    let r = imp.evict_to_target(u64::from(*n) * AVG, AVG);
                    let e = model.evict_to_target(u64::from(*n) * AVG, AVG);
                    if r != e {
                        return fail(i, "evict-to-target-result", format!("evict_to_target returned {r:?}, model {e:?}"), calls);
                    }
                }
                Op::BumpGen => {
                    imp.bump_generation();
                    model.bump();
                }
                Op::Checkpoint => {
                    let r = block_on(imp.checkpoint_to_disk());
                    if let Err(e) = r {
                        return fail(i, "checkpoint-error", format!("checkpoint_to_disk failed: {e}"), calls);
                    }
                    model.checkpoint();
                    // an acknowledged checkpoint exists on disk
                    let p = cascette_client_storage::lru::lru_file::lru_file_path(&dir, imp.generation());
                    if !p.exists() {
                        return fail(i, "checkpoint-lost", format!("checkpoint_to_disk returned Ok but {} does not exist", p.display()), calls);
                    }
                }
                Op::LoadLatest => {
                    let latest = LruManager::find_latest_lru_file(&dir);
                    let m_has = model.files.keys().next_back().copied();
                    if latest.as_ref().map(|(g, _)| *g) != m_has {
                        return fail(i, "latest-file", format!("find_latest_lru_file = {:?}, model says generation {:?}", latest.as_ref().map(|(g, _)| *g), m_has), calls);
                    }
                    if let Some((g, _)) = latest {
                        if let Err(e) = block_on(imp.load_from_disk(g)) {
                            return fail(i, "load-error", format!("load_from_disk({g}) failed: {e}"), calls);
                        }
                        model.load_latest();
                    }
                }
                Op::RunCycle(n) => {
                    let limit = u64::from(*n) * AVG;
                    let r = block_on(imp.run_cycle(limit, AVG));
                    let stats = match r {
                        Ok(s) => s,
                        Err(e) => return fail(i, "run-cycle-error", format!("run_cycle failed: {e}"), calls),
                    };
                    model.load_latest();
                    if limit > 0 {
                        let cur = model.lru.len() as u64 * AVG;
                        if cur > limit {
                            model.evict_to_target(cur - limit, AVG);
                        }
                    }
                    model.scan();
                    if stats.active_entries != model.lru.len() {
                        return fail(i, "run-cycle-active", format!("run_cycle reports {} active entries, model {}", stats.active_entries, model.lru.len()), calls);
                    }
                }
                Op::Reset => {
                    imp.reset();
                    model.lru.clear();
                }
                Op::Shutdown => {
                    if let Err(e) = block_on(imp.shutdown()) {
                        return fail(i, "shutdown-error", format!("shutdown failed: {e}"), calls);
                    }
                    model.bump();
                    model.checkpoint();
                    model.scan();
                }
            }
            // state oracle after every operation
            let (len, order, contains) = match crate::util::catch(|| observe(&imp)) {
                Ok(x) => x,
                Err(p) => return fail(i, "list-walk-panics", format!("after {op:?}: walking the list panicked: {p}"), calls),
            };
            calls += 6;
            let m_order: Vec<String> = model.lru.iter().map(|k| format!("k{k}")).collect();
            if imp.capacity() != self.cap {
                return fail(i, "capacity-changed", format!("capacity() = {} after {op:?}, configured {}", imp.capacity(), self.cap), calls);
            }
            if len > self.cap as usize {
                return fail(i, "over-capacity", format!("len() = {len} > capacity {}", self.cap), calls);
            }
            if len != model.lru.len() {
                return fail(i, "len-mismatch", format!("after {op:?}: len() = {len}, textbook LRU holds {m_order:?}"), calls);
            }
            if order != m_order {
                return fail(i, "order-mismatch", format!("after {op:?}: for_each_entry (tail→head) = {order:?}, textbook LRU = {m_order:?}"), calls);
            }
            for k in 0..4u8 {
                let e = model.lru.contains(&k);
                if contains[k as usize] != e {
                    return fail(i, "contains-mismatch", format!("after {op:?}: contains(k{k}) = {}, model {e}", contains[k as usize]), calls);
                }
            }
            if let Op::Touch(k) = op {
                if self.cap >= 1 && order.last().map(String::as_str) != Some(&format!("k{k}")) {
                    return fail(i, "touch-not-mru", format!("touch(k{k}) did not leave the key most recent: {order:?}"), calls);
                }
            }
            obs_log.push_str(&format!("{len}{order:?}{contains:?};"));
        }
        SeqRun { violation: None, state_key: None, outcome: fnv64_str(&obs_log), calls }
    }
}

pub fn run(tier: Tier, seed: u64) -> i32 {
    let rep = Report::new("C17", tier, seed, Level::ModelChecking);
    rep.set_rule(
        "every admissible history (≤2 disk operations) up to the depth bound over the op alphabet × 4 keys (one all-zero) per capacity — from the empty tracker and (depth 3 / 5) from two checkpointed pre-states — executed on the real LruManager in lock-step with a textbook LRU; no state merging (free list is hidden state), so states = histories; every history is distinct and non-trivial (≥1 operation)",
    );
    rep.assume("reference model: VecDeque LRU + generation→snapshot map following the documented checkpoint protocol (write current generation, delete previous, scan keeps current+previous)");
    rep.assume("checkpoint files live on tmpfs; crash behaviour is C06's subject, not this check's");
    let depth = tier.pick(5, 6);
    let mut completed = Vec::new();
    for cap in [1u32, 2, 3] {
        let s = Subject { cap, pre: Vec::new(), lean: tier == Tier::Quick };
        let st = explore(&s, &SeqBounds::depth(depth).with_budget(tier.pick(40, 900)), &rep);
        completed.push(serde_json::json!({"capacity": cap, "depth_completed": st.completed_depth, "histories": st.histories, "violating_histories": st.violations}));
    }
    // non-initial start states: a checkpoint exists already (with and without a later generation bump)
    let pre_depth = tier.pick(3, 5);
    for cap in [2u32, 3] {
        for pre in [vec![Op::Touch(0), Op::Touch(1), Op::Checkpoint], vec![Op::Touch(0), Op::Touch(1), Op::Touch(2), Op::Checkpoint, Op::BumpGen]] {
            let s = Subject { cap, pre: pre.clone(), lean: false };
            let st = explore(&s, &SeqBounds::depth(pre_depth).with_budget(tier.pick(20, 600)), &rep);
            completed.push(serde_json::json!({"capacity": cap, "pre_state": format!("{pre:?}"), "depth_completed": st.completed_depth, "histories": st.histories, "violating_histories": st.violations}));
        }
    }
    // capacity 0: the "capacity at least one" boundary — touch must return false, nothing may panic
    let s0 = Subject { cap: 0, pre: Vec::new(), lean: false };
    let st = explore(&s0, &SeqBounds::depth(3), &rep);
    completed.push(serde_json::json!({"capacity": 0, "depth_completed": st.completed_depth, "histories": st.histories, "violating_histories": st.violations}));
    rep.extra("bounds", serde_json::json!({"depth": depth, "max_disk_ops_per_history": if tier == Tier::Quick { "2 up to depth 4 and from the pre-states, 1 at depth 5" } else { "2" }, "capacities": [0, 1, 2, 3], "keys": 4, "per_capacity": completed}));
    if rep.outcomes() < 10 {
        rep.machinery_error("vacuous exploration: fewer than 10 distinct outcomes");
    }
    rep.finish()
}

/// Replay a witness (`core_ops` strings are informational; the Debug form is parsed here).
pub fn replay(w: &serde_json::Value) -> i32 {
    let cfg = w["witness"]["config"].as_str().unwrap_or("");
    let (cap_part, pre_part) = match cfg.split_once(" after ") {
        Some((c, p)) => (c, p),
        None => (cfg, ""),
    };
    let cap: u32 = cap_part.trim_start_matches("LruManager(capacity=").trim_end_matches(')').parse().unwrap_or(2);
    let pre: Vec<Op> = pre_part.trim_matches(['[', ']']).split(", ").filter_map(parse_op).collect();
    let ops: Vec<Op> = w["witness"]["core_ops"]
        .as_array()
        .map(|a| a.iter().filter_map(|s| parse_op(s.as_str().unwrap_or(""))).collect())
        .unwrap_or_default();
    println!("replaying on LruManager(capacity={cap}) after {pre:?}: {ops:?}");
    let r = Subject { cap, pre, lean: false }.run(&ops);
    match r.violation {
        Some((i, k, d)) => {
            println!("violates at op {i}: {k}: {d}");
            1
        }
        None => {
            println!("no violation");
            0
        }
    }
}

fn parse_op(s: &str) -> Option<Op> {
    let num = |s: &str| -> Option<u8> { s.split(['(', ')']).nth(1)?.parse().ok() };
    Some(if s.starts_with("Touch") {
        Op::Touch(num(s)?)
    } else if s.starts_with("Remove") {
        Op::Remove(num(s)?)
    } else if s == "EvictTail" {
        Op::EvictTail
    } else if s.starts_with("EvictToTarget") {
        Op::EvictToTarget(num(s)?)
    } else if s == "BumpGen" {
        Op::BumpGen
    } else if s == "Checkpoint" {
        Op::Checkpoint
    } else if s == "LoadLatest" {
        Op::LoadLatest
    } else if s.starts_with("RunCycle") {
        Op::RunCycle(num(s)?)
    } else if s == "Reset" {
        Op::Reset
    } else if s == "Shutdown" {
        Op::Shutdown
    } else {
        return None;
    })
}
