//! C06 — a crash at any point of a save leaves old or new state, never a broken one.
//!
//! CRASH engine (src/crash.rs): the real save routine runs in a driver process under
//! `strace`; every crash point × durable name-space prefix × torn/zero/stale variant of
//! every un-synced write is materialised as a directory and recovered with the real loader.
//! Oracle: the load succeeds and every object's logical state is the one before the save
//! or the one after it.

use crate::crash::{self, Capture, CrashState, DirImage, FsOp};
use crate::props::c11::SKey;
use crate::report::{Level, Report, Tier};
use crate::util::{Scratch, block_on, catch, par_map};
use bytes::Bytes;
use cascette_cache::DiskCache;
use cascette_cache::config::DiskCacheConfig;
use cascette_cache::traits::AsyncCache;
use cascette_client_storage::index::IndexManager;
use cascette_client_storage::kmt::key_state::ResidencyDb;
use cascette_client_storage::lru::LruManager;
use cascette_crypto::EncodingKey;
use serde_json::json;
use std::collections::BTreeMap;
use std::path::Path;
use std::process::Command;
use std::time::Duration;

// ------------------------------------------------------------------ key universes

fn ikey(i: usize) -> [u8; 16] {
    // k0 and k1 fall into the same bucket (xor of the first nine bytes equal), k2 into another
    match i {
        0 => [0x10, 0, 0, 0, 0, 0, 0, 0, 0x01, 1, 1, 1, 1, 1, 1, 1],
        1 => [0x01, 0, 0, 0, 0, 0, 0, 0, 0x10, 2, 2, 2, 2, 2, 2, 2],
        _ => [0x20, 0, 0, 0, 0, 0, 0, 0, 0x05, 3, 3, 3, 3, 3, 3, 3],
    }
}
fn lkey(i: usize) -> [u8; 9] {
    [0x40 + i as u8, 1, 2, 3, 4, 5, 6, 7, 8]
}
fn rkey(i: usize) -> [u8; 16] {
    let mut k = [0x33u8; 16];
    k[0] = i as u8 + 1;
    k[15] = i as u8;
    k
}
fn dval(v: &str) -> Bytes {
    let n = match v {
        "a" => 5,
        "b" => 700,
        // at the size from which the cache reads through a memory map ("large file")
        "L" => 16 * 1024 * 1024 + 4321,
        _ => 5000,
    };
    Bytes::from(v.as_bytes()[..1].repeat(n))
}
const DKEYS: [&str; 2] = ["k", "x.y"];
const DYN_OBJS: [&str; 3] = ["A", "B", "C"];

fn dyn_obj(v: &str) -> Vec<u8> {
    let n = match v {
        "A" => 1000,
        "B" => 100,
        _ => 5000,
    };
    (0..n).map(|i| (i as u8).wrapping_mul(13).wrapping_add(v.as_bytes()[0])).collect()
}

// ------------------------------------------------------------------ driver side

fn exec_ops(routine: &str, root: &Path, ops: &[&str], state: &mut DriverState) -> Result<(), String> {
    for op in ops {
        if op.is_empty() {
            continue;
        }
        let p: Vec<&str> = op.split(':').collect();
        match (routine, p[0]) {
            ("index", "add") => {
                let k = ikey(p[1].parse().unwrap());
                let (a, o, s): (u16, u32, u32) = match p[2] {
                    "A" => (0, 0, 1),
                    "B" => (1023, (1 << 30) - 1, u32::MAX),
                    _ => (1, 4096, 100),
                };
                state.index.as_mut().unwrap().add_entry(&EncodingKey::from_bytes(k), a, o, s).map_err(|e| e.to_string())?;
            }
            ("index", "rm") => {
                let k = ikey(p[1].parse().unwrap());
                state.index.as_mut().unwrap().remove_entry(&EncodingKey::from_bytes(k));
            }
            ("index", "flush") => state.index.as_mut().unwrap().flush_all_updates().map_err(|e| e.to_string())?,
            ("index", "save") => state.index.as_ref().unwrap().save_all().map_err(|e| e.to_string())?,
            ("residency", "mark") => state.res.as_mut().unwrap().mark_resident(&rkey(p[1].parse().unwrap())),
            ("residency", "unmark") => state.res.as_mut().unwrap().mark_non_resident(&rkey(p[1].parse().unwrap())),
            ("residency", "save") => state.res.as_mut().unwrap().save().map_err(|e| e.to_string())?,
            ("lru", "touch") => {
                state.lru.as_mut().unwrap().touch(&lkey(p[1].parse().unwrap()));
            }
            ("lru", "rm") => {
                state.lru.as_mut().unwrap().remove(&lkey(p[1].parse().unwrap()));
            }
            ("lru", "bump") => state.lru.as_mut().unwrap().bump_generation(),
            ("lru", "ckpt") => block_on(state.lru.as_mut().unwrap().checkpoint_to_disk()).map_err(|e| e.to_string())?,
            ("lru", "shutdown") => block_on(state.lru.as_mut().unwrap().shutdown()).map_err(|e| e.to_string())?,
            ("disk" | "diskbg" | "diskbgfast", "put") => {
                let c = state.disk.as_ref().unwrap();
                block_on(c.put(SKey(p[1].to_string()), dval(p[2]))).map_err(|e| e.to_string())?;
            }
            ("dyn", "w") => {
                use cascette_client_storage::container::Container;
                let data = dyn_obj(p[1]);
                let key = crate::props::c04::ekey_n(&data);
                block_on(state.dynamic.as_ref().unwrap().write(&key, &data)).map_err(|e| e.to_string())?;
            }
            ("dyn", "rm") => {
                use cascette_client_storage::container::Container;
                let data = dyn_obj(p[1]);
                let key = crate::props::c04::ekey_n(&data);
                block_on(state.dynamic.as_ref().unwrap().remove(&key)).map_err(|e| e.to_string())?;
            }
            ("disk" | "diskbg" | "diskbgfast", "rm") => {
                let c = state.disk.as_ref().unwrap();
                block_on(c.remove(&SKey(p[1].to_string()))).map_err(|e| e.to_string())?;
            }
            _ => return Err(format!("unknown op {op} for {routine}")),
        }
    }
    let _ = root;
    Ok(())
}

#[derive(Default)]
struct DriverState {
    index: Option<IndexManager>,
    res: Option<ResidencyDb>,
    lru: Option<LruManager>,
    disk: Option<DiskCache<SKey>>,
    dynamic: Option<cascette_client_storage::container::DynamicContainer>,
}

fn copy_dir(from: &Path, to: &Path) {
    DirImage::read(from).write(to);
}

/// `vcheck crash-driver <routine> <root> <old_snapshot> "<pre ops>|<save ops>"`
pub fn driver_main(args: &[String]) -> i32 {
    let routine = args[0].as_str();
    let root = Path::new(&args[1]);
    let snap = Path::new(&args[2]);
    let (pre, save) = args[3].split_once('|').unwrap_or(("", &args[3]));
    std::fs::create_dir_all(root).unwrap();
    let mut st = DriverState::default();
    match routine {
        "index" => st.index = Some(IndexManager::new(root)),
        "residency" => st.res = Some(ResidencyDb::new(root.join("residency.db"))),
        "lru" => st.lru = Some(LruManager::new(3, root.to_path_buf())),
        "dyn" => {
            let c = cascette_client_storage::container::DynamicContainer::builder(root.to_path_buf()).build().expect("container");
            block_on(c.open()).expect("open container");
            st.dynamic = Some(c);
        }
        "disk" => {
            st.disk = Some(
                DiskCache::new(DiskCacheConfig::new(root.to_path_buf()).with_default_ttl(Duration::from_secs(3600)).with_subdirectories(false, 1))
                    .expect("disk cache"),
            );
        }
        // the constructor the multi-layer cache uses: periodic cleanup and sync tasks exist (they
        // run on this thread's runtime, i.e. only while an operation is in progress; their first
        // tick fires at once, the next ones after 30 s / 5 min, which no scenario lasts)
        "diskbg" => {
            let cfg = DiskCacheConfig::new(root.to_path_buf()).with_default_ttl(Duration::from_secs(3600)).with_subdirectories(false, 1);
            st.disk = Some(block_on(async { DiskCache::new_with_background_tasks(cfg) }).expect("disk cache with background tasks"));
        }
        // the same constructor with a configuration value nothing in the repository sets: a
        // periodic sync every second (the smallest interval the configuration accepts in whole
        // seconds). A periodic sync is no substitute for the sync before the rename.
        "diskbgfast" => {
            let mut cfg = DiskCacheConfig::new(root.to_path_buf()).with_default_ttl(Duration::from_secs(3600)).with_subdirectories(false, 1);
            cfg.sync_interval = Duration::from_secs(1);
            st.disk = Some(block_on(async { DiskCache::new_with_background_tasks(cfg) }).expect("disk cache with background tasks (sync every second)"));
        }
        _ => return 2,
    }
    let pre_ops: Vec<&str> = pre.split(';').collect();
    if let Err(e) = exec_ops(routine, root, &pre_ops, &mut st) {
        eprintln!("pre-history failed: {e}");
        return 3;
    }
    copy_dir(root, snap);
    crash::mark(crash::MARK_BEGIN);
    let save_ops: Vec<&str> = save.split(';').collect();
    let r = exec_ops(routine, root, &save_ops, &mut st);
    crash::mark(crash::MARK_END);
    if let Err(e) = r {
        eprintln!("save failed: {e}");
        return 4;
    }
    0
}

// ------------------------------------------------------------------ recovery (real loaders)

/// Logical state per object, or a load error.
pub fn observe(routine: &str, dir: &Path) -> Result<BTreeMap<String, String>, String> {
    let r = catch(|| -> Result<BTreeMap<String, String>, String> {
        let mut out = BTreeMap::new();
        match routine {
            "index" => {
                let mut m = IndexManager::new(dir);
                block_on(m.load_all()).map_err(|e| format!("load_all: {e}"))?;
                for i in 0..3 {
                    let k = EncodingKey::from_bytes(ikey(i));
                    let b = IndexManager::bucket_for_key(&k);
                    let v = m.lookup(&k).map(|e| format!("({},{},{})", e.archive_id(), e.archive_offset(), e.size));
                    let has = m.has_entry(&k);
                    let cell: &mut String = out.entry(format!("bucket-{b:02x}")).or_default();
                    cell.push_str(&format!("k{i}={v:?}/has={has};"));
                }
                let mut listing: BTreeMap<u8, Vec<String>> = BTreeMap::new();
                for (b, e) in m.iter_entries() {
                    listing.entry(b).or_default().push(format!("{}@({},{},{})", hex::encode(e.key), e.archive_id(), e.archive_offset(), e.size));
                }
                for (b, mut l) in listing {
                    l.sort();
                    out.entry(format!("bucket-{b:02x}")).or_default().push_str(&format!("entries={l:?}"));
                }
            }
            "residency" => {
                let db = ResidencyDb::load(&dir.join("residency.db")).map_err(|e| format!("ResidencyDb::load: {e}"))?;
                let mut s = String::new();
                for i in 0..3 {
                    s.push_str(&format!("r{i}={};", db.is_resident(&rkey(i))));
                }
                let mut keys: Vec<String> = db.scan_keys().iter().map(hex::encode).collect();
                keys.sort();
                s.push_str(&format!("scan={keys:?}"));
                out.insert("residency".into(), s);
            }
            "lru" => {
                let mut m = LruManager::new(3, dir.to_path_buf());
                block_on(m.run_cycle(0, 100)).map_err(|e| format!("run_cycle: {e}"))?;
                let mut order = Vec::new();
                m.for_each_entry(|k| {
                    order.push(hex::encode(k));
                    assert!(order.len() <= 64, "for_each_entry does not terminate: the list has a cycle");
                });
                out.insert("lru".into(), format!("{order:?}"));
            }
            "dyn" => {
                use cascette_client_storage::container::Container;
                let c = cascette_client_storage::container::DynamicContainer::builder(dir.to_path_buf()).build().map_err(|e| format!("build: {e}"))?;
                block_on(c.open()).map_err(|e| format!("open: {e}"))?;
                for v in DYN_OBJS {
                    let data = dyn_obj(v);
                    let key = crate::props::c04::ekey_n(&data);
                    let q = block_on(c.query(&key)).map_err(|e| format!("query({v}): {e}"))?;
                    let mut buf = vec![0u8; data.len() + 16];
                    let r = match block_on(c.read(&key, 0, data.len() as u32, &mut buf)) {
                        Ok(n) if buf[..n] == data[..] => "bytes-ok".to_string(),
                        Ok(n) => format!("WRONG-BYTES({n})"),
                        Err(cascette_client_storage::StorageError::NotFound(_)) => "absent".to_string(),
                        // an indexed object that cannot be read back is a broken state, not old or new
                        Err(e) => format!("UNREADABLE({e})"),
                    };
                    out.insert(format!("object-{v}"), format!("query={q} read={r}"));
                }
            }
            "disk" | "diskbg" | "diskbgfast" => {
                let c: DiskCache<SKey> = DiskCache::new(DiskCacheConfig::new(dir.to_path_buf()).with_default_ttl(Duration::from_secs(3600)).with_subdirectories(false, 1))
                    .map_err(|e| format!("DiskCache::new: {e}"))?;
                for k in DKEYS {
                    let v = block_on(c.get(&SKey(k.to_string()))).map_err(|e| format!("get({k}): {e}"))?;
                    let d = match v {
                        None => "None".to_string(),
                        Some(b) => {
                            let known = ["a", "b", "c", "L"].iter().find(|n| dval(n) == b);
                            match known {
                                Some(n) => format!("Some({n})"),
                                None => format!("Some(<{} bytes, not a value that was ever put>)", b.len()),
                            }
                        }
                    };
                    out.insert(format!("key-{k}"), d);
                }
            }
            _ => return Err("unknown routine".into()),
        }
        Ok(out)
    });
    match r {
        Ok(x) => x,
        Err(p) => Err(format!("PANIC: {p}")),
    }
}

/// One more acknowledged save of the same kind on a recovered directory: "old or new, never a
/// broken one" includes that the store still takes the next save (a leftover of the interrupted
/// one — a temp file, a half-written generation — must not be in its way). Returns the observed
/// state after a further reopen.
pub fn followup(routine: &str, dir: &Path) -> Result<(), String> {
    let r = catch(|| -> Result<(), String> {
        match routine {
            "index" => {
                let mut m = IndexManager::new(dir);
                block_on(m.load_all()).map_err(|e| format!("load_all: {e}"))?;
                // one key per bucket the scenarios use (k0/k1 share one, k2 has its own)
                let extra: [[u8; 16]; 2] = [[0x11, 0, 0, 0, 0, 0, 0, 0, 0, 9, 9, 9, 9, 9, 9, 9], [0x25, 0, 0, 0, 0, 0, 0, 0, 0, 8, 8, 8, 8, 8, 8, 8]];
                for k in &extra {
                    m.add_entry(&EncodingKey::from_bytes(*k), 2, 64, 10).map_err(|e| format!("add_entry: {e}"))?;
                }
                m.save_all().map_err(|e| format!("save_all: {e}"))?;
                let mut m2 = IndexManager::new(dir);
                block_on(m2.load_all()).map_err(|e| format!("load_all after the next save: {e}"))?;
                for k in &extra {
                    if m2.lookup(&EncodingKey::from_bytes(*k)).is_none() {
                        return Err("an entry added and saved after the recovery is not found by the next instance".into());
                    }
                }
            }
            "residency" => {
                let path = dir.join("residency.db");
                let mut db = if path.exists() { ResidencyDb::load(&path).map_err(|e| format!("ResidencyDb::load: {e}"))? } else { ResidencyDb::new(path.clone()) };
                db.mark_resident(&rkey(7));
                db.save().map_err(|e| format!("save: {e}"))?;
                let db2 = ResidencyDb::load(&path).map_err(|e| format!("ResidencyDb::load after the next save: {e}"))?;
                if !db2.is_resident(&rkey(7)) {
                    return Err("a key marked and saved after the recovery is not resident for the next instance".into());
                }
            }
            "lru" => {
                let mut m = LruManager::new(3, dir.to_path_buf());
                block_on(m.run_cycle(0, 100)).map_err(|e| format!("run_cycle: {e}"))?;
                m.touch(&lkey(7));
                block_on(m.checkpoint_to_disk()).map_err(|e| format!("checkpoint_to_disk: {e}"))?;
                let mut m2 = LruManager::new(3, dir.to_path_buf());
                block_on(m2.run_cycle(0, 100)).map_err(|e| format!("run_cycle after the next checkpoint: {e}"))?;
                let mut found = false;
                let mut n = 0;
                m2.for_each_entry(|k| {
                    n += 1;
                    assert!(n <= 64, "for_each_entry does not terminate: the list has a cycle");
                    if *k == lkey(7) {
                        found = true;
                    }
                });
                if !found {
                    return Err("a key touched and checkpointed after the recovery is not in the next instance's list".into());
                }
            }
            "disk" | "diskbg" | "diskbgfast" => {
                let cfg = || DiskCacheConfig::new(dir.to_path_buf()).with_default_ttl(Duration::from_secs(3600)).with_subdirectories(false, 1);
                let c: DiskCache<SKey> = DiskCache::new(cfg()).map_err(|e| format!("DiskCache::new: {e}"))?;
                for k in DKEYS {
                    block_on(c.put(SKey(k.to_string()), dval("c"))).map_err(|e| format!("put({k}): {e}"))?;
                }
                drop(c);
                let c2: DiskCache<SKey> = DiskCache::new(cfg()).map_err(|e| format!("DiskCache::new: {e}"))?;
                for k in DKEYS {
                    if block_on(c2.get(&SKey(k.to_string()))).map_err(|e| format!("get({k}): {e}"))? != Some(dval("c")) {
                        return Err(format!("the value put for {k} after the recovery is not what the next instance reads"));
                    }
                }
            }
            _ => {}
        }
        Ok(())
    });
    match r {
        Ok(x) => x,
        Err(p) => Err(format!("PANIC: {p}")),
    }
}

// ------------------------------------------------------------------ scenarios

pub struct Scenario {
    pub routine: &'static str,
    pub pre: String,
    pub save: String,
}

fn scenarios(tier: Tier) -> Vec<Scenario> {
    let mut v = Vec::new();
    let mk = |routine: &'static str, pre: &str, save: &str| Scenario { routine, pre: pre.to_string(), save: save.to_string() };
    // index
    let ipre: Vec<&str> = match tier {
        Tier::Quick => vec!["", "add:0:A;save", "add:0:A;add:2:C;save"],
        Tier::Thorough => vec!["", "add:0:A;save", "add:0:A;add:2:C;save", "add:0:A;flush;save", "add:0:A;add:1:B;flush;add:2:C;save", "add:0:A;save;rm:0;save"],
    };
    let isave: Vec<&str> = match tier {
        Tier::Quick => vec!["add:1:B;save", "rm:0;save", "add:0:B;flush;save"],
        Tier::Thorough => vec!["add:1:B;save", "rm:0;save", "add:0:B;flush;save", "add:1:B;add:2:A;save", "flush;save", "add:0:C;save", "rm:0;add:1:C;flush;save"],
    };
    for p in &ipre {
        for s in &isave {
            v.push(mk("index", p, s));
        }
    }
    // residency
    let rpre: Vec<&str> = match tier {
        Tier::Quick => vec!["", "mark:0;save"],
        Tier::Thorough => vec!["", "mark:0;save", "mark:0;mark:1;save", "mark:0;save;unmark:0;save"],
    };
    let rsave: Vec<&str> = match tier {
        // two keys in different bucket pages: a prefix of the file shows one of them only
        Tier::Quick => vec!["mark:1;save", "unmark:0;save", "mark:1;mark:2;save"],
        Tier::Thorough => vec!["mark:1;save", "unmark:0;save", "mark:1;mark:2;save", "mark:0;save", "unmark:0;mark:2;save"],
    };
    for p in &rpre {
        for s in &rsave {
            v.push(mk("residency", p, s));
        }
    }
    // lru
    let lpre: Vec<&str> = match tier {
        Tier::Quick => vec!["", "touch:0;ckpt", "touch:0;touch:1;shutdown"],
        Tier::Thorough => vec!["", "touch:0;ckpt", "touch:0;touch:1;shutdown", "touch:0;ckpt;bump;touch:1;ckpt", "touch:0;shutdown;touch:1;shutdown"],
    };
    let lsave: Vec<&str> = match tier {
        Tier::Quick => vec!["touch:1;bump;ckpt", "touch:2;shutdown", "touch:1;ckpt"],
        Tier::Thorough => vec!["touch:1;bump;ckpt", "touch:2;shutdown", "touch:1;ckpt", "rm:0;bump;ckpt", "touch:0;touch:1;touch:2;shutdown", "bump;ckpt"],
    };
    for p in &lpre {
        for s in &lsave {
            v.push(mk("lru", p, s));
        }
    }
    // dynamic container: write appends to the archive and saves the index; remove saves the index
    let ypre: Vec<&str> = match tier {
        Tier::Quick => vec!["", "w:A"],
        Tier::Thorough => vec!["", "w:A", "w:A;w:B", "w:A;rm:A", "w:B"],
    };
    // one acknowledged operation per window: write and remove each persist before they return, so a
    // window of two of them has a legitimate intermediate state that is neither old nor new
    let ysave: Vec<&str> = match tier {
        Tier::Quick => vec!["w:B", "rm:A"],
        Tier::Thorough => vec!["w:B", "rm:A", "w:C", "w:A", "rm:B"],
    };
    for p in &ypre {
        for s in &ysave {
            v.push(mk("dyn", p, s));
        }
    }
    // disk cache
    let dpre: Vec<&str> = match tier {
        Tier::Quick => vec!["", "put:k:a"],
        Tier::Thorough => vec!["", "put:k:a", "put:k:a;put:x.y:b", "put:k:c"],
    };
    let dsave: Vec<&str> = match tier {
        Tier::Quick => vec!["put:k:b", "put:x.y:a"],
        Tier::Thorough => vec!["put:k:b", "put:x.y:a", "put:k:c", "put:k:a", "rm:k"],
    };
    for p in &dpre {
        for s in &dsave {
            v.push(mk("disk", p, s));
        }
    }
    // a value of the "large file" size class, and the instance built with its background tasks
    v.push(mk("diskbg", "put:k:a", "put:k:L"));
    v.push(mk("disk", "put:k:a", "put:k:L"));
    // the tasks' first ticks fire during the pre-history put, outside the judged window
    v.push(mk("diskbgfast", "put:k:a", "put:k:b"));
    if tier == Tier::Thorough {
        v.push(mk("diskbgfast", "put:k:a", "put:x.y:a"));
        v.push(mk("diskbgfast", "put:k:a", "put:k:L"));
        v.push(mk("diskbg", "", "put:k:L"));
        v.push(mk("diskbg", "put:k:L", "put:k:b"));
        v.push(mk("diskbg", "put:k:a", "put:k:b"));
        v.push(mk("disk", "put:k:L", "put:k:b"));
    }
    v
}

fn variant_class(cs: &CrashState) -> String {
    let mut parts: Vec<String> = cs
        .variants
        .iter()
        .map(|(_, v)| match v {
            crash::DataVariant::Prefix(p) => format!("prefix{p}"),
            crash::DataVariant::Torn(p, _, z) => format!("torn-after{p}{}", if *z { "-zero-tail" } else { "" }),
        })
        .collect();
    parts.sort();
    parts.dedup();
    parts.join("+")
}

fn op_class(op: &FsOp) -> String {
    // paths: keep only the extension class so that signatures do not depend on bucket numbers
    let ext = |p: &Path| p.extension().map(|e| e.to_string_lossy().to_string()).unwrap_or_else(|| "noext".into());
    match op {
        FsOp::Create { path, .. } => format!("create(.{})", ext(path)),
        FsOp::Mkdir { .. } => "mkdir".into(),
        FsOp::Rmdir { .. } => "rmdir".into(),
        FsOp::Rename { from, to } => format!("rename(.{}->.{})", ext(from), ext(to)),
        FsOp::Unlink { path } => format!("unlink(.{})", ext(path)),
        FsOp::Trunc { .. } => "truncate".into(),
        FsOp::Write { .. } => "write".into(),
        FsOp::Fsync { .. } => "fsync".into(),
    }
}

fn run_scenario(sc: &Scenario, rep: &Report, max_states: usize) -> Result<serde_json::Value, String> {
    let scratch = Scratch::new("c06");
    let root = scratch.path.join("root");
    let snap = scratch.path.join("old");
    let log = scratch.path.join("strace.log");
    let exe = std::env::current_exe().map_err(|e| e.to_string())?;
    let mut cmd = Command::new(exe);
    cmd.arg("crash-driver").arg(sc.routine).arg(&root).arg(&snap).arg(format!("{}|{}", sc.pre, sc.save));
    let cap: Capture = crash::capture(&mut cmd, &root, &snap, &log)?;
    if !cap.unsupported.is_empty() {
        return Err(format!("I/O not modelled by the CRASH engine: {:?}", cap.unsupported));
    }
    // self-check of the log interpretation
    let full = crash::full_apply(&cap);
    if full != cap.final_image {
        let diff: Vec<String> = cap
            .final_image
            .files
            .keys()
            .chain(full.files.keys())
            .filter(|p| cap.final_image.files.get(*p) != full.files.get(*p))
            .map(|p| p.display().to_string())
            .collect();
        return Err(format!("replaying the syscall log on the old image does not give the final directory (files differing: {diff:?}; ops: {:?})", cap.ops.iter().map(FsOp::short).collect::<Vec<_>>()));
    }
    let old = observe(sc.routine, &snap).map_err(|e| format!("the state before the save does not load: {e}"))?;
    let new = observe(sc.routine, &root).map_err(|e| format!("the state after the save does not load: {e}"))?;

    let name = format!("{}: [{}] then [{}]", sc.routine, sc.pre, sc.save);
    let mut batch: Vec<CrashState> = Vec::new();
    let mut total_checked = 0u64;
    let mut nontrivial = 0u64;
    let old_img_hash = cap.old_image.hash();
    let new_img_hash = cap.final_image.hash();
    let mut flush = |batch: &mut Vec<CrashState>| {
        let res = par_map(batch.len(), |i| {
            let cs = &batch[i];
            let sd = Scratch::new("c06s");
            cs.image.write(&sd.path);
            let o = observe(sc.routine, &sd.path);
            // only a directory that loads is asked to take the next save
            let f = if o.is_ok() { followup(sc.routine, &sd.path) } else { Ok(()) };
            (o, f)
        });
        for (cs, (r, fu)) in batch.iter().zip(res) {
            total_checked += 1;
            let h = cs.image.hash();
            if h != old_img_hash && h != new_img_hash {
                nontrivial += 1;
            }
            let at = if cs.k == 0 { "start".to_string() } else { format!("op{}:{}", cs.k - 1, op_class(&cap.ops[cs.k - 1])) };
            let ns = if cs.j == cs.k || cap.ops[cs.j.min(cs.k)..cs.k].iter().all(|o| !o.is_namespace()) { "ns-all".to_string() } else { format!("ns-lost-from:{}", op_class(&cap.ops[cs.j])) };
            if let Err(e) = &fu {
                let kind = "next-save-fails";
                let sig = format!("{}|{kind}|crash-at:{at}|{ns}|data:{}", sc.routine, variant_class(cs));
                rep.violation(
                    kind,
                    &sig,
                    json!({"scenario": name, "routine": sc.routine, "pre": sc.pre, "save": sc.save, "k": cs.k, "j": cs.j, "variants": format!("{:?}", cs.variants),
                           "ops": cap.ops.iter().map(FsOp::short).collect::<Vec<_>>()}),
                    &format!("{name}: {} — the recovered directory loads, but the next save on it fails: {e}", cs.describe(&cap)),
                );
            }
            match r {
                Err(e) => {
                    rep.add_outcome(crate::util::fnv64_str(&format!("{}|ERR", sc.routine)));
                    let kind = "load-fails";
                    let sig = format!("{}|{kind}|crash-at:{at}|{ns}|data:{}", sc.routine, variant_class(cs));
                    rep.violation(
                        kind,
                        &sig,
                        json!({"scenario": name, "routine": sc.routine, "pre": sc.pre, "save": sc.save, "k": cs.k, "j": cs.j, "variants": format!("{:?}", cs.variants),
                               "ops": cap.ops.iter().map(FsOp::short).collect::<Vec<_>>(),
                               "image": cs.image.files.iter().map(|(p, d)| (p.display().to_string(), hex::encode(&d[..d.len().min(256)]), d.len())).collect::<Vec<_>>()}),
                        &format!("{name}: {} — reopening fails: {e}", cs.describe(&cap)),
                    );
                }
                Ok(state) => {
                    rep.add_outcome(crate::util::fnv64_str(&format!("{}|{state:?}", sc.routine)));
                    for (obj, val) in &state {
                        let o = old.get(obj);
                        let n = new.get(obj);
                        if Some(val) != o && Some(val) != n {
                            let kind = "neither-old-nor-new";
                            let sig = format!("{}|{kind}|crash-at:{at}|{ns}|data:{}", sc.routine, variant_class(cs));
                            rep.violation(
                                kind,
                                &sig,
                                json!({"scenario": name, "routine": sc.routine, "pre": sc.pre, "save": sc.save, "k": cs.k, "j": cs.j, "variants": format!("{:?}", cs.variants),
                                       "ops": cap.ops.iter().map(FsOp::short).collect::<Vec<_>>(), "object": obj, "recovered": val, "old": o, "new": n}),
                                &format!("{name}: {} — object {obj} recovered as {val}, old = {o:?}, new = {n:?}", cs.describe(&cap)),
                            );
                        }
                    }
                    // objects that exist in old/new but vanished are covered: missing key ≠ old/new
                    for obj in old.keys().chain(new.keys()) {
                        if !state.contains_key(obj) && old.contains_key(obj) && new.contains_key(obj) {
                            let kind = "object-missing";
                            let sig = format!("{}|{kind}|crash-at:{at}|{ns}|data:{}", sc.routine, variant_class(cs));
                            rep.violation(kind, &sig, json!({"scenario": name, "k": cs.k, "j": cs.j, "object": obj}), &format!("{name}: {} — object {obj} is missing after recovery", cs.describe(&cap)));
                        }
                    }
                }
            }
        }
        batch.clear();
    };
    let mut pending: Vec<CrashState> = Vec::new();
    let (generated, distinct, capped) = crash::enumerate(&cap, max_states, |cs| {
        pending.push(cs);
    });
    // process in chunks to bound memory of materialised directories
    while !pending.is_empty() {
        let take = pending.len().min(512);
        batch.extend(pending.drain(..take));
        flush(&mut batch);
    }
    if capped {
        rep.cap_hit(&format!("{name}: more than {max_states} distinct crash images; enumeration stopped"));
    }
    rep.add_evaluations(total_checked);
    rep.add_nontrivial_count(nontrivial);
    rep.bump("crash_states_generated", generated);
    Ok(json!({"scenario": name, "syscall_ops": cap.ops.iter().map(FsOp::short).collect::<Vec<_>>(), "crash_states_generated": generated, "distinct_images_recovered": distinct,
              "old": old, "new": new}))
}

pub fn run(tier: Tier, seed: u64) -> i32 {
    let rep = Report::new("C06", tier, seed, Level::FaultEnumeration);
    rep.set_rule("per scenario (short pre-history; save under test): every crash point k of the strace-recorded syscall log × every durable prefix j of the name-space operations × for every file with un-synced data every prefix of its pending writes and every tear point of the next write (byte-granular ≤4 KiB, else 512-byte grid + 64 bytes at both ends), tail absent/stale or zero-extended; images deduplicated by content hash; a case is non-trivial when its image differs from both the old and the new directory image");
    rep.assume("persistence model of DESIGN §2.3: name-space operations durable in program order up to an adversarial prefix; data durable only up to the file's last fsync; byte-granular tearing; content follows the inode across renames");
    rep.assume("everything written by the pre-history is durable before the save under test starts");
    rep.assume("strace -f sees every syscall of the save routine (incl. tokio blocking-pool threads); the log interpretation is self-checked: applying all ops to the old image must reproduce the final directory byte for byte");
    if Command::new("strace").arg("-V").output().is_err() {
        rep.machinery_error("strace is not available");
        return rep.finish();
    }
    let scs = scenarios(tier);
    let max_states = tier.pick(6_000, 60_000);
    let mut infos = Vec::new();
    for sc in &scs {
        match run_scenario(sc, &rep, max_states) {
            Ok(info) => {
                if infos.len() < 6 {
                    rep.sample(info.clone());
                }
                infos.push(json!({"scenario": info["scenario"], "generated": info["crash_states_generated"], "distinct": info["distinct_images_recovered"]}));
            }
            Err(e) => rep.machinery_error(&format!("scenario {}: [{}] then [{}]: {e}", sc.routine, sc.pre, sc.save)),
        }
    }
    rep.extra("scenarios", json!(infos));
    rep.extra("bounds", json!({"scenarios": scs.len(), "max_distinct_images_per_scenario": max_states}));
    rep.finish()
}

pub fn replay(w: &serde_json::Value) -> i32 {
    let wit = &w["witness"];
    let (Some(routine), Some(pre), Some(save)) = (wit["routine"].as_str(), wit["pre"].as_str(), wit["save"].as_str()) else {
        println!("MACHINERY-ERROR: replay file lacks routine/pre/save");
        return 2;
    };
    let routine: &'static str = match routine {
        "index" => "index",
        "residency" => "residency",
        "lru" => "lru",
        "dyn" => "dyn",
        "diskbg" => "diskbg",
        "diskbgfast" => "diskbgfast",
        _ => "disk",
    };
    let rep = Report::new("C06", Tier::Quick, 0, Level::FaultEnumeration);
    let sc = Scenario { routine, pre: pre.to_string(), save: save.to_string() };
    match run_scenario(&sc, &rep, 60_000) {
        Ok(_) => {}
        Err(e) => {
            println!("MACHINERY-ERROR: {e}");
            return 2;
        }
    }
    let v = rep.violations_snapshot();
    for x in &v {
        println!("violates: {} — {}", x.sig, x.detail.chars().take(400).collect::<String>());
    }
    if v.is_empty() {
        println!("no violation in scenario {routine}: [{pre}] then [{save}]");
        0
    } else {
        1
    }
}
