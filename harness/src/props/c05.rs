//! C05 — the local key index (`IndexManager`) and the residency database (`ResidencyDb`,
//! also through `ResidencyContainer`) behave as persistent maps; mutator booleans tell the
//! truth.
//!
//! SEQ engine, no state merging (the split of an index bucket between sorted section and
//! update section is hidden state that decides when the next append fails). Observers are
//! not alphabet symbols: the complete observer set is evaluated in the state reached by
//! every explored history (every proper prefix of an explored history is itself an explored
//! history, so every state within the bound is fully observed once); while a longer history
//! is replayed, its intermediate states are re-checked with the cheap observers only.
//!
//! Index subject: every history ≤ depth d over {add_entry, update_entry,
//! update_entry_status, remove_entry, flush_updates_for_bucket, flush_all_updates, save_all,
//! reload (= new IndexManager + load_all on the same directory), clear_bucket} × 4 keys
//! (F = a key that exists in the non-empty pre-states, F' = a different 16-byte key with the
//! same 9-byte prefix, N = a new key of the same bucket, Z = all-zero 9-byte prefix, which
//! lives in bucket 0) × locations at the field limits, started from **non-initial
//! pre-states**: the 1260-entry update section of the bucket filled to 1259 / 1260 entries
//! (never saved; saved + loaded), 1260 entries flushed into the sorted section, and a sorted
//! section of 1260 under an update section of 1259 / 1260 overwrites, tombstones and new keys.
//!
//! Oracle: a map keyed by the 9-byte prefix (latest add/update wins, remove deletes,
//! status Delete is a tombstone); `lookup` / `has_entry` / `iter_entries` / `entry_count`
//! agree with it in every state; a mutator's boolean equals "the key was present, so the
//! mutation applies"; `bucket_entry_count` is documented as approximate and only bounded.
//! Persistence, stated no stronger than the property: after `reload` every bucket must hold
//! a state that this bucket really had at or after the last *explicit* persist point
//! (`save_all`, or a flush of a bucket that definitely had pending updates). Implicit
//! flushes (add_entry on a full section) may persist later states; nothing may be invented,
//! and nothing explicitly persisted may be lost.
//!
//! Residency subject: every history ≤ depth d over {mark_resident, mark_non_resident,
//! mark_span_non_resident, delete_keys (small batch, and the > 10 000 batch path), save,
//! load} × keys colliding in the bucket hash and in the first 8 bytes (murmur fast path),
//! from pre-states with 0 / 24 / 25 / 26 / 50 filler keys in the bucket (25 entries per
//! page), in memory and after save + load, on the raw `ResidencyDb` and through
//! `ResidencyContainer`.

use crate::report::{Level, Report, Tier};
use crate::seq::{SeqBounds, SeqRun, SeqSubject, explore};
use crate::util::{Scratch, block_on, catch, fnv64_str, norm_msg};
use cascette_client_storage::container::AccessMode;
use cascette_client_storage::container::residency::ResidencyContainer;
use cascette_client_storage::index::{IndexManager, UpdateStatus};
use cascette_client_storage::kmt::key_state::ResidencyDb;
use cascette_crypto::EncodingKey;
use serde_json::json;
use std::collections::{BTreeMap, BTreeSet};
use std::sync::Arc;
use std::time::Instant;

// =====================================================================================
// Part 1 — IndexManager
// =====================================================================================

/// The bucket all index keys (except Z) are forced into.
pub const BUCKET: u8 = 5;
/// Documented capacity of an update section (60 pages × 21 entries). Only used to *build*
/// the pre-states; the shape of every pre-state is verified against the implementation
/// (sorted count via `stats()`, total via `bucket_entry_count`) when it is built.
pub const UPDATE_CAPACITY: u32 = 1260;

type Key9 = [u8; 9];
type Loc = (u16, u32, u32);
type BucketMap = BTreeMap<Key9, Loc>;
type IdxState = BTreeMap<u8, BucketMap>;

/// Reference bucket function (wowdev.wiki: xor of the first nine bytes, nibbles folded);
/// cross-checked against `IndexManager::bucket_for_key` by the vacuity guard.
fn bucket_of(k: &[u8]) -> u8 {
    let h = k[..9].iter().fold(0u8, |a, b| a ^ b);
    (h & 0x0f) ^ (h >> 4)
}

fn force_bucket(mut k: [u8; 16], bucket: u8) -> [u8; 16] {
    let x = k[..8].iter().fold(0u8, |a, b| a ^ b);
    k[8] = x ^ bucket; // xor of nine bytes == bucket (high nibble 0) → folded value == bucket
    k
}

/// Distinct filler keys of bucket `BUCKET`, ascending in `i`.
fn filler(i: u32) -> [u8; 16] {
    let mut k = [0u8; 16];
    k[0] = (i >> 8) as u8;
    k[1] = i as u8;
    k[2] = 0xF1;
    k[3] = 0x5A;
    k[4] = 0xC3;
    k[5] = (i.wrapping_mul(7)) as u8;
    k[6] = 0x11;
    k[7] = 0x99;
    for (j, b) in k[9..].iter_mut().enumerate() {
        *b = 0xA0 + j as u8;
    }
    force_bucket(k, BUCKET)
}

fn filler_loc(i: u32) -> Loc {
    ((i % 1024) as u16, (i.wrapping_mul(4096)) & 0x3FFF_FFFF, i + 1)
}

fn filler_loc2(i: u32) -> Loc {
    (((i + 7) % 1024) as u16, (i.wrapping_mul(512) + 17) & 0x3FFF_FFFF, i + 100_000)
}

/// Alphabet keys: 0 = F (= filler 0), 1 = F' (same 9-byte prefix as F, byte 10 differs),
/// 2 = N (new key of the same bucket, sorts into the middle of the fillers), 3 = Z (all-zero
/// 9-byte prefix; bucket 0, i.e. also "the key in another bucket").
pub fn idx_key(i: u8) -> [u8; 16] {
    match i {
        0 => filler(0),
        1 => {
            let mut k = filler(0);
            k[9] ^= 0xFF;
            k
        }
        2 => {
            let mut k = [0x77u8; 16];
            k[0] = 0x02;
            k[1] = 0x00;
            k[2] = 0xF0;
            force_bucket(k, BUCKET)
        }
        _ => {
            let mut k = [0u8; 16];
            k[15] = 0x5A;
            k
        }
    }
}

const KEY_NAMES: [&str; 4] = ["F", "F'", "N", "Z"];

pub fn idx_loc(i: u8) -> Loc {
    match i {
        0 => (0, 0, 1),
        1 => (1023, (1 << 30) - 1, u32::MAX),
        _ => (1, 4096, 100),
    }
}

const LOC_NAMES: [&str; 3] = ["L0", "Lmax", "L2"];

fn status_of(s: u8) -> UpdateStatus {
    match s {
        3 => UpdateStatus::Delete,
        6 => UpdateStatus::HeaderNonResident,
        7 => UpdateStatus::DataNonResident,
        _ => UpdateStatus::Normal,
    }
}

fn k9(k: &[u8; 16]) -> Key9 {
    let mut o = [0u8; 9];
    o.copy_from_slice(&k[..9]);
    o
}

fn key_label(k: &Key9) -> String {
    for i in [0u8, 2, 3] {
        if k9(&idx_key(i)) == *k {
            return KEY_NAMES[i as usize].to_string();
        }
    }
    if k[2] == 0xF1 && k[3] == 0x5A {
        return format!("filler#{}", (u32::from(k[0]) << 8) | u32::from(k[1]));
    }
    format!("key {}", hex::encode(k))
}

#[derive(Clone, Debug, PartialEq)]
pub enum Op {
    /// add_entry(key, loc)
    Add(u8, u8),
    /// update_entry(key, loc)
    Update(u8, u8),
    /// update_entry_status(key, status byte)
    Status(u8, u8),
    /// remove_entry(key)
    Remove(u8),
    /// flush_updates_for_bucket(BUCKET)
    FlushBucket,
    FlushAll,
    SaveAll,
    /// new IndexManager on the same directory + load_all
    Reload,
    /// clear_bucket(BUCKET)
    ClearBucket,
}

impl Op {
    fn name(&self) -> &'static str {
        match self {
            Op::Add(..) => "add",
            Op::Update(..) => "update",
            Op::Status(..) => "status",
            Op::Remove(..) => "remove",
            Op::FlushBucket => "flush_bucket",
            Op::FlushAll => "flush_all",
            Op::SaveAll => "save_all",
            Op::Reload => "reload",
            Op::ClearBucket => "clear_bucket",
        }
    }
}

#[derive(Clone, Debug)]
enum PreOp {
    Add([u8; 16], Loc),
    Update([u8; 16], Loc),
    Remove([u8; 16]),
}

/// A non-initial start state: a directory image (what is on disk), whether it is loaded,
/// and the recorded operations that are replayed on top of it (un-flushed, never saved).
pub struct PreState {
    pub name: String,
    files: Vec<(String, Vec<u8>)>,
    replay: Vec<PreOp>,
    mem: IdxState,
    /// shared, immutable copies handed to every run's model (cloning 2520-entry maps three
    /// times per history was a measurable part of the run time)
    mem_arc: BTreeMap<u8, Arc<BucketMap>>,
    disk_arc: BTreeMap<u8, Arc<BucketMap>>,
    /// (sorted entries, update entries) of BUCKET as verified when the pre-state was built
    shape: (usize, usize),
}

fn apply_preop(mgr: &mut IndexManager, op: &PreOp) -> Result<(), String> {
    match op {
        PreOp::Add(k, l) => mgr
            .add_entry(&EncodingKey::from_bytes(*k), l.0, l.1, l.2)
            .map_err(|e| format!("add_entry failed while building a pre-state: {e}")),
        PreOp::Update(k, l) => {
            if mgr.update_entry(&EncodingKey::from_bytes(*k), l.0, l.1, l.2) {
                Ok(())
            } else {
                Err("update_entry returned false while building a pre-state".into())
            }
        }
        PreOp::Remove(k) => {
            if mgr.remove_entry(&EncodingKey::from_bytes(*k)) {
                Ok(())
            } else {
                Err("remove_entry returned false while building a pre-state".into())
            }
        }
    }
}

fn apply_preop_model(m: &mut IdxState, op: &PreOp) {
    match op {
        PreOp::Add(k, l) | PreOp::Update(k, l) => {
            m.entry(bucket_of(k)).or_default().insert(k9(k), *l);
        }
        PreOp::Remove(k) => {
            m.entry(bucket_of(k)).or_default().remove(&k9(k));
        }
    }
}

fn fill_ops(n: u32) -> Vec<PreOp> {
    (0..n).map(|i| PreOp::Add(filler(i), filler_loc(i))).collect()
}

/// `m` appends on top of fillers 0..1260: overwrite / tombstone / new key, round robin.
fn mixed_ops(m: u32) -> Vec<PreOp> {
    (0..m)
        .map(|i| match i % 3 {
            0 => PreOp::Update(filler(i), filler_loc2(i)),
            1 => PreOp::Remove(filler(i)),
            _ => PreOp::Add(filler(UPDATE_CAPACITY + i), filler_loc(UPDATE_CAPACITY + i)),
        })
        .collect()
}

fn read_image(dir: &std::path::Path) -> Vec<(String, Vec<u8>)> {
    let mut v = Vec::new();
    if let Ok(rd) = std::fs::read_dir(dir) {
        for e in rd.flatten() {
            let name = e.file_name().to_string_lossy().to_string();
            if let Ok(b) = std::fs::read(e.path()) {
                v.push((name, b));
            }
        }
    }
    v.sort();
    v
}

#[derive(Clone, Copy, PartialEq)]
enum Persist {
    /// nothing is written: the recorded ops are replayed on an empty directory in every run
    None,
    SaveAll,
    FlushAll,
}

/// Build one pre-state: `stage1` (+ flush) + `stage2`, persisted as requested.
fn build_prestate(name: &str, stage1: Vec<PreOp>, flush_after_stage1: bool, stage2: Vec<PreOp>, persist: Persist, expect_shape: (usize, usize)) -> Result<PreState, String> {
    let scratch = Scratch::new("c05-pre");
    let mut mgr = IndexManager::new(&scratch.path);
    let mut mem = IdxState::new();
    for op in &stage1 {
        apply_preop(&mut mgr, op)?;
        apply_preop_model(&mut mem, op);
    }
    if flush_after_stage1 {
        mgr.flush_all_updates().map_err(|e| format!("flush failed while building {name}: {e}"))?;
    }
    for op in &stage2 {
        apply_preop(&mut mgr, op)?;
        apply_preop_model(&mut mem, op);
    }
    match persist {
        Persist::None => {}
        Persist::SaveAll => mgr.save_all().map_err(|e| format!("save_all failed while building {name}: {e}"))?,
        Persist::FlushAll => mgr.flush_all_updates().map_err(|e| format!("flush failed while building {name}: {e}"))?,
    }
    let sorted = mgr.stats().total_entries;
    let total = mgr.bucket_entry_count(BUCKET);
    let shape = (sorted, total.saturating_sub(sorted));
    if shape != expect_shape {
        return Err(format!(
            "pre-state {name}: expected (sorted, update) = {expect_shape:?}, the implementation reports {shape:?} — the 1260-entry capacity assumption does not hold"
        ));
    }
    let (files, replay, disk) = if persist == Persist::None {
        if flush_after_stage1 {
            return Err("unsupported pre-state recipe".into());
        }
        let mut ops = stage1;
        ops.extend(stage2);
        (Vec::new(), ops, IdxState::new())
    } else {
        (read_image(&scratch.path), Vec::new(), mem.clone())
    };
    let arcs = |m: &IdxState| m.iter().map(|(b, v)| (*b, Arc::new(v.clone()))).collect::<BTreeMap<u8, Arc<BucketMap>>>();
    Ok(PreState { name: name.to_string(), files, replay, mem_arc: arcs(&mem), disk_arc: arcs(&disk), mem, shape })
}

/// Build all pre-states. A pre-state that cannot be built (a mutator refuses while it is
/// filled, or the implementation reports another sorted/update shape) is returned as an
/// error text; the others are still explored.
pub fn build_prestates() -> (Vec<Arc<PreState>>, Vec<String>) {
    let c = UPDATE_CAPACITY;
    let cu = c as usize;
    let mut v = vec![PreState { name: "empty".into(), files: vec![], replay: vec![], mem: IdxState::new(), mem_arc: BTreeMap::new(), disk_arc: BTreeMap::new(), shape: (0, 0) }];
    let mut errs = Vec::new();
    let built = [
        build_prestate("U1259-mem", fill_ops(c - 1), false, vec![], Persist::None, (0, cu - 1)),
        build_prestate("U1260-mem", fill_ops(c), false, vec![], Persist::None, (0, cu)),
        build_prestate("U1259-saved", fill_ops(c - 1), false, vec![], Persist::SaveAll, (0, cu - 1)),
        build_prestate("U1260-saved", fill_ops(c), false, vec![], Persist::SaveAll, (0, cu)),
        build_prestate("S1260", fill_ops(c), false, vec![], Persist::FlushAll, (cu, 0)),
        build_prestate("S1260+U1259mixed-saved", fill_ops(c), true, mixed_ops(c - 1), Persist::SaveAll, (cu, cu - 1)),
        build_prestate("S1260+U1260mixed-saved", fill_ops(c), true, mixed_ops(c), Persist::SaveAll, (cu, cu)),
        // the update section is placed at the next 64 KiB boundary behind the sorted section
        // (0x28 + 18 n bytes): 3639 entries end 6 bytes past a boundary, 3640 entries 24 bytes —
        // two pending updates (overwrite, tombstone) sit behind each
        build_prestate("S3639+U2mixed-saved", fill_ops(3639), true, mixed_ops(2), Persist::SaveAll, (3639, 2)),
        build_prestate("S3640+U2mixed-saved", fill_ops(3640), true, mixed_ops(2), Persist::SaveAll, (3640, 2)),
        // … and 25 484 entries end *exactly* on a boundary (0x28 + 18 · 25 484 = 7 · 65 536): the
        // only count below 2^15 for which "round up to the next boundary" and "the next boundary
        // after this byte" differ
        build_prestate("S25484+U2mixed-saved", fill_ops(25_484), true, mixed_ops(2), Persist::SaveAll, (25_484, 2)),
    ];
    for b in built {
        match b {
            Ok(p) => v.push(p),
            Err(e) => errs.push(e),
        }
    }
    (v.into_iter().map(Arc::new).collect(), errs)
}

/// What a reload of one bucket may legitimately return: the state at the last explicit
/// persist point (`floor`) or any later state of that bucket (`floor` + a prefix of
/// `journal`).
#[derive(Clone, Default)]
struct Persisted {
    floor: Arc<BucketMap>,
    /// the state a never-saved pre-state was built up to (its intermediate build states are
    /// not offered as reload results: no implicit flush happens while it is built)
    built: Option<Arc<BucketMap>>,
    journal: Vec<J>,
}

#[derive(Clone)]
enum J {
    Set(Key9, Loc),
    Del(Key9),
    Clear,
}

struct IdxModel {
    mem: IdxState,
    disk: BTreeMap<u8, Persisted>,
    /// buckets whose update section *definitely* holds un-flushed entries
    pending: BTreeSet<u8>,
    /// ADVISORY ONLY (never used for a verdict, only to name the state class in a violation
    /// kind): how many entries the update section of a bucket holds in memory / in the
    /// persisted image, following the documented 1260-entry capacity.
    fill: BTreeMap<u8, u32>,
    disk_fill: BTreeMap<u8, u32>,
}

impl IdxModel {
    fn new(pre: &PreState) -> IdxModel {
        let mut m = IdxModel { mem: IdxState::new(), disk: BTreeMap::new(), pending: BTreeSet::new(), fill: BTreeMap::new(), disk_fill: BTreeMap::new() };
        for (b, d) in &pre.disk_arc {
            m.disk.insert(*b, Persisted { floor: d.clone(), built: None, journal: vec![] });
        }
        m.mem = pre.mem.clone();
        if !pre.replay.is_empty() {
            // never-saved pre-state: the disk is empty, memory holds the built state
            for (b, built) in &pre.mem_arc {
                m.disk.entry(*b).or_default().built = Some(built.clone());
                m.pending.insert(*b);
            }
        }
        for b in pre.mem.keys() {
            m.ensure(*b);
        }
        m.fill.insert(BUCKET, pre.shape.1 as u32);
        m.disk_fill.insert(BUCKET, if pre.files.is_empty() { 0 } else { pre.shape.1 as u32 });
        m
    }
    fn is_full(&self, b: u8) -> bool {
        self.fill.get(&b).copied().unwrap_or(0) == UPDATE_CAPACITY
    }
    /// advisory: one entry is appended to the update section of `b` (flush first if full)
    fn appended(&mut self, b: u8) {
        let f = self.fill.entry(b).or_insert(0);
        if *f >= UPDATE_CAPACITY {
            *f = 0;
            self.disk_fill.insert(b, 0);
        }
        *f += 1;
        self.pending.insert(b);
    }
    fn ensure(&mut self, b: u8) {
        self.mem.entry(b).or_default();
        self.disk.entry(b).or_default();
    }
    fn get(&self, k: &[u8; 16]) -> Option<Loc> {
        self.mem.get(&bucket_of(k)).and_then(|m| m.get(&k9(k))).copied()
    }
    fn set(&mut self, k: &[u8; 16], l: Loc) {
        let b = bucket_of(k);
        self.ensure(b);
        self.mem.get_mut(&b).unwrap().insert(k9(k), l);
        self.disk.get_mut(&b).unwrap().journal.push(J::Set(k9(k), l));
        self.appended(b);
    }
    fn del(&mut self, k: &[u8; 16]) -> bool {
        let b = bucket_of(k);
        self.ensure(b);
        let was = self.mem.get_mut(&b).unwrap().remove(&k9(k)).is_some();
        if was {
            self.disk.get_mut(&b).unwrap().journal.push(J::Del(k9(k)));
            self.appended(b);
        }
        was
    }
    fn clear_bucket(&mut self, b: u8) -> usize {
        self.ensure(b);
        let n = self.mem.get(&b).map_or(0, BTreeMap::len);
        self.mem.get_mut(&b).unwrap().clear();
        self.disk.get_mut(&b).unwrap().journal.push(J::Clear);
        self.pending.remove(&b);
        self.fill.insert(b, 0);
        n
    }
    fn persist(&mut self, b: u8) {
        self.ensure(b);
        let cur = self.mem.get(&b).cloned().unwrap_or_default();
        let p = self.disk.get_mut(&b).unwrap();
        p.floor = Arc::new(cur);
        p.built = None;
        p.journal.clear();
    }
    fn save(&mut self, b: u8) {
        self.persist(b);
        let f = self.fill.get(&b).copied().unwrap_or(0);
        self.disk_fill.insert(b, f);
    }
    fn flush(&mut self, b: u8) {
        // Decision in the direction of not alarming: a flush of a bucket without (known)
        // pending updates is documented as a flush of the update section only, so it is
        // not treated as a persist point (e.g. clear_bucket + flush does not have to reach
        // the disk).
        if self.pending.remove(&b) {
            self.persist(b);
        }
        if self.fill.get(&b).copied().unwrap_or(0) > 0 {
            self.fill.insert(b, 0);
            self.disk_fill.insert(b, 0);
        }
    }
    fn buckets(&self) -> Vec<u8> {
        self.mem.keys().copied().collect()
    }
    fn total(&self) -> usize {
        self.mem.values().map(BTreeMap::len).sum()
    }
    /// After a reload: accept `got` if it is the floor or a later state; adopt it.
    fn adopt(&mut self, b: u8, got: &BucketMap) -> Result<(), String> {
        self.ensure(b);
        let p = self.disk.get(&b).unwrap();
        let step = |cur: &mut BucketMap, j: &J| match j {
            J::Set(k, l) => {
                cur.insert(*k, *l);
            }
            J::Del(k) => {
                cur.remove(k);
            }
            J::Clear => cur.clear(),
        };
        let mut matched = *p.floor == *got;
        let base: &Arc<BucketMap> = match &p.built {
            Some(x) => {
                matched |= **x == *got;
                x
            }
            None => &p.floor,
        };
        if !matched && !p.journal.is_empty() {
            let mut cur: BucketMap = (**base).clone();
            for j in &p.journal {
                step(&mut cur, j);
                if cur.len() == got.len() && cur == *got {
                    matched = true;
                    break;
                }
            }
        }
        if matched {
            self.mem.insert(b, got.clone());
            self.disk.insert(b, Persisted { floor: Arc::new(got.clone()), built: None, journal: vec![] });
            self.pending.remove(&b);
            let f = self.disk_fill.get(&b).copied().unwrap_or(0);
            self.fill.insert(b, f);
            return Ok(());
        }
        // error path: materialise all acceptable states for the description
        let mut states: Vec<BucketMap> = vec![(*p.floor).clone()];
        let mut cur: BucketMap = match &p.built {
            Some(x) => {
                states.push((**x).clone());
                (**x).clone()
            }
            None => (*p.floor).clone(),
        };
        for j in &p.journal {
            step(&mut cur, j);
            states.push(cur.clone());
        }
        // describe the difference against the floor (what was explicitly persisted)
        let floor = &states[0];
        let mut diff = String::new();
        for (k, l) in floor {
            match got.get(k) {
                None => {
                    diff = format!("{} = {:?} was persisted but is missing after reload", key_label(k), l);
                    break;
                }
                Some(g) if g != l && !states.iter().any(|s| s.get(k) == Some(g)) => {
                    diff = format!("{} = {:?} after reload, persisted {:?}", key_label(k), g, l);
                    break;
                }
                _ => {}
            }
        }
        if diff.is_empty() {
            for (k, g) in got {
                if !states.iter().any(|s| s.get(k) == Some(g)) {
                    diff = format!("{} = {:?} after reload was never a state of this bucket since the last persist point", key_label(k), g);
                    break;
                }
            }
        }
        if diff.is_empty() {
            diff = "the combination of entries matches no state the bucket had since the last persist point".into();
        }
        Err(format!(
            "bucket {b:02x} after reload holds {} entries; last explicit persist point held {}, {} later states are also acceptable; {diff}",
            got.len(),
            floor.len(),
            states.len() - 1
        ))
    }
}

/// All entries the implementation enumerates, sorted (iteration order is not promised),
/// checked for duplicates and for the bucket label.
fn collect_impl(mgr: &IndexManager) -> Result<Vec<(u8, Key9, Loc)>, (String, String)> {
    let mut v: Vec<(u8, Key9, Loc)> = mgr.iter_entries().map(|(b, e)| (b, e.key, (e.archive_id(), e.archive_offset(), e.size))).collect();
    if !v.is_sorted() {
        v.sort_unstable();
    }
    for w in v.windows(2) {
        if (w[0].0, w[0].1) == (w[1].0, w[1].1) {
            return Err(("iter-duplicate".into(), format!("iter_entries yields {} twice", key_label(&w[0].1))));
        }
    }
    for (b, k, _) in &v {
        if bucket_of(k) != *b {
            return Err(("iter-bucket-label".into(), format!("iter_entries yields {} under bucket {b:02x}, its bucket is {:02x}", key_label(k), bucket_of(k))));
        }
    }
    Ok(v)
}

fn group(v: &[(u8, Key9, Loc)]) -> IdxState {
    let mut st = IdxState::new();
    for (b, k, l) in v {
        st.entry(*b).or_default().insert(*k, *l);
    }
    st
}

/// Keys looked up in every state: the alphabet keys and fillers at the interesting places
/// of the pre-states (first / tombstoned / overwritten / middle / last / added later).
fn observer_keys() -> Vec<[u8; 16]> {
    let mut v: Vec<[u8; 16]> = (0..4).map(idx_key).collect();
    for i in [1u32, 2, 3, 630, 1258, 1259, 1262, 2516] {
        v.push(filler(i));
    }
    v
}

/// State oracle.
///
/// `full`: all observers (12 lookups, has_entry, complete iter_entries comparison,
/// entry_count, bucket counts). It is applied to the state reached by the *whole* history.
/// Every proper prefix of an explored history is itself an explored history (breadth-first,
/// violating histories are never extended, replays are deterministic), so every state within
/// the bound gets the full check exactly once; intermediate states of a longer run only get
/// the cheap part again (alphabet-key lookups, has_entry, bucket counts).
///
/// `exact_bucket_count`: the last op flushed / cleared BUCKET, so the documented
/// "approximate" `bucket_entry_count` has nothing left to over-count.
fn check_state(mgr: &IndexManager, model: &IdxModel, obs: &[[u8; 16]], full: bool, exact_bucket_count: bool, log: &mut String, calls: &mut u64) -> Option<(String, String)> {
    let n_obs = if full { obs.len() } else { 4 };
    for (i, k) in obs.iter().take(n_obs).enumerate() {
        let ek = EncodingKey::from_bytes(*k);
        let got = mgr.lookup(&ek);
        *calls += 1;
        let exp = model.get(k);
        let got_l = got.as_ref().map(|e| (e.archive_id(), e.archive_offset(), e.size));
        if got_l != exp {
            let kind = match (got_l, exp) {
                (Some(_), None) => "lookup-finds-absent-key",
                (None, Some(_)) => "lookup-misses-present-key",
                _ => "lookup-stale-location",
            };
            return Some((kind.into(), format!("lookup({}) = {:?}, map model says {:?}", key_label(&k9(k)), got_l, exp)));
        }
        if let Some(e) = &got {
            if e.key != k9(k) {
                return Some(("lookup-wrong-key".into(), format!("lookup({}) returned an entry for {}", key_label(&k9(k)), key_label(&e.key))));
            }
        }
        if i < 6 {
            let h = mgr.has_entry(&ek);
            *calls += 1;
            if h != exp.is_some() {
                return Some(("has-entry-mismatch".into(), format!("has_entry({}) = {h}, lookup/model say {}", key_label(&k9(k)), exp.is_some())));
            }
        }
        if i < 4 {
            log.push_str(&format!("{got_l:?}"));
        }
    }
    if full {
        let flat = match collect_impl(mgr) {
            Ok(s) => s,
            Err(e) => return Some(e),
        };
        *calls += 1;
        // fast path: element-wise comparison with the model; the maps are only built to
        // describe a difference
        let same = flat.len() == model.total() && flat.iter().copied().eq(model.mem.iter().flat_map(|(b, m)| m.iter().map(move |(k, l)| (*b, *k, *l))));
        let st = if same { IdxState::new() } else { group(&flat) };
        let bs: BTreeSet<u8> = if same { BTreeSet::new() } else { st.keys().chain(model.mem.keys()).copied().collect() };
        let empty = BucketMap::new();
        for b in bs {
            let g = st.get(&b).unwrap_or(&empty);
            let m = model.mem.get(&b).unwrap_or(&empty);
            if g != m {
                for (k, l) in m {
                    match g.get(k) {
                        None => return Some(("iter-misses-present-key".into(), format!("iter_entries does not yield {} (model {:?}); bucket {b:02x}: {} entries, model {}", key_label(k), l, g.len(), m.len()))),
                        Some(x) if x != l => return Some(("iter-stale-location".into(), format!("iter_entries yields {} = {:?}, model {:?}", key_label(k), x, l))),
                        _ => {}
                    }
                }
                for (k, l) in g {
                    if !m.contains_key(k) {
                        return Some(("iter-yields-absent-key".into(), format!("iter_entries yields {} = {:?}, which the model does not hold; bucket {b:02x}: {} entries, model {}", key_label(k), l, g.len(), m.len())));
                    }
                }
            }
        }
        let ec = mgr.entry_count();
        *calls += 1;
        if ec != model.total() {
            return Some(("entry-count-mismatch".into(), format!("entry_count() = {ec}, model holds {}", model.total())));
        }
        log.push_str(&format!("#{ec}"));
    }
    for b in [BUCKET, 0u8] {
        let bc = mgr.bucket_entry_count(b);
        *calls += 1;
        let m = model.mem.get(&b).map_or(0, BTreeMap::len);
        // bucket_entry_count is documented "(approximate)": sorted + update entries. It can
        // over-count (overwrites, tombstones) but never under-count the visible entries.
        if bc < m {
            return Some(("bucket-count-below-visible".into(), format!("bucket_entry_count({b:02x}) = {bc} < {m} visible entries")));
        }
        if exact_bucket_count && b == BUCKET && bc != m {
            return Some(("bucket-count-after-flush".into(), format!("bucket_entry_count({b:02x}) = {bc} right after a flush/clear of the bucket, {m} entries are visible")));
        }
        log.push_str(&format!("{}", bc.min(9999)));
    }
    log.push(';');
    None
}

fn setup_index(pre: &PreState) -> Result<(Scratch, IndexManager), String> {
    let scratch = Scratch::new("c05");
    for (name, bytes) in &pre.files {
        std::fs::write(scratch.path.join(name), bytes).map_err(|e| format!("cannot write image: {e}"))?;
    }
    let mut mgr = IndexManager::new(&scratch.path);
    if !pre.files.is_empty() {
        block_on(mgr.load_all()).map_err(|e| format!("load_all of the pre-state image failed: {e}"))?;
    }
    for op in &pre.replay {
        apply_preop(&mut mgr, op)?;
    }
    Ok((scratch, mgr))
}

const FULL_TAG: &str = "@update-section-full";

fn run_index(pre: &PreState, hist: &[Op]) -> SeqRun {
    let fail = |i: usize, kind: String, detail: String, calls: u64| SeqRun { violation: Some((i, kind, detail)), state_key: None, outcome: 0, calls };
    let (scratch, mut mgr) = match setup_index(pre) {
        Ok(x) => x,
        Err(e) => return fail(0, "prestate-setup".into(), e, 0),
    };
    let mut model = IdxModel::new(pre);
    let obs = observer_keys();
    let mut calls = 0u64;
    let mut log = String::new();

    // state oracle in the pre-state itself (full when the pre-state is the subject of the run)
    if let Some((k, d)) = check_state(&mgr, &model, &obs, hist.is_empty(), false, &mut log, &mut calls) {
        return fail(0, format!("prestate:{k}"), d, calls);
    }

    for (i, op) in hist.iter().enumerate() {
        calls += 1;
        let mut exact = false;
        // advisory state class: update/status/remove issued while the update section of the
        // key's bucket holds 1260 entries
        let mut tag = "";
        match op {
            Op::Add(k, l) => {
                let key = idx_key(*k);
                let loc = idx_loc(*l);
                let r = mgr.add_entry(&EncodingKey::from_bytes(key), loc.0, loc.1, loc.2);
                model.set(&key, loc);
                if let Err(e) = r {
                    return fail(i, "add:error".into(), format!("add_entry({}) failed: {e}", KEY_NAMES[*k as usize]), calls);
                }
                log.push('a');
            }
            Op::Update(k, l) => {
                let key = idx_key(*k);
                let loc = idx_loc(*l);
                let exp = model.get(&key).is_some();
                if exp && model.is_full(bucket_of(&key)) {
                    tag = FULL_TAG;
                }
                let r = mgr.update_entry(&EncodingKey::from_bytes(key), loc.0, loc.1, loc.2);
                if exp {
                    model.set(&key, loc);
                }
                if r != exp {
                    let kind = if exp { "update:false-for-present-key" } else { "update:true-for-absent-key" };
                    return fail(i, format!("{kind}{tag}"), format!("update_entry({}) returned {r}; the key is {} in the map model", KEY_NAMES[*k as usize], if exp { "present" } else { "absent" }), calls);
                }
                log.push(if r { 'U' } else { 'u' });
            }
            Op::Status(k, s) => {
                let key = idx_key(*k);
                let exp = model.get(&key).is_some();
                if exp && model.is_full(bucket_of(&key)) {
                    tag = FULL_TAG;
                }
                let st = status_of(*s);
                let r = mgr.update_entry_status(&EncodingKey::from_bytes(key), st);
                if exp {
                    if st == UpdateStatus::Delete {
                        // status 3 is the tombstone: the documented meaning is removal
                        model.del(&key);
                    } else {
                        model.appended(bucket_of(&key));
                    }
                }
                if r != exp {
                    let kind = if exp { "status:false-for-present-key" } else { "status:true-for-absent-key" };
                    return fail(i, format!("{kind}{tag}"), format!("update_entry_status({}, {st:?}) returned {r}; the key is {} in the map model", KEY_NAMES[*k as usize], if exp { "present" } else { "absent" }), calls);
                }
                log.push(if r { 'S' } else { 's' });
            }
            Op::Remove(k) => {
                let key = idx_key(*k);
                if model.get(&key).is_some() && model.is_full(bucket_of(&key)) {
                    tag = FULL_TAG;
                }
                let exp = model.del(&key);
                let r = mgr.remove_entry(&EncodingKey::from_bytes(key));
                if r != exp {
                    let kind = if exp { "remove:false-for-present-key" } else { "remove:true-for-absent-key" };
                    return fail(i, format!("{kind}{tag}"), format!("remove_entry({}) returned {r}; the key was {} in the map model", KEY_NAMES[*k as usize], if exp { "present" } else { "absent" }), calls);
                }
                log.push(if r { 'R' } else { 'r' });
            }
            Op::FlushBucket => {
                if let Err(e) = mgr.flush_updates_for_bucket(BUCKET) {
                    return fail(i, "flush_bucket:error".into(), format!("flush_updates_for_bucket failed: {e}"), calls);
                }
                model.flush(BUCKET);
                exact = true;
            }
            Op::FlushAll => {
                if let Err(e) = mgr.flush_all_updates() {
                    return fail(i, "flush_all:error".into(), format!("flush_all_updates failed: {e}"), calls);
                }
                for b in model.buckets() {
                    model.flush(b);
                }
                exact = true;
            }
            Op::SaveAll => {
                if let Err(e) = mgr.save_all() {
                    return fail(i, "save_all:error".into(), format!("save_all failed: {e}"), calls);
                }
                for b in model.buckets() {
                    model.save(b);
                }
            }
            Op::Reload => {
                drop(mgr);
                mgr = IndexManager::new(&scratch.path);
                if let Err(e) = block_on(mgr.load_all()) {
                    return fail(i, "reload:error".into(), format!("load_all failed: {e}"), calls);
                }
                let st = match collect_impl(&mgr) {
                    Ok(s) => group(&s),
                    Err((k, d)) => return fail(i, format!("reload:{k}"), d, calls),
                };
                calls += 1;
                let bs: BTreeSet<u8> = st.keys().chain(model.mem.keys()).copied().collect();
                let empty = BucketMap::new();
                for b in bs {
                    if let Err(d) = model.adopt(b, st.get(&b).unwrap_or(&empty)) {
                        return fail(i, "reload:state-was-never-persisted-or-lost".into(), d, calls);
                    }
                }
            }
            Op::ClearBucket => {
                let lb = model.clear_bucket(BUCKET);
                let r = mgr.clear_bucket(BUCKET);
                // "Returns the total number of entries removed (sorted + update)": an upper
                // count like bucket_entry_count; only bounded from below.
                if r < lb {
                    return fail(i, "clear_bucket:count-below-visible".into(), format!("clear_bucket returned {r}, {lb} entries were visible"), calls);
                }
                exact = true;
            }
        }
        let last = i + 1 == hist.len();
        if let Some((k, d)) = check_state(&mgr, &model, &obs, last, exact, &mut log, &mut calls) {
            return fail(i, format!("{}:{k}{tag}", op.name()), format!("after {}: {d}", canon_ops(std::slice::from_ref(op))), calls);
        }
    }
    SeqRun { violation: None, state_key: None, outcome: fnv64_str(&log), calls }
}

/// Concrete rendering (details, replay output).
fn canon_ops(hist: &[Op]) -> String {
    hist.iter()
        .map(|o| match o {
            Op::Add(k, l) => format!("add({},{})", KEY_NAMES[*k as usize], LOC_NAMES[*l as usize]),
            Op::Update(k, l) => format!("update({},{})", KEY_NAMES[*k as usize], LOC_NAMES[*l as usize]),
            Op::Status(k, s) => format!("status({},{:?})", KEY_NAMES[*k as usize], status_of(*s)),
            Op::Remove(k) => format!("remove({})", KEY_NAMES[*k as usize]),
            other => other.name().to_string(),
        })
        .collect::<Vec<_>>()
        .join(";")
}

/// Signature rendering: by map-model key (F' is the same model key as F and is rendered
/// as F) and without the location. The concrete 16-byte key and the location of every
/// call stay in the witness (`core_ops`) and in the detail text.
fn sig_ops(hist: &[Op]) -> String {
    const ROLE: [&str; 4] = ["F", "F", "N", "Z"];
    hist.iter()
        .map(|o| match o {
            Op::Add(k, _) => format!("add({})", ROLE[*k as usize]),
            Op::Update(k, _) => format!("update({})", ROLE[*k as usize]),
            Op::Status(k, s) => format!("status({},{:?})", ROLE[*k as usize], status_of(*s)),
            Op::Remove(k) => format!("remove({})", ROLE[*k as usize]),
            other => other.name().to_string(),
        })
        .collect::<Vec<_>>()
        .join(";")
}

/// Signature form of a violating history. When the violation is an update / status / remove
/// of a present key issued while the update section of its bucket holds 1260 entries, the
/// way the section was filled (which pre-state, which extra appends) and the identity of the
/// present key do not matter: the history is rendered as that state class + the failing
/// call. Everything else is rendered by `sig_ops`.
fn canon_idx(subj: &IndexSubject, hist: &[Op]) -> String {
    let r = subj.run(hist);
    if let Some((i, kind, _)) = &r.violation {
        if kind.ends_with(FULL_TAG) && *i < hist.len() {
            let call = match &hist[*i] {
                Op::Update(..) => "update(<present key>)".to_string(),
                Op::Status(_, s) => format!("status(<present key>,{:?})", status_of(*s)),
                Op::Remove(_) => "remove(<present key>)".to_string(),
                other => sig_ops(std::slice::from_ref(other)),
            };
            return format!("[update section of the bucket holds 1260 entries];{call}");
        }
    }
    sig_ops(hist)
}

pub struct IndexSubject {
    pub pre: Arc<PreState>,
    /// the empty pre-state: a violation that also happens from there is not specific to
    /// `pre`, and its kind (hence signature) does not name the pre-state
    pub base: Option<Arc<PreState>>,
}

fn guarded<F: FnOnce() -> SeqRun>(hist_len: usize, f: F) -> SeqRun {
    match catch(f) {
        Ok(r) => r,
        Err(msg) => {
            let loc = crate::util::take_last_panic_loc().map(|l| crate::util::norm_loc(&l)).unwrap_or_default();
            SeqRun {
                violation: Some((hist_len.saturating_sub(1), format!("panic@{loc}"), format!("panicked: {}", norm_msg(&msg)))),
                state_key: None,
                outcome: 0,
                calls: hist_len as u64,
            }
        }
    }
}

impl SeqSubject for IndexSubject {
    type Op = Op;
    fn config_name(&self) -> String {
        format!("idx:{}", self.pre.name)
    }
    fn sig_config(&self) -> String {
        "idx".into()
    }
    fn alphabet(&self) -> Vec<Op> {
        let mut a = Vec::new();
        for k in 0..4 {
            for l in 0..2 {
                a.push(Op::Add(k, l));
            }
        }
        for k in 0..4 {
            a.push(Op::Update(k, 2));
        }
        a.push(Op::Update(0, 1));
        for k in 0..4 {
            a.push(Op::Status(k, 7));
        }
        a.push(Op::Status(0, 3));
        a.push(Op::Status(0, 6));
        for k in 0..4 {
            a.push(Op::Remove(k));
        }
        a.extend([Op::FlushBucket, Op::FlushAll, Op::SaveAll, Op::Reload, Op::ClearBucket]);
        a
    }
    fn canon(&self, hist: &[Op]) -> String {
        canon_idx(self, hist)
    }
    fn run(&self, hist: &[Op]) -> SeqRun {
        let mut r = guarded(hist.len(), || run_index(&self.pre, hist));
        if let (Some((_, kind, _)), Some(base)) = (&mut r.violation, &self.base) {
            if kind.ends_with(FULL_TAG) {
                return r;
            }
            let rb = guarded(hist.len(), || run_index(base, hist));
            let same = matches!(&rb.violation, Some((_, k, _)) if k == kind);
            if !same {
                kind.push('@');
                kind.push_str(&self.pre.name);
            }
        }
        r
    }
}

// =====================================================================================
// Part 2 — ResidencyDb / ResidencyContainer
// =====================================================================================

pub const RES_BUCKET: u8 = 7;

fn res_bucket_of(k: &[u8; 16]) -> u8 {
    let x = k.iter().fold(0u8, |a, b| a ^ b);
    ((x >> 4) ^ x) & 0x0f
}

fn res_force(mut k: [u8; 16], bucket: u8) -> [u8; 16] {
    let x = k[..15].iter().fold(0u8, |a, b| a ^ b);
    k[15] = x ^ bucket;
    k
}

fn res_filler(i: u32) -> [u8; 16] {
    let mut k = [0x3Cu8; 16];
    k[0] = i as u8;
    k[1] = (i >> 8) as u8;
    k[2] = 0xF2;
    k[9] = (i * 3) as u8;
    res_force(k, RES_BUCKET)
}

/// 0 = R0; 1 = R1 (same first 8 bytes and same bucket as R0); 2 = R2 (same first 8 bytes,
/// other bucket); 3 = filler 0 (present in the non-empty pre-states).
pub fn res_key(i: u8) -> [u8; 16] {
    let mut base = [0u8; 16];
    for (j, b) in base.iter_mut().enumerate() {
        *b = 0xA0 ^ (j as u8).wrapping_mul(0x1D);
    }
    let r0 = res_force(base, RES_BUCKET);
    match i {
        0 => r0,
        1 => {
            let mut k = r0;
            k[8] ^= 0x33;
            k[9] ^= 0x33;
            k
        }
        2 => {
            let mut k = r0;
            k[8] ^= 0x01;
            k
        }
        _ => res_filler(0),
    }
}

const RES_KEY_NAMES: [&str; 4] = ["R0", "R1", "R2", "F0"];

fn res_span(i: u8) -> (i32, i32) {
    match i {
        0 => (0, i32::MAX),
        1 => (1000, 5000),
        2 => (-1, 0),
        _ => (i32::MAX, i32::MIN),
    }
}

fn res_label(k: &[u8; 16]) -> String {
    for i in 0..4u8 {
        if res_key(i) == *k {
            return RES_KEY_NAMES[i as usize].to_string();
        }
    }
    if k[2] == 0xF2 {
        return format!("filler#{}", u32::from(k[0]) | (u32::from(k[1]) << 8));
    }
    format!("key {}", hex::encode(k))
}

#[derive(Clone, Debug, PartialEq)]
pub enum ROp {
    MarkRes(u8),
    MarkNon(u8),
    MarkSpan(u8),
    /// delete_keys(&[R0, F0])
    DeleteSmall,
    /// delete_keys of 10 001 keys (batch path): R1, F0, the last filler and keys never marked
    DeleteBig,
    Save,
    Load,
}

#[derive(Clone, Copy, PartialEq, Eq, Debug)]
enum Mark {
    Resident,
    NonResident,
    SpanNonResident,
}

type ResMap = BTreeMap<[u8; 16], Mark>;

enum ResImpl {
    Raw(ResidencyDb),
    Cont(ResidencyContainer),
}

impl ResImpl {
    fn open(via_container: bool, dir: &std::path::Path, load: bool) -> Result<ResImpl, String> {
        if via_container {
            let mut c = ResidencyContainer::new("wow".into(), AccessMode::ReadWrite, dir.to_path_buf());
            if load {
                block_on(c.initialize()).map_err(|e| format!("initialize failed: {e}"))?;
            }
            Ok(ResImpl::Cont(c))
        } else {
            let p = dir.join("key_state_v8");
            if load {
                ResidencyDb::load(&p).map(ResImpl::Raw).map_err(|e| format!("load failed: {e}"))
            } else {
                Ok(ResImpl::Raw(ResidencyDb::new(p)))
            }
        }
    }
    fn mark_resident(&mut self, k: &[u8; 16]) -> Result<(), String> {
        match self {
            ResImpl::Raw(d) => {
                d.mark_resident(k);
                Ok(())
            }
            ResImpl::Cont(c) => c.mark_resident(k).map_err(|e| e.to_string()),
        }
    }
    fn mark_non_resident(&mut self, k: &[u8; 16]) -> Result<(), String> {
        match self {
            ResImpl::Raw(d) => {
                d.mark_non_resident(k);
                Ok(())
            }
            ResImpl::Cont(c) => c.mark_non_resident(k).map_err(|e| e.to_string()),
        }
    }
    fn mark_span(&mut self, k: &[u8; 16], o: i32, l: i32) -> Result<(), String> {
        match self {
            ResImpl::Raw(d) => {
                d.mark_span_non_resident(k, o, l);
                Ok(())
            }
            ResImpl::Cont(c) => c.mark_span_non_resident(k, o, l).map_err(|e| e.to_string()),
        }
    }
    fn delete_keys(&mut self, ks: &[[u8; 16]]) -> Result<(), String> {
        match self {
            ResImpl::Raw(d) => {
                d.delete_keys(ks);
                Ok(())
            }
            ResImpl::Cont(c) => c.delete_keys(ks).map_err(|e| e.to_string()),
        }
    }
    fn save(&mut self) -> Result<(), String> {
        match self {
            ResImpl::Raw(d) => d.save().map_err(|e| e.to_string()),
            ResImpl::Cont(c) => c.flush().map_err(|e| e.to_string()),
        }
    }
    fn is_resident(&self, k: &[u8; 16]) -> bool {
        match self {
            ResImpl::Raw(d) => d.is_resident(k),
            ResImpl::Cont(c) => c.is_resident(k),
        }
    }
    fn scan_keys(&self) -> Vec<[u8; 16]> {
        match self {
            ResImpl::Raw(d) => d.scan_keys(),
            ResImpl::Cont(c) => c.scan_keys(),
        }
    }
    fn entry_count(&self) -> usize {
        match self {
            ResImpl::Raw(d) => d.entry_count(),
            ResImpl::Cont(c) => c.resident_count(),
        }
    }
}

pub struct ResSubject {
    pub fillers: u32,
    pub saved: bool,
    pub via_container: bool,
    big: Vec<[u8; 16]>,
    probe: Vec<[u8; 16]>,
}

impl ResSubject {
    pub fn new(fillers: u32, saved: bool, via_container: bool) -> ResSubject {
        let mut big: Vec<[u8; 16]> = vec![res_key(1), res_key(3)];
        if fillers > 0 {
            big.push(res_filler(fillers - 1));
        }
        let mut i = 0u32;
        while big.len() < 10_001 {
            // never-marked keys, spread over all buckets
            let mut k = [0x6Bu8; 16];
            k[0..4].copy_from_slice(&i.to_le_bytes());
            k[2] = 0xD7;
            k[12] = (i % 251) as u8;
            big.push(k);
            i += 1;
        }
        let mut probe: Vec<[u8; 16]> = (0..4).map(res_key).collect();
        for f in 1..fillers {
            probe.push(res_filler(f));
        }
        // never marked, same bucket, same first 8 bytes as filler 1
        let mut nm = res_filler(1);
        nm[10] ^= 0x44;
        nm[11] ^= 0x44;
        probe.push(nm);
        ResSubject { fillers, saved, via_container, big, probe }
    }
    fn is_base(&self) -> bool {
        self.fillers == 0 && !self.saved && !self.via_container
    }
    fn name(&self) -> String {
        format!(
            "res:n={},{},{}",
            self.fillers,
            if self.saved { "saved+loaded" } else { "mem" },
            if self.via_container { "container" } else { "raw" }
        )
    }
}

fn check_res(imp: &ResImpl, mem: &ResMap, probe: &[[u8; 16]], log: &mut String) -> Option<(String, String)> {
    for (i, k) in probe.iter().enumerate() {
        let r = imp.is_resident(k);
        let e = mem.get(k) == Some(&Mark::Resident);
        if r != e {
            let kind = if r { "is-resident-true-but-latest-mark-says-no" } else { "is-resident-false-but-latest-mark-says-yes" };
            return Some((kind.into(), format!("is_resident({}) = {r}; latest mark: {:?}", res_label(k), mem.get(k))));
        }
        if i < 4 {
            log.push(if r { '1' } else { '0' });
        }
    }
    let scan = imp.scan_keys();
    let set: BTreeSet<[u8; 16]> = scan.iter().copied().collect();
    if set.len() != scan.len() {
        return Some(("scan-duplicate".into(), format!("scan_keys yields {} keys, {} distinct", scan.len(), set.len())));
    }
    let exp: BTreeSet<[u8; 16]> = mem.iter().filter(|(_, m)| **m == Mark::Resident).map(|(k, _)| *k).collect();
    if set != exp {
        if let Some(k) = exp.difference(&set).next() {
            return Some(("scan-misses-resident-key".into(), format!("scan_keys does not yield {} although its latest mark is resident", res_label(k))));
        }
        if let Some(k) = set.difference(&exp).next() {
            return Some(("scan-yields-non-resident-key".into(), format!("scan_keys yields {}; latest mark: {:?}", res_label(k), mem.get(k))));
        }
    }
    // entry_count: "total number of live entries" — a key whose latest mark is a
    // non-resident *span* is still a live (tracked) entry; this reading is pinned by the
    // repository's own test `test_span_non_resident`.
    let ec = imp.entry_count();
    let tracked = mem.values().filter(|m| **m != Mark::NonResident).count();
    if ec != tracked {
        return Some(("entry-count-mismatch".into(), format!("entry_count() = {ec}; {} keys are resident and {} more are tracked with a non-resident span", exp.len(), tracked - exp.len())));
    }
    log.push_str(&format!("#{ec}/{};", scan.len()));
    None
}

fn run_res(s: &ResSubject, hist: &[ROp]) -> SeqRun {
    let fail = |i: usize, kind: String, detail: String, calls: u64| SeqRun { violation: Some((i, kind, detail)), state_key: None, outcome: 0, calls };
    // a directory is only needed when something is saved or loaded
    let needs_disk = s.saved || hist.iter().any(|o| matches!(o, ROp::Save | ROp::Load));
    let scratch = if needs_disk { Some(Scratch::new("c05r")) } else { None };
    let dir: std::path::PathBuf = scratch.as_ref().map(|s| s.path.clone()).unwrap_or_else(|| "/nonexistent-c05r".into());
    let mut imp = match ResImpl::open(s.via_container, &dir, false) {
        Ok(x) => x,
        Err(e) => return fail(0, "prestate-setup".into(), e, 0),
    };
    let mut mem = ResMap::new();
    let mut disk: Option<ResMap> = None;
    let mut calls = 0u64;
    for f in 0..s.fillers {
        let k = res_filler(f);
        if let Err(e) = imp.mark_resident(&k) {
            return fail(0, "prestate-setup".into(), e, calls);
        }
        mem.insert(k, Mark::Resident);
    }
    if s.saved {
        if let Err(e) = imp.save() {
            return fail(0, "prestate:save-error".into(), e, calls);
        }
        disk = Some(mem.clone());
        imp = match ResImpl::open(s.via_container, &dir, true) {
            Ok(x) => x,
            Err(e) => return fail(0, "prestate:load-error".into(), e, calls),
        };
    }
    let mut log = String::new();
    let obs_calls = s.probe.len() as u64 + 2;
    calls += obs_calls;
    if let Some((k, d)) = check_res(&imp, &mem, &s.probe, &mut log) {
        return fail(0, format!("prestate:{k}"), d, calls);
    }
    for (i, op) in hist.iter().enumerate() {
        calls += 1;
        let r: Result<(), String> = match op {
            ROp::MarkRes(k) => {
                mem.insert(res_key(*k), Mark::Resident);
                imp.mark_resident(&res_key(*k))
            }
            ROp::MarkNon(k) => {
                mem.insert(res_key(*k), Mark::NonResident);
                imp.mark_non_resident(&res_key(*k))
            }
            ROp::MarkSpan(k) => {
                mem.insert(res_key(*k), Mark::SpanNonResident);
                let (o, l) = res_span(*k);
                imp.mark_span(&res_key(*k), o, l)
            }
            ROp::DeleteSmall => {
                let ks = [res_key(0), res_key(3)];
                for k in &ks {
                    mem.insert(*k, Mark::NonResident);
                }
                imp.delete_keys(&ks)
            }
            ROp::DeleteBig => {
                for k in &s.big {
                    if let Some(m) = mem.get_mut(k) {
                        *m = Mark::NonResident;
                    }
                }
                imp.delete_keys(&s.big)
            }
            ROp::Save => {
                disk = Some(mem.clone());
                imp.save()
            }
            ROp::Load => {
                // only what an explicit save persisted has to survive
                mem = disk.clone().unwrap_or_default();
                match ResImpl::open(s.via_container, &dir, true) {
                    Ok(x) => {
                        imp = x;
                        Ok(())
                    }
                    Err(e) => Err(e),
                }
            }
        };
        let opn = canon_res(std::slice::from_ref(op));
        let opclass = opn.split('(').next().unwrap_or("").to_string();
        if let Err(e) = r {
            return fail(i, format!("{opclass}:error"), format!("{opn} failed: {e}"), calls);
        }
        calls += obs_calls;
        if let Some((k, d)) = check_res(&imp, &mem, &s.probe, &mut log) {
            return fail(i, format!("{opclass}:{k}"), format!("after {opn}: {d}"), calls);
        }
    }
    SeqRun { violation: None, state_key: None, outcome: fnv64_str(&log), calls }
}

fn canon_res(hist: &[ROp]) -> String {
    hist.iter()
        .map(|o| match o {
            ROp::MarkRes(k) => format!("mark_resident({})", RES_KEY_NAMES[*k as usize]),
            ROp::MarkNon(k) => format!("mark_non_resident({})", RES_KEY_NAMES[*k as usize]),
            ROp::MarkSpan(k) => format!("mark_span_non_resident({})", RES_KEY_NAMES[*k as usize]),
            ROp::DeleteSmall => "delete_keys[R0,F0]".to_string(),
            ROp::DeleteBig => "delete_keys[10001:R1,F0,last-filler,...]".to_string(),
            ROp::Save => "save".to_string(),
            ROp::Load => "load".to_string(),
        })
        .collect::<Vec<_>>()
        .join(";")
}

impl SeqSubject for ResSubject {
    type Op = ROp;
    fn config_name(&self) -> String {
        self.name()
    }
    fn sig_config(&self) -> String {
        "res".into()
    }
    fn alphabet(&self) -> Vec<ROp> {
        let mut a = Vec::new();
        for k in 0..4 {
            a.push(ROp::MarkRes(k));
        }
        for k in 0..4 {
            a.push(ROp::MarkNon(k));
        }
        for k in 0..4 {
            a.push(ROp::MarkSpan(k));
        }
        a.extend([ROp::DeleteSmall, ROp::DeleteBig, ROp::Save, ROp::Load]);
        a
    }
    fn canon(&self, hist: &[ROp]) -> String {
        canon_res(hist)
    }
    fn run(&self, hist: &[ROp]) -> SeqRun {
        let mut r = guarded(hist.len(), || run_res(self, hist));
        if r.violation.is_some() && !self.is_base() {
            let base = ResSubject::new(0, false, false);
            let rb = guarded(hist.len(), || run_res(&base, hist));
            if let Some((_, kind, _)) = &mut r.violation {
                let same = matches!(&rb.violation, Some((_, k, _)) if k == kind);
                if !same {
                    kind.push('@');
                    kind.push_str(&self.name()[4..]);
                }
            }
        }
        r
    }
}

// =====================================================================================
// driver
// =====================================================================================

/// Silence fd 2 while exploring: `IndexManager::load_index` prints "DEBUG: Index 00 …"
/// lines with `eprintln!` for every load of a non-empty bucket 0 (an output flood when it
/// happens 10^5 times). Restored on drop. `VERIF_SHOW_PANICS` keeps stderr.
struct StderrGag(i32);

impl StderrGag {
    fn new() -> StderrGag {
        if std::env::var_os("VERIF_SHOW_PANICS").is_some() {
            return StderrGag(-1);
        }
        unsafe {
            let saved = libc::dup(2);
            let null = libc::open(c"/dev/null".as_ptr(), libc::O_WRONLY);
            if saved >= 0 && null >= 0 {
                libc::dup2(null, 2);
                libc::close(null);
                StderrGag(saved)
            } else {
                StderrGag(-1)
            }
        }
    }
}

impl Drop for StderrGag {
    fn drop(&mut self) {
        if self.0 >= 0 {
            unsafe {
                libc::dup2(self.0, 2);
                libc::close(self.0);
            }
        }
    }
}

fn vacuity_index(rep: &Report) {
    let f = idx_key(0);
    let f2 = idx_key(1);
    let n = idx_key(2);
    let z = idx_key(3);
    let ok = f != f2
        && f[..9] == f2[..9]
        && n[..9] != f[..9]
        && z[..9] == [0u8; 9]
        && [f, f2, n].iter().all(|k| IndexManager::bucket_for_key(&EncodingKey::from_bytes(*k)) == BUCKET)
        && IndexManager::bucket_for_key(&EncodingKey::from_bytes(z)) == 0
        && (0..2 * UPDATE_CAPACITY + 8).all(|i| IndexManager::bucket_for_key(&EncodingKey::from_bytes(filler(i))) == BUCKET && bucket_of(&filler(i)) == BUCKET)
        && (0..2 * UPDATE_CAPACITY + 8).map(|i| k9(&filler(i))).collect::<BTreeSet<_>>().len() == (2 * UPDATE_CAPACITY + 8) as usize
        && filler(511)[..9] < n[..9]
        && n[..9] < filler(512)[..9];
    if !ok {
        rep.machinery_error("C05 index alphabet does not collide as designed (bucket / prefix construction)");
    }
}

fn vacuity_res(rep: &Report) {
    let r0 = res_key(0);
    let r1 = res_key(1);
    let r2 = res_key(2);
    let ok = r0[..8] == r1[..8]
        && r0[..8] == r2[..8]
        && r0 != r1
        && res_bucket_of(&r0) == RES_BUCKET
        && res_bucket_of(&r1) == RES_BUCKET
        && res_bucket_of(&r2) != RES_BUCKET
        && (0..64).all(|i| res_bucket_of(&res_filler(i)) == RES_BUCKET)
        && cascette_client_storage::kmt::key_state::ResidencyEntry::bucket_hash(&r0) == RES_BUCKET
        && cascette_client_storage::kmt::key_state::ResidencyEntry::bucket_hash(&r2) != RES_BUCKET;
    if !ok {
        rep.machinery_error("C05 residency alphabet does not collide as designed");
    }
}

fn time_setup(pre: &PreState, n: u32) -> f64 {
    let t = Instant::now();
    for _ in 0..n {
        let _ = setup_index(pre);
    }
    t.elapsed().as_secs_f64() * 1e6 / f64::from(n)
}

pub fn run(tier: Tier, seed: u64) -> i32 {
    let rep = Report::new("C05", tier, seed, Level::ModelChecking);
    rep.set_rule(
        "every history up to the depth bound over the mutator alphabet, from every listed pre-state, executed on the real IndexManager / ResidencyDb / ResidencyContainer in lock-step with a map model. Index observers (12 lookups incl. F/F'/N/Z and fillers at the first/tombstoned/overwritten/middle/last positions, has_entry, the complete iter_entries enumeration, entry_count, bucket_entry_count) are evaluated in the pre-state and in the state reached by every explored history; intermediate states of a replay get the cheap subset again. Residency observers (is_resident for the alphabet keys, every filler and a never-marked colliding key; scan_keys; entry_count) are evaluated after every operation. No state merging (the sorted/update split of a bucket and the page layout are hidden state), so states = histories; every history is distinct and non-trivial (>= 1 mutator from a verified pre-state)",
    );
    rep.assume("reference model: BTreeMap keyed by the 9-byte key prefix (latest add/update wins, remove and status Delete delete); residency: BTreeMap key → latest mark");
    rep.assume("persistence oracle: after reload each bucket holds the state of the last explicit persist point (save_all, or a flush of a bucket with definitely pending updates) or a later state of that bucket; a flush with nothing known to be pending is not counted as a persist point; bucket_entry_count and clear_bucket's return value are documented as sorted+update totals and only bounded from below (exact right after a flush/clear)");
    rep.assume("residency entry_count counts live entries = keys whose latest mark is resident or a non-resident span (pinned by the repository test test_span_non_resident)");
    rep.assume("index files live on tmpfs; crash behaviour is C06's subject");

    let _gag = StderrGag::new();
    vacuity_index(&rep);
    vacuity_res(&rep);

    let (pres, errs) = build_prestates();
    for e in &errs {
        // the remaining pre-states (at least "empty") are still explored: if the cause is a
        // defect of a mutator it shows up there as a violation, which takes precedence
        rep.machinery_error(&format!("cannot build a pre-state: {e}"));
    }

    // measured cost of reaching each pre-state in a fresh scratch directory
    let mut timings = Vec::new();
    for p in &pres {
        timings.push(json!({"prestate": p.name, "how": if p.replay.is_empty() { "write image + load_all" } else { "replay recorded ops on an empty directory" }, "setup_us": (time_setup(p, 50) * 10.0).round() / 10.0, "sorted": p.shape.0, "update": p.shape.1, "image_bytes": p.files.iter().map(|f| f.1.len()).sum::<usize>()}));
    }

    // a few complete cases, executed here, as samples
    for (pname, h) in [
        ("U1260-mem", vec![Op::Remove(0)]),
        ("S1260+U1260mixed-saved", vec![Op::Status(0, 3), Op::FlushBucket, Op::Reload]),
        ("S1260", vec![Op::Add(3, 1), Op::FlushAll, Op::Reload]),
    ] {
        if let Some(p) = pres.iter().find(|p| p.name == pname) {
            let r = IndexSubject { pre: p.clone(), base: Some(pres[0].clone()) }.run(&h);
            rep.sample(json!({"config": format!("idx:{pname}"), "prestate_shape": {"sorted": p.shape.0, "update": p.shape.1}, "history": canon_ops(&h), "real_calls": r.calls, "result": match &r.violation { Some((i, k, d)) => json!({"violation_at_op": i, "kind": k, "detail": d}), None => json!("agrees with the map model in every observed state") }}));
        }
    }
    {
        let s = ResSubject::new(25, true, true);
        let h = vec![ROp::MarkSpan(3), ROp::DeleteBig, ROp::Save, ROp::Load];
        let r = s.run(&h);
        rep.sample(json!({"config": s.name(), "history": canon_res(&h), "real_calls": r.calls, "result": match &r.violation { Some((i, k, d)) => json!({"violation_at_op": i, "kind": k, "detail": d}), None => json!("agrees with the mark model in every observed state") }}));
    }

    let idx_depth = tier.pick(3, 4); // maximum over the pre-states, see the table below
    let total_budget: u64 = tier.pick(120, 840);
    let t0 = Instant::now();
    let mut per = Vec::new();
    let base = pres[0].clone();
    for (i, p) in pres.iter().enumerate() {
        let s = IndexSubject { pre: p.clone(), base: if i == 0 { None } else { Some(base.clone()) } };
        let left = total_budget.saturating_sub(t0.elapsed().as_secs()).max(5);
        let t1 = Instant::now();
        // depth per pre-state (quick, thorough). Quick: depth 3 from the empty index and from
        // every pre-state with a full (1260) update section or a flushed sorted section, depth 2
        // from the 1259 siblings. Thorough: depth 4 from one pre-state of every shape; the
        // sibling that differs by one entry / by having been saved stays at depth 3.
        let depth = match p.name.as_str() {
            "empty" | "U1260-mem" | "S1260" | "S1260+U1260mixed-saved" => tier.pick(3, 4),
            "U1260-saved" => tier.pick(3, 3),
            "U1259-saved" => tier.pick(2, 4),
            "S3639+U2mixed-saved" | "S3640+U2mixed-saved" | "S25484+U2mixed-saved" => tier.pick(1, 2),
            _ => tier.pick(2, 3), // U1259-mem, S1260+U1259mixed-saved
        };
        let st = explore(&s, &SeqBounds::depth(depth).with_budget(left), &rep);
        per.push(json!({"prestate": p.name, "depth_bound": depth, "depth_completed": st.completed_depth, "histories": st.histories, "violating_histories": st.violations, "wall_s": (t1.elapsed().as_secs_f64() * 100.0).round() / 100.0}));
    }

    let res_depth = tier.pick(3, 4);
    let mut res_cfgs: Vec<(u32, bool, bool)> = vec![(0, false, false)];
    for n in [24u32, 25, 26, 50] {
        res_cfgs.push((n, false, false));
        res_cfgs.push((n, true, false));
    }
    res_cfgs.push((0, false, true));
    res_cfgs.push((25, true, true));
    let mut per_res = Vec::new();
    for (n, saved, cont) in res_cfgs {
        let s = ResSubject::new(n, saved, cont);
        let t1 = Instant::now();
        let st = explore(&s, &SeqBounds::depth(res_depth).with_budget(tier.pick(30, 120)), &rep);
        per_res.push(json!({"config": s.name(), "depth_completed": st.completed_depth, "histories": st.histories, "violating_histories": st.violations, "wall_s": (t1.elapsed().as_secs_f64() * 100.0).round() / 100.0}));
    }

    rep.extra(
        "bounds",
        json!({
            "index": {"depth": idx_depth, "alphabet": IndexSubject { pre: base.clone(), base: None }.alphabet().len(), "keys": KEY_NAMES, "locations": [idx_loc(0), idx_loc(1), idx_loc(2)], "bucket": BUCKET, "per_prestate": per},
            "residency": {"depth": res_depth, "alphabet": ResSubject::new(0, false, false).alphabet().len(), "keys": RES_KEY_NAMES, "bucket": RES_BUCKET, "big_batch": 10_001, "per_config": per_res},
        }),
    );
    rep.extra("prestate_setup", json!(timings));
    if rep.outcomes() < 50 {
        rep.machinery_error("vacuous exploration: fewer than 50 distinct outcomes");
    }
    drop(_gag);
    rep.finish()
}

fn nums(s: &str) -> Vec<u8> {
    s.split(|c: char| !c.is_ascii_digit()).filter(|t| !t.is_empty()).filter_map(|t| t.parse().ok()).collect()
}

fn parse_op(s: &str) -> Option<Op> {
    let n = nums(s);
    Some(if s.starts_with("Add") {
        Op::Add(*n.first()?, *n.get(1)?)
    } else if s.starts_with("Update") {
        Op::Update(*n.first()?, *n.get(1)?)
    } else if s.starts_with("Status") {
        Op::Status(*n.first()?, *n.get(1)?)
    } else if s.starts_with("Remove") {
        Op::Remove(*n.first()?)
    } else if s == "FlushBucket" {
        Op::FlushBucket
    } else if s == "FlushAll" {
        Op::FlushAll
    } else if s == "SaveAll" {
        Op::SaveAll
    } else if s == "Reload" {
        Op::Reload
    } else if s == "ClearBucket" {
        Op::ClearBucket
    } else {
        return None;
    })
}

fn parse_rop(s: &str) -> Option<ROp> {
    let n = nums(s);
    Some(if s.starts_with("MarkRes") {
        ROp::MarkRes(*n.first()?)
    } else if s.starts_with("MarkNon") {
        ROp::MarkNon(*n.first()?)
    } else if s.starts_with("MarkSpan") {
        ROp::MarkSpan(*n.first()?)
    } else if s == "DeleteSmall" {
        ROp::DeleteSmall
    } else if s == "DeleteBig" {
        ROp::DeleteBig
    } else if s == "Save" {
        ROp::Save
    } else if s == "Load" {
        ROp::Load
    } else {
        return None;
    })
}

/// Replay a witness: `witness.config` names the pre-state / configuration, `core_ops` the
/// minimal history (Debug form of the ops).
pub fn replay(w: &serde_json::Value) -> i32 {
    let cfg = w["witness"]["config"].as_str().unwrap_or("idx:empty").to_string();
    let ops: Vec<String> = w["witness"]["core_ops"]
        .as_array()
        .map(|a| a.iter().filter_map(|s| s.as_str().map(str::to_string)).collect())
        .unwrap_or_default();
    let _gag = StderrGag::new();
    let r = if let Some(name) = cfg.strip_prefix("idx:") {
        let (pres, errs) = build_prestates();
        for e in &errs {
            println!("note: {e}");
        }
        let Some(p) = pres.iter().find(|p| p.name == name) else {
            println!("MACHINERY-ERROR: unknown pre-state {name}");
            return 2;
        };
        let hist: Vec<Op> = ops.iter().filter_map(|s| parse_op(s)).collect();
        println!("replaying on IndexManager from pre-state {name} (sorted {}, update {}): {}", p.shape.0, p.shape.1, canon_ops(&hist));
        IndexSubject { pre: p.clone(), base: Some(pres[0].clone()) }.run(&hist)
    } else {
        // res:n=25,saved+loaded,container
        let n = nums(&cfg).first().copied().unwrap_or(0);
        let s = ResSubject::new(u32::from(n), cfg.contains("saved"), cfg.contains("container"));
        let hist: Vec<ROp> = ops.iter().filter_map(|s| parse_rop(s)).collect();
        println!("replaying on {}: {}", s.name(), canon_res(&hist));
        s.run(&hist)
    };
    match r.violation {
        Some((i, k, d)) => {
            println!("violates at op {i}: {k}: {d}");
            1
        }
        None => {
            println!("no violation");
            0
        }
    }
}
