//! C16 — applying a generated ZBSDIFF1 patch to the old file yields the new file; applying
//! *any* patch yields output of exactly the header's length or fails.
//!
//! ENUM engine, two halves.
//!
//! **gen** — every pair (old, new) of strings over {a,b} up to a length bound, expanded by a
//! *variant* (1 byte per letter; two 4-byte-block codes so that the chunked builder's
//! "≥ 4 matching bytes" rule and the suffix builder's "> 8 better than drift" rule fire;
//! 256-byte blocks so that the chunked builder's 256-byte extra chunks re-align and that
//! runs exceed the streaming patcher's 1 KiB minimum buffer) × builders {simple, chunked,
//! optimized, `build()` with the default configuration} × `max_diff_block_size` grid ×
//! patchers {`apply_patch_memory`, `ZbsDiff::parse(..).apply`, `ZbsdiffPatcher` with the
//! default buffer and `with_buffer_size(b)` for b on a grid, `refimpl::bspatch`}.
//! Oracle: the builder returns a patch, its header states `|new|`, and every patcher —
//! including the independent reference — returns exactly `new`.
//!
//! **any** — every control block of ≤ k triples with diff/extra ∈ 0..=3, seek ∈ −3..=3, with
//! diff/extra data of exact and off-by-one lengths and header `output_size` ∈ 0..=8, applied
//! to an empty and a 4-byte old file. Oracle: no panic; `Ok(out)` ⇒ `out.len()` =
//! `header.output_size`. (Agreement with the reference on hand-made patches is *not*
//! required — the library saturates a negative old position at 0 where classic bspatch keeps
//! it negative; the property only speaks about length for arbitrary patches. Disagreements
//! are counted in the evidence, not reported.)

use crate::refimpl::bspatch as refb;
use crate::report::{Level, Report, Tier};
use crate::util::{SplitMix, catch, fnv64, norm_loc, norm_msg, par_map, take_last_panic_loc};
use cascette_formats::zbsdiff::{ControlBlock, ControlEntry, ZbsDiff, ZbsdiffBuilder, ZbsdiffHeader, ZbsdiffPatcher, apply_patch_memory};
use serde_json::{Value, json};
use std::collections::{BTreeMap, BTreeSet};
use std::io::Cursor;
use std::sync::atomic::{AtomicBool, Ordering};
use std::time::Instant;

// ---------------------------------------------------------------------------------------
// alphabet
// ---------------------------------------------------------------------------------------

#[derive(Clone, Copy, PartialEq, Eq, PartialOrd, Ord, Debug)]
pub enum Variant {
    /// one byte per letter: a = 0x61, b = 0x62
    B1,
    /// four equal bytes per letter: "aaaa" / "bbbb" (clean block boundaries, long self-repeats)
    B4,
    /// four bytes per letter, blocks 75 % similar: "abcd" / "abed" (non-zero diff bytes)
    B4s,
    /// 256 filler bytes per letter, block b = block a with every 4th byte changed
    W256,
    /// 128 KiB per letter, extremely compressible: block a = zeros, block b = one 16-byte record
    /// repeated 8192 times (new content far larger than anything its compressed blocks suggest)
    Z128k,
}

impl Variant {
    fn name(self) -> &'static str {
        match self {
            Variant::B1 => "b1",
            Variant::B4 => "b4",
            Variant::B4s => "b4s",
            Variant::W256 => "w256",
            Variant::Z128k => "z128k",
        }
    }
    fn from_name(s: &str) -> Option<Variant> {
        Some(match s {
            "b1" => Variant::B1,
            "b4" => Variant::B4,
            "b4s" => Variant::B4s,
            "w256" => Variant::W256,
            "z128k" => Variant::Z128k,
            _ => return None,
        })
    }
}

/// The two blocks of a variant. Only the W256 filler depends on the seed.
fn blocks(v: Variant, seed: u64) -> (Vec<u8>, Vec<u8>) {
    match v {
        Variant::B1 => (vec![b'a'], vec![b'b']),
        Variant::B4 => (b"aaaa".to_vec(), b"bbbb".to_vec()),
        Variant::B4s => (b"abcd".to_vec(), b"abed".to_vec()),
        Variant::Z128k => {
            let rec = SplitMix(seed ^ 0xC16_0128).bytes(16);
            (vec![0u8; 128 * 1024], rec.iter().copied().cycle().take(128 * 1024).collect())
        }
        Variant::W256 => {
            let a = SplitMix(seed ^ 0xC16_0256).bytes(256);
            let mut b = a.clone();
            for (i, x) in b.iter_mut().enumerate() {
                if i % 4 == 2 {
                    *x ^= 0x5a;
                }
            }
            // the first bytes must differ so that a run over block a stops at a following b
            b[0] = a[0] ^ 0xff;
            (a, b)
        }
    }
}

fn expand(letters: &[u8], blk: &(Vec<u8>, Vec<u8>)) -> Vec<u8> {
    let mut out = Vec::with_capacity(letters.len() * blk.0.len());
    for l in letters {
        out.extend_from_slice(if *l == 0 { &blk.0 } else { &blk.1 });
    }
    out
}

/// All strings over {0,1} of length ≤ n, shortest first, then lexicographic.
fn all_strings(n: usize) -> Vec<Vec<u8>> {
    let mut out = Vec::new();
    for len in 0..=n {
        for bits in 0..(1u32 << len) {
            out.push((0..len).map(|i| ((bits >> (len - 1 - i)) & 1) as u8).collect());
        }
    }
    out
}

fn letters_str(l: &[u8]) -> String {
    l.iter().map(|x| if *x == 0 { 'a' } else { 'b' }).collect()
}

fn parse_letters(s: &str) -> Vec<u8> {
    s.bytes().map(|c| u8::from(c == b'b')).collect()
}

#[derive(Clone, Copy, PartialEq, Eq, PartialOrd, Ord, Debug)]
pub enum Builder {
    Simple,
    Chunked,
    Optimized,
    /// `ZbsdiffBuilder::new(old, new).build()` — no `with_max_diff_block_size` call
    Default,
}

impl Builder {
    fn name(self) -> &'static str {
        match self {
            Builder::Simple => "simple",
            Builder::Chunked => "chunked",
            Builder::Optimized => "optimized",
            Builder::Default => "build()",
        }
    }
    fn from_name(s: &str) -> Option<Builder> {
        Some(match s {
            "simple" => Builder::Simple,
            "chunked" => Builder::Chunked,
            "optimized" => Builder::Optimized,
            "build()" => Builder::Default,
            _ => return None,
        })
    }
}

/// `max_diff_block_size` grid: both sides of the chunked builder's "≥ 4" rule, 0 (accepted by
/// the API: "no minimum constraint"), and the default 1 MiB.
const MDBS: [usize; 8] = [0, 1, 2, 3, 4, 5, 8, 1 << 20];
/// `with_buffer_size` grid (the patcher clamps to ≥ 1 KiB; 1024 and 1025 sit on that clamp).
const BUFS: [usize; 8] = [1, 2, 3, 7, 64, 1024, 1025, 64 << 10];

#[derive(Clone, Copy, PartialEq, Eq, PartialOrd, Ord, Debug)]
enum Fam {
    Mem,
    Parse,
    Stream,
    Ref,
}

impl Fam {
    fn name(self) -> &'static str {
        match self {
            Fam::Mem => "mem",
            Fam::Parse => "parse",
            Fam::Stream => "stream",
            Fam::Ref => "ref",
        }
    }
}

type Applied = Result<Result<Vec<u8>, String>, String>; // outer Err = panic (normalised site)

fn panic_site(msg: &str) -> String {
    let loc = take_last_panic_loc().map(|l| norm_loc(&l)).unwrap_or_else(|| "?".into());
    // worktree prefix → repo-relative path
    let loc = match loc.find("crates/") {
        Some(i) => loc[i..].to_string(),
        None => loc,
    };
    format!("{loc}: {}", norm_msg(msg))
}

fn run_catch<T>(f: impl FnOnce() -> T) -> Result<T, String> {
    catch(f).map_err(|m| panic_site(&m))
}

fn stream_apply(old: &[u8], patch: &[u8], buf: Option<usize>) -> Result<Vec<u8>, String> {
    // documented usage: the expected output size is taken from the patch header
    let header = ZbsdiffHeader::parse_from_patch(patch).map_err(|e| e.to_string())?;
    let p = ZbsdiffPatcher::new(Cursor::new(old), header.output_size as usize);
    let p = match buf {
        Some(b) => p.with_buffer_size(b),
        None => p,
    };
    p.apply_patch_from_data(patch).map_err(|e| e.to_string())
}

/// All patchers of the grid, labelled.
fn apply_all(old: &[u8], patch: &[u8], with_ref: bool) -> Vec<(Fam, String, Applied)> {
    let mut out: Vec<(Fam, String, Applied)> = Vec::with_capacity(12);
    out.push((Fam::Mem, "apply_patch_memory".into(), run_catch(|| apply_patch_memory(old, patch).map_err(|e| e.to_string()))));
    out.push((
        Fam::Parse,
        "ZbsDiff::parse.apply".into(),
        run_catch(|| ZbsDiff::parse(patch).and_then(|p| p.apply(old)).map_err(|e| e.to_string())),
    ));
    out.push((Fam::Stream, "ZbsdiffPatcher(default buffer)".into(), run_catch(|| stream_apply(old, patch, None))));
    for b in BUFS {
        out.push((Fam::Stream, format!("ZbsdiffPatcher.with_buffer_size({b})"), run_catch(|| stream_apply(old, patch, Some(b)))));
    }
    if with_ref {
        out.push((Fam::Ref, "refimpl::bspatch".into(), run_catch(|| refb::bspatch(old, patch))));
    }
    out
}

fn build(b: Builder, mdbs: usize, old: &[u8], new: &[u8]) -> Result<Result<Vec<u8>, String>, String> {
    run_catch(|| {
        let zb = ZbsdiffBuilder::new(old.to_vec(), new.to_vec());
        let r = match b {
            Builder::Default => zb.build(),
            Builder::Simple => zb.with_max_diff_block_size(mdbs).build_simple_patch(),
            Builder::Chunked => zb.with_max_diff_block_size(mdbs).build_chunked_patch(),
            Builder::Optimized => zb.with_max_diff_block_size(mdbs).build_optimized_patch(),
        };
        r.map_err(|e| e.to_string())
    })
}

// ---------------------------------------------------------------------------------------
// gen half
// ---------------------------------------------------------------------------------------

#[derive(Clone, Debug)]
struct GenCase {
    variant: Variant,
    old: Vec<u8>, // letters
    new: Vec<u8>, // letters
    builder: Builder,
    mdbs: usize,
}

impl GenCase {
    /// simplest-first order used to pick the witness of a class
    fn order_key(&self) -> (usize, Variant, usize, Vec<u8>, Vec<u8>, Builder, usize) {
        let w = match self.variant {
            Variant::B1 => 1,
            Variant::B4 | Variant::B4s => 4,
            Variant::W256 => 256,
            Variant::Z128k => 128 * 1024,
        };
        ((self.old.len() + self.new.len()) * w, self.variant, self.old.len(), self.old.clone(), self.new.clone(), self.builder, self.mdbs)
    }
    fn to_json(&self, seed: u64) -> Value {
        json!({
            "part": "gen",
            "variant": self.variant.name(),
            "old": letters_str(&self.old),
            "new": letters_str(&self.new),
            "builder": self.builder.name(),
            "max_diff_block_size": self.mdbs,
            "seed": seed,
        })
    }
    fn short(&self) -> String {
        format!(
            "{}:old={}:new={}:mdbs={}",
            self.variant.name(),
            letters_str(&self.old),
            letters_str(&self.new),
            if self.builder == Builder::Default { "default".to_string() } else { self.mdbs.to_string() }
        )
    }
}

/// One failing class observed on one case: `kind/builder/patchers=…` and a human detail.
#[derive(Clone, Debug)]
struct Finding {
    class: String,
    kind: String,
    detail: String,
}

struct GenEval {
    findings: Vec<Finding>,
    control: Vec<refb::Triple>,
}

fn show(b: &[u8]) -> String {
    if b.len() <= 40 {
        format!("{:?}", String::from_utf8_lossy(b))
    } else {
        format!("<{} bytes, fnv {:016x}>", b.len(), fnv64(b))
    }
}

fn first_diff(a: &[u8], b: &[u8]) -> usize {
    a.iter().zip(b.iter()).position(|(x, y)| x != y).unwrap_or(a.len().min(b.len()))
}

/// What applying one patch (bytes) to `old` with every patcher gave — independent of which
/// builder configuration produced the bytes, so it is computed once per distinct patch of a
/// pair (patchers are stateless functions of (old, patch bytes, buffer size)).
struct PatchEval {
    /// (kind incl. panic site, failing patcher families, detail)
    issues: Vec<(String, String, String)>,
    applications: u64,
    uses_old: bool,
    shape: u64,
    control: Vec<refb::Triple>,
}

fn eval_patch(old: &[u8], new: &[u8], patch: &[u8]) -> PatchEval {
    let mut pe = PatchEval { issues: Vec::new(), applications: 0, uses_old: false, shape: 1, control: Vec::new() };
    if let Ok(p) = refb::parse(patch) {
        pe.uses_old = !p.diff.is_empty();
        let (mut d, mut x, mut neg, mut pos) = (0i64, 0i64, false, false);
        for t in &p.control {
            d += t.diff;
            x += t.extra;
            neg |= t.seek < 0;
            pos |= t.seek > 0;
        }
        pe.shape = fnv64(format!("{}|{}|{}|{}|{}", p.control.len().min(9), d.min(40), x.min(40), neg, pos).as_bytes());
        pe.control = p.control;
    }
    // header states |new|
    match ZbsdiffHeader::parse_from_patch(patch) {
        Ok(h) if h.output_size == new.len() as i64 => {}
        other => pe.issues.push((
            "header-size".into(),
            "header".into(),
            format!("header of the generated patch: {:?}, |new| = {}", other.map(|h| h.output_size).map_err(|e| e.to_string()), new.len()),
        )),
    }
    // every patcher returns exactly `new`
    let mut by_kind: BTreeMap<String, (BTreeSet<Fam>, String)> = BTreeMap::new();
    for (fam, label, res) in apply_all(old, patch, true) {
        pe.applications += 1;
        let (kind, detail) = match res {
            Err(site) => (format!("patcher-panic@{site}"), format!("{label} panicked at {site}")),
            Ok(Err(e)) => ("patch-rejected".to_string(), format!("{label} returned Err({e})")),
            Ok(Ok(out)) if out == new => continue,
            Ok(Ok(out)) if out.len() != new.len() => ("wrong-length".to_string(), format!("{label} returned {} bytes, new has {}", out.len(), new.len())),
            Ok(Ok(out)) => (
                "wrong-output".to_string(),
                format!("{label} returned Ok with the right length but different bytes (first difference at offset {}): got {} want {}", first_diff(&out, new), show(&out), show(new)),
            ),
        };
        let e = by_kind.entry(kind).or_insert_with(|| (BTreeSet::new(), detail));
        e.0.insert(fam);
    }
    for (kind, (fams, detail)) in by_kind {
        let fams: Vec<&str> = fams.iter().map(|f| f.name()).collect();
        let ctl: Vec<(i64, i64, i64)> = pe.control.iter().take(8).map(|t| (t.diff, t.extra, t.seek)).collect();
        pe.issues.push((kind, fams.join("+"), format!("{detail}; old={} new={} control={ctl:?}", show(old), show(new))));
    }
    pe
}

/// Build step of one case: the patch bytes, or the finding that there is none.
fn build_step(c: &GenCase, old: &[u8], new: &[u8]) -> Result<Vec<u8>, Finding> {
    let bname = c.builder.name();
    match build(c.builder, c.mdbs, old, new) {
        Err(site) => Err(Finding {
            class: format!("builder-panic/{bname}/{site}"),
            kind: "builder-panic".into(),
            detail: format!("{bname} builder panicked at {site} for old={} new={}", show(old), show(new)),
        }),
        // The statement quantifies over *any* pair (the quantifier names "empty new" and
        // "empty old" explicitly), so a builder that cannot produce a patch for a pair is
        // reported — as its own kind, separate from wrong patches.
        Ok(Err(e)) => Err(Finding {
            class: format!("builder-error/{bname}/{}", norm_msg(&e)),
            kind: "builder-error".into(),
            detail: format!("{bname} builder returned Err({e}) for old={} new={}", show(old), show(new)),
        }),
        Ok(Ok(p)) => Ok(p),
    }
}

fn findings_of(c: &GenCase, pe: &PatchEval) -> Vec<Finding> {
    let bname = c.builder.name();
    pe.issues
        .iter()
        .map(|(kind, fams, detail)| Finding {
            class: format!("{kind}/{bname}/patchers={fams}"),
            kind: kind.split('@').next().unwrap_or("").to_string(),
            detail: detail.clone(),
        })
        .collect()
}

/// Complete evaluation of one case (used for replay; the enumeration shares `eval_patch`
/// results between configurations of one pair that produced identical patch bytes).
fn eval_gen(c: &GenCase, blk: &(Vec<u8>, Vec<u8>)) -> GenEval {
    let old = expand(&c.old, blk);
    let new = expand(&c.new, blk);
    match build_step(c, &old, &new) {
        Err(f) => GenEval { findings: vec![f], control: Vec::new() },
        Ok(patch) => {
            let pe = eval_patch(&old, &new, &patch);
            GenEval { findings: findings_of(c, &pe), control: pe.control }
        }
    }
}

#[derive(Default)]
struct ClassAcc {
    count: u64,
    best: Option<(GenCase, Finding)>,
}

fn merge_class(into: &mut BTreeMap<String, ClassAcc>, class: String, case: &GenCase, f: &Finding, n: u64) {
    let acc = into.entry(class).or_default();
    acc.count += n;
    let better = match &acc.best {
        None => true,
        Some((b, _)) => case.order_key() < b.order_key(),
    };
    if better {
        acc.best = Some((case.clone(), f.clone()));
    }
}

#[derive(Default)]
struct GenShard {
    builds: u64,
    patches: u64,
    distinct_patches: u64,
    applications: u64,
    /// applications not executed because an earlier configuration of the same pair produced
    /// byte-identical patch data (their verdict is shared)
    applications_shared: u64,
    uses_old: u64,
    multi_entry: u64,
    shapes: BTreeSet<u64>,
    classes: BTreeMap<String, ClassAcc>,
    samples: BTreeMap<(Variant, Builder), Value>,
    skipped: bool,
}

fn builder_grid() -> Vec<(Builder, usize)> {
    let mut g = vec![(Builder::Default, 1 << 20)];
    for b in [Builder::Simple, Builder::Chunked, Builder::Optimized] {
        for m in MDBS {
            g.push((b, m));
        }
    }
    g
}

fn run_gen(rep: &Report, tier: Tier, seed: u64, deadline: Instant) -> Value {
    // (variant, letter bound)
    let plan: Vec<(Variant, usize)> = match tier {
        Tier::Quick => vec![(Variant::B1, 6), (Variant::B4, 6), (Variant::B4s, 5), (Variant::W256, 5), (Variant::Z128k, 1)],
        Tier::Thorough => vec![(Variant::B1, 8), (Variant::B4, 8), (Variant::B4s, 7), (Variant::W256, 6), (Variant::Z128k, 2)],
    };
    let grid = builder_grid();
    let mut tasks: Vec<(Variant, usize, usize)> = Vec::new(); // (variant, bound, old index)
    let mut strings: BTreeMap<usize, Vec<Vec<u8>>> = BTreeMap::new();
    for (v, n) in &plan {
        let s = strings.entry(*n).or_insert_with(|| all_strings(*n));
        for i in 0..s.len() {
            tasks.push((*v, *n, i));
        }
    }
    // long tasks first (better balance): sort by descending old length × block width
    let width = |v: Variant| match v {
        Variant::W256 => 256usize,
        Variant::Z128k => 128 * 1024,
        Variant::B1 => 1,
        _ => 4,
    };
    tasks.sort_by_key(|(v, n, i)| std::cmp::Reverse(strings[n][*i].len() * width(*v) * strings[n].len()));
    let stop = AtomicBool::new(false);
    let shards = par_map(tasks.len(), |ti| {
        let (v, n, oi) = tasks[ti];
        let mut sh = GenShard::default();
        if stop.load(Ordering::Relaxed) || Instant::now() > deadline {
            stop.store(true, Ordering::Relaxed);
            sh.skipped = true;
            return sh;
        }
        let blk = blocks(v, seed);
        let strs = &strings[&n];
        let old = expand(&strs[oi], &blk);
        for new_l in strs {
            let new = expand(new_l, &blk);
            // distinct patch bytes of this pair → evaluation
            let mut cache: Vec<(Vec<u8>, PatchEval)> = Vec::new();
            // the 128 KiB blocks: large diff blocks only (a block size of 1 means 10^5 control triples)
            let big_grid = [(Builder::Default, 1usize << 20), (Builder::Simple, 1 << 20), (Builder::Chunked, 1 << 20), (Builder::Optimized, 1 << 20), (Builder::Chunked, 4096), (Builder::Optimized, 4096)];
            for (b, m) in if v == Variant::Z128k { &big_grid[..] } else { &grid[..] } {
                let case = GenCase { variant: v, old: strs[oi].clone(), new: new_l.clone(), builder: *b, mdbs: *m };
                sh.builds += 1;
                let patch = match build_step(&case, &old, &new) {
                    Err(f) => {
                        merge_class(&mut sh.classes, f.class.clone(), &case, &f, 1);
                        continue;
                    }
                    Ok(p) => p,
                };
                sh.patches += 1;
                let idx = match cache.iter().position(|(p, _)| *p == patch) {
                    Some(i) => {
                        sh.applications_shared += cache[i].1.applications;
                        i
                    }
                    None => {
                        let pe = eval_patch(&old, &new, &patch);
                        sh.applications += pe.applications;
                        sh.distinct_patches += 1;
                        cache.push((patch, pe));
                        cache.len() - 1
                    }
                };
                let pe = &cache[idx].1;
                if pe.uses_old {
                    sh.uses_old += 1;
                }
                if pe.control.len() > 1 {
                    sh.multi_entry += 1;
                }
                sh.shapes.insert(pe.shape);
                for f in findings_of(&case, pe) {
                    merge_class(&mut sh.classes, f.class.clone(), &case, &f, 1);
                }
                // a few real cases for the evidence: patches that use old data with ≥ 2 triples
                if pe.control.len() >= 2 && pe.uses_old && pe.issues.is_empty() && pe.control.iter().any(|t| t.seek != 0 || *b == Builder::Chunked) && !sh.samples.contains_key(&(v, *b)) {
                    let mut j = case.to_json(seed);
                    j["control"] = json!(pe.control.iter().take(6).map(|t| json!([t.diff, t.extra, t.seek])).collect::<Vec<_>>());
                    j["patch_bytes"] = json!(cache[idx].0.len());
                    j["verdict"] = json!("all patchers and the reference returned new");
                    sh.samples.insert((v, *b), j);
                }
            }
        }
        sh
    });

    let mut total = GenShard::default();
    let mut skipped = 0u64;
    for sh in shards {
        if sh.skipped {
            skipped += 1;
            continue;
        }
        total.builds += sh.builds;
        total.patches += sh.patches;
        total.applications += sh.applications;
        total.applications_shared += sh.applications_shared;
        total.distinct_patches += sh.distinct_patches;
        total.uses_old += sh.uses_old;
        total.multi_entry += sh.multi_entry;
        total.shapes.extend(sh.shapes);
        for (class, acc) in sh.classes {
            if let Some((case, f)) = &acc.best {
                merge_class(&mut total.classes, class, case, f, acc.count);
            }
        }
        for (k, v) in sh.samples {
            total.samples.entry(k).or_insert(v);
        }
    }
    if skipped > 0 {
        rep.cap_hit(&format!("gen half: wall-clock cap reached, {skipped} of {} (variant, old) shards not run", tasks.len()));
    }
    rep.add_evaluations(total.applications + (total.builds - total.patches));
    rep.add_nontrivial_count(total.uses_old);
    for s in &total.shapes {
        rep.add_outcome(*s);
    }
    // one sample per (variant, builder), the suffix-array builder first
    let mut keys: Vec<&(Variant, Builder)> = total.samples.keys().collect();
    keys.sort_by_key(|(v, b)| (*b != Builder::Optimized, *v));
    for k in keys.into_iter().take(6) {
        rep.sample(total.samples[k].clone());
    }
    // report: one violation per class, witness = simplest case of the class, replayed first
    for (class, acc) in &total.classes {
        let Some((case, f)) = &acc.best else { continue };
        let blk = blocks(case.variant, seed);
        let again = eval_gen(case, &blk);
        if !again.findings.iter().any(|g| g.class == *class) {
            rep.machinery_error(&format!("gen: witness {} of class {class} did not fail again on replay", case.short()));
            continue;
        }
        let sig = format!("gen/{class}/min:{}", case.short());
        let mut w = case.to_json(seed);
        w["cases_in_class"] = json!(acc.count);
        rep.violation(&f.kind, &sig, w, &format!("{} [{} cases in this class]", f.detail, acc.count));
    }
    if total.shapes.len() < 8 || total.uses_old == 0 || total.multi_entry == 0 {
        rep.machinery_error(&format!(
            "gen half is vacuous: {} control-block shapes, {} patches use old data, {} have more than one triple",
            total.shapes.len(),
            total.uses_old,
            total.multi_entry
        ));
    }
    json!({
        "variants": plan.iter().map(|(v, n)| json!({"variant": v.name(), "max_letters": n, "strings": strings[n].len(), "pairs": strings[n].len() * strings[n].len()})).collect::<Vec<_>>(),
        "builder_configs": grid.len(),
        "max_diff_block_size": MDBS,
        "patcher_buffer_sizes": BUFS,
        "patchers_per_patch": 4 + BUFS.len(),
        "builds": total.builds,
        "patches_produced": total.patches,
        "distinct_patches_per_pair_summed": total.distinct_patches,
        "patch_applications": total.applications,
        "patch_applications_shared_by_byte_identical_patches_of_the_same_pair": total.applications_shared,
        "patches_reading_old_data": total.uses_old,
        "patches_with_more_than_one_triple": total.multi_entry,
        "failing_classes": total.classes.len(),
    })
}

// ---------------------------------------------------------------------------------------
// any half
// ---------------------------------------------------------------------------------------

const ANY_OLDS: [&[u8]; 2] = [b"", b"wxyz"];

fn triple_alphabet() -> Vec<(i64, i64, i64)> {
    let mut a = Vec::new();
    for d in 0..=3 {
        for e in 0..=3 {
            for s in -3..=3 {
                a.push((d, e, s));
            }
        }
    }
    a
}

fn diff_bytes(n: usize) -> Vec<u8> {
    (0..n).map(|i| (i + 1) as u8).collect()
}
fn extra_bytes(n: usize) -> Vec<u8> {
    (0..n).map(|i| 0xE0 + i as u8).collect()
}

#[derive(Clone, Debug)]
struct AnyCase {
    entries: Vec<(i64, i64, i64)>,
    dlen: usize,
    xlen: usize,
    out: i64,
    old: usize, // index into ANY_OLDS
    /// which patcher set judged the case (see `any_patchers`)
    full: bool,
}

impl AnyCase {
    fn short(&self) -> String {
        format!("entries={:?}:dlen={}:xlen={}:out={}:old={}", self.entries, self.dlen, self.xlen, self.out, ANY_OLDS[self.old].len())
    }
    fn to_json(&self) -> Value {
        json!({"part": "any", "entries": self.entries.iter().map(|t| json!([t.0, t.1, t.2])).collect::<Vec<_>>(),
               "diff_len": self.dlen, "extra_len": self.xlen, "output_size": self.out, "old": String::from_utf8_lossy(ANY_OLDS[self.old]), "byte_level_patchers": self.full})
    }
    fn patch(&self) -> Vec<u8> {
        let ctl: Vec<refb::Triple> = self.entries.iter().map(|t| refb::Triple { diff: t.0, extra: t.1, seek: t.2 }).collect();
        refb::assemble(&ctl, &diff_bytes(self.dlen), &extra_bytes(self.xlen), self.out)
    }
}

/// Patchers of the any half. `full` (control blocks shorter than the tier's bound): the three
/// byte-level entry points. Otherwise (the longest blocks of the tier — 10⁶ patches in quick,
/// 10⁸ in thorough): `apply_patch_memory` on the patch bytes and the streaming patcher
/// through its public pre-parsed entry point `ZbsdiffPatcher::apply_patch(&ControlBlock,
/// diff, extra)`, which skips three inflates (an inflate costs 7 µs, the patch loop 0.1 µs).
fn any_patchers(old: &[u8], patch: &[u8], full: bool, pre: &(Vec<(i64, i64, i64)>, Vec<u8>, Vec<u8>, i64)) -> Vec<(Fam, String, Applied)> {
    let mut v = vec![(Fam::Mem, "apply_patch_memory".to_string(), run_catch(|| apply_patch_memory(old, patch).map_err(|e| e.to_string())))];
    if full {
        v.push((Fam::Parse, "ZbsDiff::parse.apply".into(), run_catch(|| ZbsDiff::parse(patch).and_then(|p| p.apply(old)).map_err(|e| e.to_string()))));
        v.push((Fam::Stream, "ZbsdiffPatcher(default buffer)".into(), run_catch(|| stream_apply(old, patch, None))));
    } else {
        v.push((
            Fam::Stream,
            "ZbsdiffPatcher::apply_patch(pre-parsed)".into(),
            run_catch(|| {
                let cb = ControlBlock { entries: pre.0.iter().map(|t| ControlEntry::new(t.0, t.1, t.2)).collect() };
                ZbsdiffPatcher::new(Cursor::new(old), pre.3 as usize).apply_patch(&cb, &pre.1, &pre.2).map_err(|e| e.to_string())
            }),
        ));
    }
    v
}

struct AnyEval {
    findings: Vec<Finding>,
    oks: u64,
    errs: u64,
    ref_disagree: bool,
}

fn eval_any_patch(c: &AnyCase, patch: &[u8]) -> AnyEval {
    let full = c.full;
    let mut ev = AnyEval { findings: Vec::new(), oks: 0, errs: 0, ref_disagree: false };
    let old = ANY_OLDS[c.old];
    let out_size = c.out;
    // informational only, and only where the byte-level patchers run anyway
    let reference = if full { refb::bspatch(old, patch).ok() } else { None };
    let pre = (c.entries.clone(), diff_bytes(c.dlen), extra_bytes(c.xlen), c.out);
    for (fam, label, res) in any_patchers(old, patch, full, &pre) {
        match res {
            Err(site) => ev.findings.push(Finding {
                class: format!("panic/{}/{site}", fam.name()),
                kind: "patcher-panic".into(),
                detail: format!("{label} panicked at {site}"),
            }),
            Ok(Err(_)) => ev.errs += 1,
            Ok(Ok(out)) => {
                ev.oks += 1;
                if out.len() as i64 != out_size {
                    ev.findings.push(Finding {
                        class: format!("length-law/{}", fam.name()),
                        kind: "length-law".into(),
                        detail: format!("{label} returned Ok with {} bytes, the patch header states {out_size}", out.len()),
                    });
                }
                if full && reference.as_ref() != Some(&out) {
                    ev.ref_disagree = true;
                }
            }
        }
    }
    ev
}

#[derive(Default)]
struct AnyShard {
    patches: u64,
    applications: u64,
    oks: u64,
    errs: u64,
    complete: u64,
    ref_disagree: u64,
    classes: BTreeMap<String, (u64, Option<(AnyCase, Finding)>)>,
    samples: Vec<Value>,
    skipped: bool,
}

fn any_order(c: &AnyCase) -> (usize, i64, Vec<(i64, i64, i64)>, usize, usize, i64, usize) {
    let w: i64 = c.entries.iter().fold(0i64, |a, t| a.saturating_add(t.0 + t.1).saturating_add(t.2.saturating_abs()));
    (c.entries.len(), w, c.entries.clone(), c.dlen, c.xlen, c.out, c.old)
}

fn run_any(rep: &Report, tier: Tier, deadline: Instant) -> Value {
    let alpha = triple_alphabet();
    let max_entries = tier.pick(2usize, 3usize);
    // shards: the first triple (or the empty control block), remaining triples enumerated inside
    let n_shards = 1 + alpha.len() * if max_entries >= 3 { alpha.len() } else { 1 };
    let dtab: Vec<Vec<u8>> = (0..=11).map(|n| refb::deflate(&diff_bytes(n))).collect();
    let xtab: Vec<Vec<u8>> = (0..=11).map(|n| refb::deflate(&extra_bytes(n))).collect();
    let stop = AtomicBool::new(false);

    let eval_block = |entries: &[(i64, i64, i64)], sh: &mut AnyShard| {
        // the longest control blocks of a tier are judged by the light patcher set
        let full = entries.len() < max_entries;
        let one_old = max_entries >= 3 && !full;
        let ctl: Vec<refb::Triple> = entries.iter().map(|t| refb::Triple { diff: t.0, extra: t.1, seek: t.2 }).collect();
        let mut raw = Vec::new();
        for t in &ctl {
            raw.extend_from_slice(&refb::offtout(t.diff));
            raw.extend_from_slice(&refb::offtout(t.extra));
            raw.extend_from_slice(&refb::offtout(t.seek));
        }
        let cz = refb::deflate(&raw);
        let d: i64 = entries.iter().map(|t| t.0).sum();
        let x: i64 = entries.iter().map(|t| t.1).sum();
        for dl in [d - 1, d, d + 1] {
            if dl < 0 {
                continue;
            }
            for xl in [x - 1, x, x + 1] {
                if xl < 0 {
                    continue;
                }
                // 3-triple blocks (thorough tier): one block off by one at a time
                if one_old && dl != d && xl != x {
                    continue;
                }
                for out in 0..=8i64 {
                    let patch = refb::assemble_compressed(&cz, &dtab[dl as usize], &xtab[xl as usize], out);
                    for oi in 0..ANY_OLDS.len() {
                        if one_old && oi == 0 {
                            continue; // 3-triple blocks: the 4-byte old file only
                        }
                        let c = AnyCase { entries: entries.to_vec(), dlen: dl as usize, xlen: xl as usize, out, old: oi, full };
                        let ev = eval_any_patch(&c, &patch);
                        sh.patches += 1;
                        sh.applications += ev.oks + ev.errs + ev.findings.iter().filter(|f| f.kind == "patcher-panic").count() as u64;
                        sh.oks += ev.oks;
                        sh.errs += ev.errs;
                        if dl >= d && xl >= x && !entries.is_empty() {
                            sh.complete += 1;
                        }
                        if ev.ref_disagree {
                            sh.ref_disagree += 1;
                        }
                        if ev.findings.is_empty() {
                            if sh.samples.is_empty() && ev.oks > 0 && entries.len() >= 2 && d > 0 && x > 0 {
                                let mut j = c.to_json();
                                j["verdict"] = json!(format!("{} patchers returned Ok with {out} bytes, {} refused", ev.oks, ev.errs));
                                sh.samples.push(j);
                            }
                            continue;
                        }
                        for f in ev.findings {
                            let acc = sh.classes.entry(f.class.clone()).or_insert((0, None));
                            acc.0 += 1;
                            let better = match &acc.1 {
                                None => true,
                                Some((b, _)) => any_order(&c) < any_order(b),
                            };
                            if better {
                                acc.1 = Some((c.clone(), f));
                            }
                        }
                    }
                }
            }
        }
    };

    let shards = par_map(n_shards, |si| {
        let mut sh = AnyShard::default();
        if stop.load(Ordering::Relaxed) || Instant::now() > deadline {
            stop.store(true, Ordering::Relaxed);
            sh.skipped = true;
            return sh;
        }
        if si == 0 {
            eval_block(&[], &mut sh);
            return sh;
        }
        let si = si - 1;
        if max_entries >= 3 {
            // shard = (first, second): blocks [first] (once, when second == 0), [first, second], [first, second, *]
            let (f, s) = (alpha[si / alpha.len()], alpha[si % alpha.len()]);
            if si % alpha.len() == 0 {
                eval_block(&[f], &mut sh);
            }
            eval_block(&[f, s], &mut sh);
            for t in &alpha {
                eval_block(&[f, s, *t], &mut sh);
            }
        } else {
            let f = alpha[si];
            eval_block(&[f], &mut sh);
            if max_entries >= 2 {
                for s in &alpha {
                    eval_block(&[f, *s], &mut sh);
                }
            }
        }
        sh
    });

    // extreme seeks: one or two leading triples that only seek by ±(2^63 − 1), then every triple
    // of the alphabet — the old-file position saturates or overflows before the next read
    let mut shards = shards;
    {
        let mut sh = AnyShard::default();
        let ext = [i64::MAX, -i64::MAX];
        for s1 in ext {
            for t in &alpha {
                eval_block(&[(0, 0, s1), *t], &mut sh);
                if max_entries >= 3 || t.0 >= 2 {
                    for s2 in ext {
                        eval_block(&[(0, 0, s1), (0, 0, s2), *t], &mut sh);
                    }
                }
            }
        }
        shards.push(sh);
    }

    let mut t = AnyShard::default();
    let mut skipped = 0;
    for sh in shards {
        if sh.skipped {
            skipped += 1;
            continue;
        }
        t.patches += sh.patches;
        t.applications += sh.applications;
        t.oks += sh.oks;
        t.errs += sh.errs;
        t.complete += sh.complete;
        t.ref_disagree += sh.ref_disagree;
        if t.samples.len() < 3 {
            t.samples.extend(sh.samples);
        }
        for (class, (n, best)) in sh.classes {
            let acc = t.classes.entry(class).or_insert((0, None));
            acc.0 += n;
            if let Some((c, f)) = best {
                let better = match &acc.1 {
                    None => true,
                    Some((b, _)) => any_order(&c) < any_order(b),
                };
                if better {
                    acc.1 = Some((c, f));
                }
            }
        }
    }
    if skipped > 0 {
        rep.cap_hit(&format!("any half: wall-clock cap reached, {skipped} of {n_shards} shards not run"));
    }
    rep.add_evaluations(t.applications);
    rep.add_nontrivial_count(t.complete);
    rep.add_outcome(fnv64(format!("any-ok-{}", t.oks.min(1)).as_bytes()));
    rep.add_outcome(fnv64(format!("any-err-{}", t.errs.min(1)).as_bytes()));
    for s in t.samples.iter().take(3) {
        rep.sample(s.clone());
    }
    for (class, (n, best)) in &t.classes {
        let Some((c, f)) = best else { continue };
        let again = eval_any_patch(c, &c.patch());
        if !again.findings.iter().any(|g| g.class == *class) {
            rep.machinery_error(&format!("any: witness {} of class {class} did not fail again on replay", c.short()));
            continue;
        }
        let mut w = c.to_json();
        w["cases_in_class"] = json!(n);
        rep.violation(&f.kind, &format!("any/{class}/min:{}", c.short()), w, &format!("{} [{n} cases in this class]", f.detail));
    }
    if t.oks == 0 || t.errs == 0 {
        rep.machinery_error(&format!("any half is vacuous: {} Ok results, {} Err results", t.oks, t.errs));
    }
    json!({
        "max_triples": max_entries,
        "triple_alphabet": alpha.len(),
        "diff_extra_range": "0..=3", "seek_range": "-3..=3", "extreme_seeks": "one or two leading triples (0,0,±(2^63−1)) before every triple of the alphabet",
        "data_lengths": if max_entries >= 3 { "needed-1, needed, needed+1 for each of the diff and extra blocks (all 9 combinations for ≤ 2 triples; for 3 triples one block off by one at a time: 5 combinations)" } else { "needed-1, needed, needed+1 for each of the diff and extra blocks (all 9 combinations)" },
        "output_size": "0..=8",
        "old_files": ANY_OLDS.iter().map(|o| String::from_utf8_lossy(o).to_string()).collect::<Vec<_>>(),
        "patchers": format!("control blocks of < {max_entries} triples: apply_patch_memory, ZbsDiff::parse.apply, ZbsdiffPatcher::apply_patch_from_data on both old files; blocks of {max_entries} triples: apply_patch_memory (bytes) and ZbsdiffPatcher::apply_patch (pre-parsed) on {}", if max_entries >= 3 { "the 4-byte old file" } else { "both old files" }),
        "patches": t.patches,
        "applications": t.applications,
        "ok_results": t.oks,
        "err_results": t.errs,
        "patches_with_complete_blocks": t.complete,
        "informational_patches_where_library_and_reference_differ": t.ref_disagree,
    })
}

// ---------------------------------------------------------------------------------------
// entry points
// ---------------------------------------------------------------------------------------

pub fn run(tier: Tier, seed: u64) -> i32 {
    let rep = Report::new("C16", tier, seed, Level::Exploration);
    rep.set_rule(
        "gen: every ordered pair (old,new) of strings over {a,b} up to the letter bound, per variant (1-byte letters, 4-byte equal blocks, 4-byte similar blocks, 256-byte similar blocks) × every builder configuration (build() default; simple/chunked/optimized × max_diff_block_size grid) = one case; each patch is applied by every patcher of the grid and by the independent reference and compared with new; evaluations = patch applications compared with the oracle (+ failed builds); a gen case is non-trivial when its patch has a non-empty diff block, i.e. actually reads old data (all cases are distinct by construction) \
         | any: every control block of ≤ k triples over diff,extra ∈ 0..=3 × seek ∈ −3..=3 × diff/extra data lengths {needed−1, needed, needed+1} × header output_size 0..=8 × old ∈ {\"\", \"wxyz\"}; non-trivial = both data blocks complete, so only the final length comparison decides",
    );
    rep.assume("reference: refimpl::bspatch — classic bspatch semantics written from the format description (sign-magnitude offtin, relative signed seek, zero outside old), self-checked on hand-computed vectors at start-up");
    rep.assume("zlib inflate/deflate (flate2) is shared between reference and subject; it is a third-party RFC 1950 implementation, not code under test");
    rep.assume("ZbsdiffPatcher is constructed as documented: output size taken from the patch header");
    rep.assume("patchers are deterministic, stateless functions of (old, patch bytes, buffer size): when several builder configurations of one pair produce byte-identical patches the patch is applied once and the verdict shared (counted separately, not as evaluations)");
    if let Err(e) = refb::self_check() {
        rep.machinery_error(&format!("refimpl::bspatch self-check failed: {e}"));
        return rep.finish();
    }
    let start = Instant::now();
    // Safety net only (quick needs ≈ 12 s, thorough ≈ 4 min of an idle 16-core box); a run
    // that hits it reports `exhaustive: false`. VERIF_WALL_CAP_S overrides it on a loaded box.
    let budget = std::env::var("VERIF_WALL_CAP_S").ok().and_then(|s| s.parse().ok()).unwrap_or(tier.pick(300u64, 3000u64));
    let deadline = start + std::time::Duration::from_secs(budget);
    let g = run_gen(&rep, tier, seed, deadline);
    let gen_s = start.elapsed().as_secs_f64();
    let a = run_any(&rep, tier, deadline);
    rep.extra("bounds", json!({"gen": g, "any": a, "gen_wall_s": (gen_s * 10.0).round() / 10.0, "wall_cap_s": budget}));
    rep.finish()
}

pub fn replay(w: &Value) -> i32 {
    let w = &w["witness"];
    match w["part"].as_str() {
        Some("gen") => {
            let (Some(v), Some(b)) = (w["variant"].as_str().and_then(Variant::from_name), w["builder"].as_str().and_then(Builder::from_name)) else {
                println!("MACHINERY-ERROR: bad gen witness");
                return 2;
            };
            let case = GenCase {
                variant: v,
                old: parse_letters(w["old"].as_str().unwrap_or("")),
                new: parse_letters(w["new"].as_str().unwrap_or("")),
                builder: b,
                mdbs: w["max_diff_block_size"].as_u64().unwrap_or(1 << 20) as usize,
            };
            let seed = w["seed"].as_u64().unwrap_or(0);
            println!("replaying gen case {} with builder {}", case.short(), b.name());
            let ev = eval_gen(&case, &blocks(v, seed));
            println!("control block: {:?}", ev.control.iter().take(12).map(|t| (t.diff, t.extra, t.seek)).collect::<Vec<_>>());
            for f in &ev.findings {
                println!("violates: {}: {}", f.class, f.detail);
            }
            if ev.findings.is_empty() {
                println!("no violation");
                0
            } else {
                1
            }
        }
        Some("any") => {
            let entries: Vec<(i64, i64, i64)> = w["entries"]
                .as_array()
                .map(|a| a.iter().map(|t| (t[0].as_i64().unwrap_or(0), t[1].as_i64().unwrap_or(0), t[2].as_i64().unwrap_or(0))).collect())
                .unwrap_or_default();
            let old = w["old"].as_str().unwrap_or("");
            let c = AnyCase {
                entries,
                dlen: w["diff_len"].as_u64().unwrap_or(0) as usize,
                xlen: w["extra_len"].as_u64().unwrap_or(0) as usize,
                out: w["output_size"].as_i64().unwrap_or(0),
                old: ANY_OLDS.iter().position(|o| *o == old.as_bytes()).unwrap_or(0),
                full: w["byte_level_patchers"].as_bool().unwrap_or(true),
            };
            println!("replaying any case {}", c.short());
            let patch = c.patch();
            let full = c.full;
            let pre = (c.entries.clone(), diff_bytes(c.dlen), extra_bytes(c.xlen), c.out);
            for (_, label, res) in any_patchers(ANY_OLDS[c.old], &patch, full, &pre) {
                println!("  {label}: {:?}", res.map(|r| r.map(|o| format!("Ok({} bytes)", o.len()))));
            }
            let ev = eval_any_patch(&c, &patch);
            for f in &ev.findings {
                println!("violates: {}: {}", f.class, f.detail);
            }
            if ev.findings.is_empty() {
                println!("no violation");
                0
            } else {
                1
            }
        }
        _ => {
            println!("MACHINERY-ERROR: witness has no part");
            2
        }
    }
}
