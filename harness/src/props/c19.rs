//! C19 — install and download manifests select exactly the tagged files.
//!
//! Two exhaustive parts, both executed on the real builders / parsers in lock-step with a
//! set model (tag → set of file positions, shifted on file removal) and cross-read by an
//! independent reader of the serialized bytes (`refimpl::tagmask`, MSB-first):
//!
//! (i)  SEQ: every builder program up to the depth bound over 2 tags × a 3-slot file index
//!      alphabet (starting from 0 files, and from 7 files so that programs cross the 8-file
//!      byte boundary), for the install builder and the download builder v1/v2/v3. States
//!      are merged on the serialized manifest: a builder's fields are its tags, entries and
//!      header parameters (all serialized) plus the name→index map, which a probe observes on
//!      every explored program before it is merged. A tag is its name: `add_tag` of a name
//!      that is present is part of the alphabet while that tag selects no file (the builders
//!      return `Self`, they cannot refuse it), and leaves the model as it is — every later
//!      association by that name belongs to the one tag of that name.
//! (ii) ENUM: every file count 0..=70 (plus 255/256/257/1023 at the thorough tier) × 7 tag
//!      patterns × 0..=3 tags × 3 construction styles × formats (install v1, install v2
//!      re-opened with `from_manifest`, download v1/v2/v3 with base priorities across the
//!      signed range, builders re-opened from a foreign manifest whose padding bits are set,
//!      size manifest v1/v2), then a plain add, every `remove_file(i)`, i ∈ {0,7,8,last},
//!      followed by a re-add, and drains to zero files from the front/back/index 7.
//!
//! Oracle (no more than the property text): on parse(build(manifest)) the per-tag, all-of,
//! any-of (install), platform and priority queries return exactly the model's sets for every
//! non-empty subset of tags, size totals equal the sums, and the independent reader sees the
//! same tag → file sets with no padding bit set and no trailing bytes.
//! Decisions in the direction of not alarming: the empty tag combination is not judged
//! (install returns nothing, download returns everything); queries naming absent tags are not
//! judged; effective priority is `priority − base` clamped to i8 as the code documents
//! (saturating), an overflowing difference is not judged otherwise; result *order* is not
//! judged (results are compared as sorted lists); install v2 `file_type` bytes are not judged.

use crate::refimpl::tagmask as refr;
use crate::report::{Level, Report, Tier};
use crate::seq::{SeqBounds, SeqRun, SeqSubject, explore};
use crate::util::{catch, fnv64, par_map, seeded_bytes, take_last_panic_loc};
use cascette_crypto::{ContentKey, EncodingKey};
use cascette_formats::download::{DownloadManifest, DownloadManifestBuilder, PriorityCategory};
use cascette_formats::install::{
    InstallFileEntry, InstallHeader, InstallManifest, InstallManifestBuilder, TagType,
};
use cascette_formats::size::{SizeManifest, SizeManifestBuilder};
use serde_json::{Value, json};
use std::collections::{BTreeMap, BTreeSet};
use std::sync::atomic::{AtomicU64, Ordering};

type Vio = (String, String);

fn vio<T>(kind: &str, detail: String) -> Result<T, Vio> {
    Err((kind.to_string(), detail))
}

// ---------------------------------------------------------------------------------------
// alphabet data: tags, file attributes (functions of the file id)
// ---------------------------------------------------------------------------------------

const ALL_TYPES: [TagType; 17] = [
    TagType::Platform,
    TagType::Architecture,
    TagType::Locale,
    TagType::Category,
    TagType::Unknown,
    TagType::Component,
    TagType::Version,
    TagType::Optimization,
    TagType::Region,
    TagType::Device,
    TagType::Mode,
    TagType::Branch,
    TagType::Content,
    TagType::Feature,
    TagType::Expansion,
    TagType::Alternate,
    TagType::Option,
];

/// Tag identity `t` → (name, type). Names are pairwise distinct.
fn tag_def(t: usize) -> (String, TagType) {
    match t {
        0 => ("Windows".to_string(), TagType::Platform),
        1 => ("x86_64".to_string(), TagType::Architecture),
        2 => ("opt".to_string(), TagType::Option),
        _ => (format!("t{t:02}"), ALL_TYPES[t % 17]),
    }
}

const PRIOS: [i8; 5] = [-128, -1, 0, 1, 127];
const SIZE40_MAX: u64 = (1u64 << 40) - 1;

fn prio_of(id: usize) -> i8 {
    PRIOS[id % 5]
}
fn size40_of(id: usize) -> u64 {
    [1, SIZE40_MAX, 0][id % 3]
}
fn size32_of(id: usize) -> u64 {
    [1, u64::from(u32::MAX), 0][id % 3]
}
fn path_of(id: usize) -> String {
    format!("Data\\file{id:04}.bin")
}
/// 16 key bytes: id (big-endian) + salt + seed-selected filler. Distinct ids ⇒ distinct keys.
fn key_of(seed: u64, id: usize, salt: u8) -> [u8; 16] {
    let mut k = [0u8; 16];
    k[0] = (id >> 8) as u8;
    k[1] = id as u8;
    k[2] = salt;
    let fill = seeded_bytes(seed ^ u64::from(salt), id as u64, 13);
    k[3..].copy_from_slice(&fill);
    k
}
fn checksum_of(id: usize) -> u32 {
    0xC0DE_0000 | (id as u32 & 0xFFFF)
}
fn flags_of(id: usize, flag_size: u8) -> Vec<u8> {
    [id as u8, 0x55, 0xAA, (id >> 8) as u8][..flag_size as usize].to_vec()
}

/// Manifest format + builder configuration.
#[derive(Clone, Copy, Debug, PartialEq, Eq)]
pub enum Fmt {
    Install,
    /// install v2 manifest re-opened through `InstallManifestBuilder::from_manifest` (grid only)
    InstallV2,
    Download { version: u8, checksum: bool, flag_size: u8, base: i8 },
}

impl Fmt {
    pub fn name(&self) -> String {
        match self {
            Fmt::Install => "install-v1".into(),
            Fmt::InstallV2 => "install-v2-reopened".into(),
            Fmt::Download { version, checksum, flag_size, base } => {
                format!("download-v{version}-ck{}-f{flag_size}-b{base}", u8::from(*checksum))
            }
        }
    }
    fn family(&self) -> &'static str {
        match self {
            Fmt::Install => "install",
            Fmt::InstallV2 => "install-v2",
            Fmt::Download { .. } => "download",
        }
    }
    fn is_download(&self) -> bool {
        matches!(self, Fmt::Download { .. })
    }
    fn size_of(&self, id: usize) -> u64 {
        if self.is_download() { size40_of(id) } else { size32_of(id) }
    }
    fn parse(s: &str) -> Option<Fmt> {
        if s == "install-v1" {
            return Some(Fmt::Install);
        }
        if s == "install-v2-reopened" {
            return Some(Fmt::InstallV2);
        }
        let rest = s.strip_prefix("download-v")?;
        let mut it = rest.split('-');
        let version: u8 = it.next()?.parse().ok()?;
        let checksum = it.next()?.strip_prefix("ck")? == "1";
        let flag_size: u8 = it.next()?.strip_prefix('f')?.parse().ok()?;
        // base may be negative: "b-1" splits into "b" and "1"
        let b = it.next()?;
        let base: i8 = if b == "b" { -(it.next()?.parse::<i16>().ok()?) as i8 } else { b.strip_prefix('b')?.parse().ok()? };
        Some(Fmt::Download { version, checksum, flag_size, base })
    }
}

// ---------------------------------------------------------------------------------------
// reference model
// ---------------------------------------------------------------------------------------

#[derive(Clone, Debug)]
struct MFile {
    id: usize,
    size: u64,
    prio: i8,
}

#[derive(Clone, Debug)]
struct MTag {
    t: usize,
    files: BTreeSet<usize>,
}

#[derive(Clone, Debug, Default)]
struct Model {
    files: Vec<MFile>,
    tags: Vec<MTag>,
}

/// One primitive builder action (shared by the SEQ programs and the grid programs).
#[derive(Clone, Debug)]
enum Act {
    AddTag(usize),
    RemoveTag(usize),
    AddFile(usize),
    /// add_file_with_tags / add_file_with_properties
    AddFileTagged(usize, Vec<usize>),
    Assoc(usize, usize),
    /// install: associate_last_file_with_tag; download: associate_file_with_tags(last, [t])
    AssocLast(usize),
    /// install: associate_file_with_tag_by_index(file, tag position)
    AssocIdx(usize, usize),
    /// install: associate_files_with_tag(batch); download: one associate call per file
    AssocMany(Vec<usize>, usize),
    Dissoc(usize, usize),
    RemoveFile(usize),
    /// download: remove_file_by_key(key of the file at this position)
    RemoveByKey(usize),
    Reopen,
    SetSize(usize, u64),
    SetPrio(usize, i8),
}

#[derive(PartialEq, Eq, Debug)]
enum Applic {
    Changes,
    /// the API reports `false` and leaves the builder alone (download `&mut` removers)
    NoOpFalse,
    /// the call is made and the model stays as it is (`add_tag` of a name that is present)
    NoOp,
    /// the API would return an error and consume the builder: outside the alphabet
    Inadmissible,
}

impl Model {
    fn tag_pos(&self, t: usize) -> Option<usize> {
        self.tags.iter().position(|x| x.t == t)
    }
    /// New files take the smallest id not in use (keeps the number of distinct states small
    /// while every file in a manifest stays distinguishable).
    fn next_id(&self) -> usize {
        (0..).find(|i| !self.files.iter().any(|f| f.id == *i)).unwrap_or(0)
    }
    fn n(&self) -> usize {
        self.files.len()
    }
    fn applicability(&self, a: &Act, fmt: Fmt) -> Applic {
        let n = self.n();
        let has = |t: &usize| self.tag_pos(*t).is_some();
        let ok = |c: bool| if c { Applic::Changes } else { Applic::Inadmissible };
        match a {
            // Adding a name twice: the property speaks of "the files associated with a tag",
            // and a tag is addressed by its name everywhere. While the tag selects no file,
            // keeping the old tag and replacing it by a fresh one are the same thing, so only
            // that case is in the alphabet (decision in the direction of not alarming).
            Act::AddTag(t) => match self.tag_pos(*t) {
                None => Applic::Changes,
                Some(p) if self.tags[p].files.is_empty() => Applic::NoOp,
                Some(_) => Applic::Inadmissible,
            },
            Act::RemoveTag(t) => {
                if has(t) {
                    Applic::Changes
                } else if fmt.is_download() {
                    Applic::NoOpFalse
                } else {
                    Applic::Inadmissible
                }
            }
            Act::AddFile(id) => ok(!self.files.iter().any(|f| f.id == *id)),
            Act::AddFileTagged(id, ts) => ok(!self.files.iter().any(|f| f.id == *id) && ts.iter().all(has)),
            Act::Assoc(f, t) | Act::Dissoc(f, t) => ok(*f < n && has(t)),
            Act::AssocLast(t) => ok(n > 0 && has(t)),
            Act::AssocIdx(f, pos) => ok(!fmt.is_download() && *f < n && *pos < self.tags.len()),
            Act::AssocMany(fs, t) => ok(has(t) && fs.iter().all(|f| *f < n)),
            Act::RemoveFile(f) => {
                if *f < n {
                    Applic::Changes
                } else if fmt.is_download() {
                    Applic::NoOpFalse
                } else {
                    Applic::Inadmissible
                }
            }
            Act::RemoveByKey(f) => ok(fmt.is_download() && *f < n),
            Act::Reopen => Applic::Changes,
            Act::SetSize(f, _) | Act::SetPrio(f, _) => ok(fmt.is_download() && *f < n),
        }
    }
    fn apply(&mut self, a: &Act, fmt: Fmt) {
        match a {
            Act::AddTag(t) => self.tags.push(MTag { t: *t, files: BTreeSet::new() }),
            Act::RemoveTag(t) => {
                if let Some(p) = self.tag_pos(*t) {
                    self.tags.remove(p);
                }
            }
            Act::AddFile(id) => self.files.push(MFile { id: *id, size: fmt.size_of(*id), prio: prio_of(*id) }),
            Act::AddFileTagged(id, ts) => {
                self.files.push(MFile { id: *id, size: fmt.size_of(*id), prio: prio_of(*id) });
                let last = self.files.len() - 1;
                for t in ts {
                    let p = self.tag_pos(*t).unwrap();
                    self.tags[p].files.insert(last);
                }
            }
            Act::Assoc(f, t) => {
                let p = self.tag_pos(*t).unwrap();
                self.tags[p].files.insert(*f);
            }
            Act::AssocLast(t) => {
                let last = self.files.len() - 1;
                let p = self.tag_pos(*t).unwrap();
                self.tags[p].files.insert(last);
            }
            Act::AssocIdx(f, pos) => {
                self.tags[*pos].files.insert(*f);
            }
            Act::AssocMany(fs, t) => {
                let p = self.tag_pos(*t).unwrap();
                for f in fs {
                    self.tags[p].files.insert(*f);
                }
            }
            Act::Dissoc(f, t) => {
                let p = self.tag_pos(*t).unwrap();
                self.tags[p].files.remove(f);
            }
            Act::RemoveFile(f) | Act::RemoveByKey(f) => {
                if *f < self.files.len() {
                    self.files.remove(*f);
                    for tag in &mut self.tags {
                        tag.files = tag
                            .files
                            .iter()
                            .filter(|i| **i != *f)
                            .map(|i| if *i > *f { *i - 1 } else { *i })
                            .collect();
                    }
                }
            }
            Act::Reopen => {}
            Act::SetSize(f, s) => self.files[*f].size = *s,
            Act::SetPrio(f, p) => self.files[*f].prio = *p,
        }
    }
    fn set_of(&self, pos: usize) -> &BTreeSet<usize> {
        &self.tags[pos].files
    }
    fn all_of(&self, positions: &[usize]) -> Vec<usize> {
        (0..self.n()).filter(|i| positions.iter().all(|p| self.tags[*p].files.contains(i))).collect()
    }
    fn any_of(&self, positions: &[usize]) -> Vec<usize> {
        (0..self.n()).filter(|i| positions.iter().any(|p| self.tags[*p].files.contains(i))).collect()
    }
    fn sum(&self, idx: &[usize]) -> u64 {
        idx.iter().map(|i| self.files[*i].size).sum()
    }
    fn total(&self) -> u64 {
        self.files.iter().map(|f| f.size).sum()
    }
}

/// Which tag combinations are queried: every non-empty subset for ≤ 8 tags; for more tags
/// every single tag, every pair, every prefix and the full set.
fn subsets(k: usize) -> Vec<Vec<usize>> {
    let mut out = Vec::new();
    if k <= 8 {
        for m in 1u32..(1u32 << k) {
            out.push((0..k).filter(|j| m >> j & 1 == 1).collect());
        }
    } else {
        for a in 0..k {
            out.push(vec![a]);
        }
        for a in 0..k {
            for b in a + 1..k {
                out.push(vec![a, b]);
            }
        }
        for p in 3..=k {
            out.push((0..p).collect());
        }
    }
    out
}

// vacuity counters (measured, reported in the evidence)
static N_CHECKS: AtomicU64 = AtomicU64::new(0);
static N_SUBSET_QUERIES: AtomicU64 = AtomicU64::new(0);
static N_NONEMPTY_RESULTS: AtomicU64 = AtomicU64::new(0);
static N_PARTIAL_LAST_BYTE: AtomicU64 = AtomicU64::new(0);
static N_BOUNDARY_REMOVALS: AtomicU64 = AtomicU64::new(0);
static N_REF_READS: AtomicU64 = AtomicU64::new(0);
static N_QUERY_CALLS: AtomicU64 = AtomicU64::new(0);
static N_STRAY_PADDING: AtomicU64 = AtomicU64::new(0);

fn bump(c: &AtomicU64, n: u64) {
    c.fetch_add(n, Ordering::Relaxed);
}

// ---------------------------------------------------------------------------------------
// the system under test next to its model
// ---------------------------------------------------------------------------------------

enum RealB {
    I(Option<InstallManifestBuilder>),
    D(Option<DownloadManifestBuilder>),
}

struct Sys {
    fmt: Fmt,
    seed: u64,
    real: RealB,
    model: Model,
    /// builder API calls executed (mutators, snapshot/build/from_manifest)
    calls: u64,
    /// actions executed (a composite action such as add_file + set_file_checksum counts once)
    ops: u64,
    /// builder API calls made by the oracle (snapshot, build, probes) — a function of the state
    oracle_calls: u64,
}

fn names_of(ts: &[usize]) -> Vec<String> {
    ts.iter().map(|t| tag_def(*t).0).collect()
}

fn sorted(mut v: Vec<usize>) -> Vec<usize> {
    v.sort_unstable();
    v
}

impl Sys {
    fn new(fmt: Fmt, seed: u64) -> Result<Sys, Vio> {
        let real = match fmt {
            Fmt::Install | Fmt::InstallV2 => RealB::I(Some(InstallManifestBuilder::new())),
            Fmt::Download { version, checksum, flag_size, base } => {
                let b = DownloadManifestBuilder::new(version)
                    .map_err(|e| ("unexpected-error:new".to_string(), format!("new({version}): {e}")))?
                    .with_checksums(checksum)
                    .with_flags(flag_size)
                    .map_err(|e| ("unexpected-error:with_flags".to_string(), format!("with_flags({flag_size}): {e}")))?
                    .with_base_priority(base)
                    .map_err(|e| ("unexpected-error:with_base_priority".to_string(), format!("with_base_priority({base}): {e}")))?;
                RealB::D(Some(b))
            }
        };
        Ok(Sys { fmt, seed, real, model: Model::default(), calls: 3, ops: 0, oracle_calls: 0 })
    }

    fn ckey(&self, id: usize) -> ContentKey {
        ContentKey::from_bytes(key_of(self.seed, id, 0xC0))
    }
    fn ekey(&self, id: usize) -> EncodingKey {
        EncodingKey::from_bytes(key_of(self.seed, id, 0xE0))
    }

    /// Apply one action to the real builder and to the model. The caller guarantees that the
    /// model admits the action (`applicability != Inadmissible`).
    fn act(&mut self, a: &Act) -> Result<(), Vio> {
        let applic = self.model.applicability(a, self.fmt);
        if applic == Applic::Inadmissible {
            return vio("inadmissible-action", format!("{a:?} is outside the alphabet in this state"));
        }
        let n_before = self.model.n();
        self.ops += 1;
        match &mut self.real {
            RealB::I(slot) => {
                let b = slot.take().expect("builder present");
                let (nb, calls) = Self::act_install(b, a, self.seed, &self.model)?;
                self.calls += calls;
                *slot = Some(nb);
            }
            RealB::D(slot) => {
                let b = slot.take().expect("builder present");
                let (nb, calls) = Self::act_download(b, a, self.seed, self.fmt, &self.model, applic == Applic::NoOpFalse)?;
                self.calls += calls;
                *slot = Some(nb);
            }
        }
        if applic == Applic::Changes {
            self.model.apply(a, self.fmt);
        }
        if matches!(a, Act::RemoveFile(_) | Act::RemoveByKey(_)) && applic == Applic::Changes {
            let n_after = self.model.n();
            if n_before.div_ceil(8) != n_after.div_ceil(8) {
                bump(&N_BOUNDARY_REMOVALS, 1);
            }
        }
        Ok(())
    }

    fn act_install(
        b: InstallManifestBuilder,
        a: &Act,
        seed: u64,
        model: &Model,
    ) -> Result<(InstallManifestBuilder, u64), Vio> {
        let ck = |id: usize| ContentKey::from_bytes(key_of(seed, id, 0xC0));
        let e = |what: &str, err: &dyn std::fmt::Display| -> Vio {
            (format!("unexpected-error:{what}"), format!("{a:?} returned an error on a valid call: {err}"))
        };
        Ok(match a {
            Act::AddTag(t) => {
                let (name, ty) = tag_def(*t);
                (b.add_tag(name, ty), 1)
            }
            Act::RemoveTag(t) => (b.remove_tag(&tag_def(*t).0).map_err(|x| e("remove_tag", &x))?, 1),
            Act::AddFile(id) => (b.add_file(path_of(*id), ck(*id), size32_of(*id) as u32), 1),
            Act::AddFileTagged(id, ts) => {
                let names = names_of(ts);
                let refs: Vec<&str> = names.iter().map(String::as_str).collect();
                (
                    b.add_file_with_tags(path_of(*id), ck(*id), size32_of(*id) as u32, &refs)
                        .map_err(|x| e("add_file_with_tags", &x))?,
                    1,
                )
            }
            Act::Assoc(f, t) => {
                (b.associate_file_with_tag(*f, &tag_def(*t).0).map_err(|x| e("associate_file_with_tag", &x))?, 1)
            }
            Act::AssocLast(t) => (
                b.associate_last_file_with_tag(&tag_def(*t).0).map_err(|x| e("associate_last_file_with_tag", &x))?,
                1,
            ),
            Act::AssocIdx(f, pos) => (
                b.associate_file_with_tag_by_index(*f, *pos).map_err(|x| e("associate_file_with_tag_by_index", &x))?,
                1,
            ),
            Act::AssocMany(fs, t) => {
                (b.associate_files_with_tag(fs, &tag_def(*t).0).map_err(|x| e("associate_files_with_tag", &x))?, 1)
            }
            Act::Dissoc(f, t) => {
                (b.remove_file_from_tag(*f, &tag_def(*t).0).map_err(|x| e("remove_file_from_tag", &x))?, 1)
            }
            Act::RemoveFile(f) => (b.remove_file(*f).map_err(|x| e("remove_file", &x))?, 1),
            Act::Reopen => {
                let m = b.build().map_err(|x| ("build-failed".to_string(), format!("build() before re-opening failed: {x}")))?;
                let bytes = m.build().map_err(|x| ("serialize-failed".to_string(), format!("{x}")))?;
                let p = InstallManifest::parse(&bytes)
                    .map_err(|x| ("parse-failed".to_string(), format!("own output does not parse: {x}")))?;
                (InstallManifestBuilder::from_manifest(&p), 2)
            }
            Act::RemoveByKey(_) | Act::SetSize(..) | Act::SetPrio(..) => {
                let _ = model;
                return vio("inadmissible-action", format!("{a:?} is not an install builder call"));
            }
        })
    }

    fn act_download(
        mut b: DownloadManifestBuilder,
        a: &Act,
        seed: u64,
        fmt: Fmt,
        model: &Model,
        expect_false: bool,
    ) -> Result<(DownloadManifestBuilder, u64), Vio> {
        let Fmt::Download { checksum, flag_size, .. } = fmt else { unreachable!() };
        let ek = |id: usize| EncodingKey::from_bytes(key_of(seed, id, 0xE0));
        let e = |what: &str, err: &dyn std::fmt::Display| -> Vio {
            (format!("unexpected-error:{what}"), format!("{a:?} returned an error on a valid call: {err}"))
        };
        let want = |what: &str, got: bool| -> Result<(), Vio> {
            if got == !expect_false {
                Ok(())
            } else {
                vio(&format!("wrong-return:{what}"), format!("{a:?} returned {got}, the model says {}", !expect_false))
            }
        };
        Ok(match a {
            Act::AddTag(t) => {
                let (name, ty) = tag_def(*t);
                (b.add_tag(name, ty), 1)
            }
            Act::RemoveTag(t) => {
                let r = b.remove_tag(&tag_def(*t).0);
                want("remove_tag", r)?;
                (b, 1)
            }
            Act::AddFile(id) => {
                let idx = model.n();
                let mut calls = 1;
                let mut nb = b.add_file(ek(*id), size40_of(*id), prio_of(*id)).map_err(|x| e("add_file", &x))?;
                if checksum {
                    nb = nb.set_file_checksum(idx, checksum_of(*id)).map_err(|x| e("set_file_checksum", &x))?;
                    calls += 1;
                }
                if flag_size > 0 {
                    nb = nb.set_file_flags(idx, flags_of(*id, flag_size)).map_err(|x| e("set_file_flags", &x))?;
                    calls += 1;
                }
                (nb, calls)
            }
            Act::AddFileTagged(id, ts) => {
                let names = names_of(ts);
                let refs: Vec<&str> = names.iter().map(String::as_str).collect();
                let nb = b
                    .add_file_with_properties(
                        ek(*id),
                        size40_of(*id),
                        prio_of(*id),
                        if checksum { Some(checksum_of(*id)) } else { None },
                        if flag_size > 0 { Some(flags_of(*id, flag_size)) } else { None },
                        Some(&refs),
                    )
                    .map_err(|x| e("add_file_with_properties", &x))?;
                (nb, 1)
            }
            Act::Assoc(f, t) => {
                (b.associate_file_with_tag(*f, &tag_def(*t).0).map_err(|x| e("associate_file_with_tag", &x))?, 1)
            }
            Act::AssocLast(t) => {
                let last = model.n() - 1;
                let name = tag_def(*t).0;
                (b.associate_file_with_tags(last, &[name.as_str()]).map_err(|x| e("associate_file_with_tags", &x))?, 1)
            }
            Act::AssocMany(fs, t) => {
                let name = tag_def(*t).0;
                let mut nb = b;
                for f in fs {
                    nb = nb.associate_file_with_tag(*f, &name).map_err(|x| e("associate_file_with_tag", &x))?;
                }
                (nb, fs.len() as u64)
            }
            Act::Dissoc(f, t) => (
                b.disassociate_file_from_tag(*f, &tag_def(*t).0).map_err(|x| e("disassociate_file_from_tag", &x))?,
                1,
            ),
            Act::RemoveFile(f) => {
                let r = b.remove_file(*f);
                want("remove_file", r)?;
                (b, 1)
            }
            Act::RemoveByKey(f) => {
                let id = model.files[*f].id;
                let r = b.remove_file_by_key(&ek(id));
                want("remove_file_by_key", r)?;
                (b, 1)
            }
            Act::Reopen => {
                let m = b.build().map_err(|x| ("build-failed".to_string(), format!("build() before re-opening failed: {x}")))?;
                let bytes = m.build().map_err(|x| ("serialize-failed".to_string(), format!("{x}")))?;
                let p = DownloadManifest::parse(&bytes)
                    .map_err(|x| ("parse-failed".to_string(), format!("own output does not parse: {x}")))?;
                (DownloadManifestBuilder::from_manifest(&p), 2)
            }
            Act::SetSize(f, s) => {
                b.update_file_size(*f, *s).map_err(|x| e("update_file_size", &x))?;
                (b, 1)
            }
            Act::SetPrio(f, p) => {
                let r = b.update_file_priority(*f, *p);
                want("update_file_priority", r)?;
                (b, 1)
            }
            Act::AssocIdx(..) => return vio("inadmissible-action", format!("{a:?} is not a download builder call")),
        })
    }

    /// Re-open the builder from the manifest a foreign tool would have written for the same
    /// content with every padding bit set to 1 (grid only).
    fn reopen_with_padding_set(&mut self) -> Result<(), Vio> {
        let n = self.model.n();
        let pad: u8 = if n % 8 == 0 { 0 } else { 0xFFu8 >> (n % 8) };
        match &mut self.real {
            RealB::I(slot) => {
                let b = slot.take().expect("builder present");
                let mut m = b.build().map_err(|x| ("build-failed".to_string(), format!("{x}")))?;
                for t in &mut m.tags {
                    if let Some(last) = t.bit_mask.last_mut() {
                        *last |= pad;
                    }
                }
                let bytes = m.build().map_err(|x| ("serialize-failed".to_string(), format!("padded: {x}")))?;
                let p = InstallManifest::parse(&bytes).map_err(|x| ("parse-failed".to_string(), format!("padded input: {x}")))?;
                *slot = Some(InstallManifestBuilder::from_manifest(&p));
            }
            RealB::D(slot) => {
                let b = slot.take().expect("builder present");
                let mut m = b.build().map_err(|x| ("build-failed".to_string(), format!("{x}")))?;
                for t in &mut m.tags {
                    if let Some(last) = t.bit_mask.last_mut() {
                        *last |= pad;
                    }
                }
                let bytes = m.build().map_err(|x| ("serialize-failed".to_string(), format!("padded: {x}")))?;
                let p = DownloadManifest::parse(&bytes).map_err(|x| ("parse-failed".to_string(), format!("padded input: {x}")))?;
                *slot = Some(DownloadManifestBuilder::from_manifest(&p));
            }
        }
        self.calls += 2;
        Ok(())
    }

    /// Turn the install builder into one re-opened from a v2 manifest with the same content
    /// (grid only): build → lift to v2 (16-byte header, one type byte per entry) → serialize →
    /// parse → from_manifest.
    fn lift_to_install_v2(&mut self) -> Result<(), Vio> {
        let RealB::I(slot) = &mut self.real else { unreachable!() };
        let b = slot.take().expect("builder present");
        let m = b.build().map_err(|x| ("build-failed".to_string(), format!("{x}")))?;
        let v2 = InstallManifest {
            header: InstallHeader::new_v2(m.header.tag_count, m.header.entry_count, 20, 0),
            tags: m.tags.clone(),
            entries: m
                .entries
                .iter()
                .enumerate()
                .map(|(i, e)| InstallFileEntry::new_v2(e.path.clone(), e.content_key, e.file_size, (i % 3) as u8 + 1))
                .collect(),
        };
        let bytes = v2.build().map_err(|x| ("serialize-failed".to_string(), format!("v2: {x}")))?;
        let p = InstallManifest::parse(&bytes).map_err(|x| ("parse-failed".to_string(), format!("v2 input: {x}")))?;
        *slot = Some(InstallManifestBuilder::from_manifest(&p));
        self.calls += 2;
        Ok(())
    }
}

// ---------------------------------------------------------------------------------------
// the oracle
// ---------------------------------------------------------------------------------------

fn fmt_set<'a>(it: impl IntoIterator<Item = &'a usize>) -> String {
    let v: Vec<String> = it.into_iter().map(|i| i.to_string()).collect();
    format!("{{{}}}", v.join(","))
}

/// Compare what the independent reader saw with the model (shared by all formats).
fn check_ref_tags(tags: &[refr::RefTag], trailing: usize, model: &Model) -> Result<(), Vio> {
    if trailing != 0 {
        return vio("ref-reader-trailing", format!("{trailing} bytes follow the last structure the format description defines"));
    }
    if tags.len() != model.tags.len() {
        return vio("ref-reader-mismatch", format!("serialized manifest holds {} tags, the program left {}", tags.len(), model.tags.len()));
    }
    for (pos, (rt, mt)) in tags.iter().zip(&model.tags).enumerate() {
        let (name, ty) = tag_def(mt.t);
        if rt.name != name || rt.tag_type != ty as u16 {
            return vio(
                "ref-reader-mismatch",
                format!("tag #{pos} is serialized as ({:?}, type {:#06x}), the program made it ({name:?}, {:#06x})", rt.name, rt.tag_type, ty as u16),
            );
        }
        if rt.files != mt.files {
            return vio(
                "ref-reader-bits",
                format!(
                    "independent MSB-first reader: tag {name:?} selects files {} in the serialized mask {}, the program associated {} (n = {})",
                    fmt_set(&rt.files),
                    hex::encode(&rt.mask),
                    fmt_set(&mt.files),
                    model.n()
                ),
            );
        }
        // Set padding bits select no file; the property text does not forbid them (real CDN
        // manifests carry them), so they are only counted.
        if !rt.stray.is_empty() {
            bump(&N_STRAY_PADDING, 1);
        }
    }
    Ok(())
}

impl Sys {
    /// Final-state oracle. Returns (hash of the serialized manifest, hash of everything observed).
    fn check(&mut self, subs: &[Vec<usize>]) -> Result<(u64, u64), Vio> {
        bump(&N_CHECKS, 1);
        if self.model.n() % 8 != 0 {
            bump(&N_PARTIAL_LAST_BYTE, 1);
        }
        match self.fmt {
            Fmt::Install | Fmt::InstallV2 => self.check_install(subs),
            Fmt::Download { .. } => self.check_download(subs),
        }
    }

    fn check_install(&mut self, subs: &[Vec<usize>]) -> Result<(u64, u64), Vio> {
        let model = &self.model;
        let n = model.n();
        let RealB::I(Some(b)) = &self.real else { unreachable!() };
        let mut calls = 0u64;
        // builder-level observers
        if b.file_count() != n || b.tag_count() != model.tags.len() || b.total_size() != model.total() {
            return vio(
                "builder-observer",
                format!(
                    "builder reports {} files / {} tags / total {}, the program left {} / {} / {}",
                    b.file_count(),
                    b.tag_count(),
                    b.total_size(),
                    n,
                    model.tags.len(),
                    model.total()
                ),
            );
        }
        for t in 0..3 {
            if b.has_tag(&tag_def(t).0) != model.tag_pos(t).is_some() {
                return vio("builder-observer", format!("has_tag({:?}) = {}", tag_def(t).0, b.has_tag(&tag_def(t).0)));
            }
        }
        let m = b.snapshot().build().map_err(|e| ("build-failed".to_string(), format!("build() rejects the builder's own state: {e}")))?;
        let bytes = m.build().map_err(|e| ("serialize-failed".to_string(), format!("{e}")))?;
        calls += 3;
        let key = fnv64(&bytes);

        // independent reader
        bump(&N_REF_READS, 1);
        let r = refr::parse_install(&bytes).map_err(|e| ("ref-reader-rejects".to_string(), e))?;
        if r.trailing != 0 {
            let first_bad = r.entries.iter().zip(&model.files).position(|(re, mf)| re.path != path_of(mf.id));
            return vio(
                "ref-reader-trailing",
                format!(
                    "{} bytes follow the last structure the format description defines for an install v{} manifest with {} entries{}",
                    r.trailing,
                    r.version,
                    r.entries.len(),
                    first_bad.map(|i| format!("; entry {i} reads as path {:?} instead of {:?}", r.entries[i].path, path_of(model.files[i].id))).unwrap_or_default()
                ) + if self.fmt == Fmt::InstallV2 { " — the builder was created by from_manifest() from a v2 manifest (16-byte header, one type byte per entry)" } else { "" },
            );
        }
        if r.entries.len() != n {
            return vio("ref-reader-mismatch", format!("{} entries serialized, {} files in the program", r.entries.len(), n));
        }
        for (i, (re, mf)) in r.entries.iter().zip(&model.files).enumerate() {
            if re.path != path_of(mf.id) || re.ckey != self.ckey(mf.id).as_bytes() || u64::from(re.size) != mf.size {
                return vio(
                    "ref-reader-entries",
                    format!("entry {i} is serialized as ({:?}, size {}), the program put file id {} ({:?}, size {}) there", re.path, re.size, mf.id, path_of(mf.id), mf.size),
                );
            }
        }
        check_ref_tags(&r.tags, r.trailing, model)?;
        let any_stray = r.tags.iter().any(|t| !t.stray.is_empty());

        // the crate's own parser and queries
        let p = InstallManifest::parse(&bytes).map_err(|e| ("parse-failed".to_string(), format!("own output does not parse: {e}")))?;
        if p.entries.len() != n {
            return vio("entries-mismatch", format!("parsed {} entries, expected {n}", p.entries.len()));
        }
        for (i, (pe, mf)) in p.entries.iter().zip(&model.files).enumerate() {
            if pe.path != path_of(mf.id) || pe.content_key != self.ckey(mf.id) || u64::from(pe.file_size) != mf.size {
                return vio("entries-mismatch", format!("parsed entry {i} = ({:?}, {}), expected file id {} ({:?}, {})", pe.path, pe.file_size, mf.id, path_of(mf.id), mf.size));
            }
        }
        if p.tags.len() != model.tags.len() {
            return vio("per-tag-mismatch", format!("parsed {} tags, expected {}", p.tags.len(), model.tags.len()));
        }
        let mut obs: Vec<u64> = vec![key];
        let pick = |res: Vec<(usize, &InstallFileEntry)>| -> Result<Vec<usize>, Vio> {
            for (i, e) in &res {
                if *i >= n || e.path != p.entries[*i].path {
                    return vio("query-entry-mismatch", format!("query returned index {i} with entry {:?}", e.path));
                }
            }
            Ok(sorted(res.into_iter().map(|(i, _)| i).collect()))
        };
        let mut qcalls = 0u64;
        for (pos, mt) in model.tags.iter().enumerate() {
            let name = tag_def(mt.t).0;
            let want: Vec<usize> = mt.files.iter().copied().collect();
            let got = pick(p.get_files_for_tag(&name))?;
            qcalls += 1;
            if got != want {
                return vio("per-tag-mismatch", format!("get_files_for_tag({name:?}) = {}, associated {} (n = {n})", fmt_set(&got), fmt_set(&want)));
            }
            let tag = p.find_tag(&name).ok_or_else(|| ("per-tag-mismatch".to_string(), format!("find_tag({name:?}) = None")))?;
            let gf = tag.get_files(n);
            let hf: Vec<usize> = (0..n).filter(|i| tag.has_file(*i)).collect();
            qcalls += 3;
            // `file_count()` counts mask bits and cannot know n: not judged when a foreign tool's
            // padding bits are present in the serialized mask
            if gf != want || hf != want || (!any_stray && tag.file_count() != want.len()) {
                return vio(
                    "tag-files-mismatch",
                    format!("tag {name:?}: get_files = {}, has_file = {}, file_count = {}, associated {}", fmt_set(&gf), fmt_set(&hf), tag.file_count(), fmt_set(&want)),
                );
            }
            let _ = pos;
        }
        for s in subs {
            let names = names_of(&s.iter().map(|p| model.tags[*p].t).collect::<Vec<_>>());
            let refs: Vec<&str> = names.iter().map(String::as_str).collect();
            let all = model.all_of(s);
            let any = model.any_of(s);
            let got_all = pick(p.get_files_for_tags(&refs))?;
            if got_all != all {
                return vio("all-of-mismatch", format!("get_files_for_tags({refs:?}) = {}, intersection of the associated sets = {} (n = {n})", fmt_set(&got_all), fmt_set(&all)));
            }
            let got_any = pick(p.get_files_for_any_tag(&refs))?;
            if got_any != any {
                return vio("any-of-mismatch", format!("get_files_for_any_tag({refs:?}) = {}, union of the associated sets = {} (n = {n})", fmt_set(&got_any), fmt_set(&any)));
            }
            let sz = p.calculate_install_size(&refs);
            if sz != model.sum(&all) {
                return vio("tag-size-mismatch", format!("calculate_install_size({refs:?}) = {sz}, sum over {} = {}", fmt_set(&all), model.sum(&all)));
            }
            qcalls += 3;
            bump(&N_SUBSET_QUERIES, 1);
            if !all.is_empty() {
                bump(&N_NONEMPTY_RESULTS, 1);
            }
            obs.push(all.len() as u64 * 1000 + any.len() as u64);
            obs.push(sz);
        }
        if p.total_install_size() != model.total() || p.stats().total_size != model.total() || p.stats().total_files != n {
            return vio("total-size-mismatch", format!("total_install_size = {}, stats = {:?}, sum of sizes = {}", p.total_install_size(), p.stats(), model.total()));
        }
        qcalls += 2;

        // name → index map probe: a file added "with tag X" must land in X's mask and only there
        for (pos, mt) in model.tags.iter().enumerate() {
            let name = tag_def(mt.t).0;
            let probe = b
                .snapshot()
                .add_file_with_tags("probe".to_string(), ContentKey::from_bytes([0xFE; 16]), 7, &[name.as_str()])
                .and_then(InstallManifestBuilder::build)
                .map_err(|e| ("name-index-map".to_string(), format!("adding a file with tag {name:?} fails: {e}")))?;
            calls += 3;
            for (j, tg) in probe.tags.iter().enumerate() {
                if tg.has_file(n) != (j == pos) {
                    return vio(
                        "name-index-map",
                        format!("a file added with tag {name:?} (tag #{pos}) {} in the mask of tag #{j} {:?}", if j == pos { "is missing" } else { "shows up" }, tg.name),
                    );
                }
            }
        }
        bump(&N_QUERY_CALLS, qcalls);
        self.calls += calls;
        self.oracle_calls += calls;
        let oh = fnv64(&obs.iter().flat_map(|x| x.to_le_bytes()).collect::<Vec<u8>>());
        Ok((key, oh))
    }
}

const ALL_CATS: [PriorityCategory; 5] = [
    PriorityCategory::Critical,
    PriorityCategory::Essential,
    PriorityCategory::High,
    PriorityCategory::Normal,
    PriorityCategory::Low,
];

/// Category table as documented in docs/src/formats/download.md.
fn cat_of(eff: i8) -> PriorityCategory {
    if eff < 0 {
        PriorityCategory::Critical
    } else if eff == 0 {
        PriorityCategory::Essential
    } else if eff <= 2 {
        PriorityCategory::High
    } else if eff <= 5 {
        PriorityCategory::Normal
    } else {
        PriorityCategory::Low
    }
}

const RANGE_BOUNDS: [i8; 7] = [-128, -2, -1, 0, 1, 2, 127];

impl Sys {
    fn check_download(&mut self, subs: &[Vec<usize>]) -> Result<(u64, u64), Vio> {
        let Fmt::Download { version, checksum, flag_size, base } = self.fmt else { unreachable!() };
        let model = &self.model;
        let n = model.n();
        let RealB::D(Some(b)) = &self.real else { unreachable!() };
        let mut calls = 0u64;
        let mut qcalls = 0u64;
        // builder-level observers (these go through the name → index map)
        if b.entry_count() != n || b.tag_count() != model.tags.len() {
            return vio("builder-observer", format!("builder reports {} entries / {} tags, the program left {} / {}", b.entry_count(), b.tag_count(), n, model.tags.len()));
        }
        for t in 0..3 {
            let name = tag_def(t).0;
            let got = b.get_files_for_tag(&name);
            let want = model.tag_pos(t).map(|p| model.set_of(p).iter().copied().collect::<Vec<usize>>());
            if b.has_tag(&name) != want.is_some() || got.clone().map(sorted) != want {
                return vio("builder-tag-query", format!("builder.get_files_for_tag({name:?}) = {got:?}, has_tag = {}, the program associated {want:?}", b.has_tag(&name)));
            }
        }
        for i in 0..n.min(16) {
            let got: Vec<String> = b.get_tags_for_file(i).into_iter().map(str::to_string).collect();
            let want: Vec<String> = model.tags.iter().filter(|t| t.files.contains(&i)).map(|t| tag_def(t.t).0).collect();
            if got != want {
                return vio("builder-tag-query", format!("builder.get_tags_for_file({i}) = {got:?}, the program associated {want:?}"));
            }
        }
        let m = b.clone_builder().build().map_err(|e| ("build-failed".to_string(), format!("build() rejects the builder's own state: {e}")))?;
        let bytes = m.build().map_err(|e| ("serialize-failed".to_string(), format!("{e}")))?;
        calls += 3;
        let key = fnv64(&bytes);

        // independent reader
        bump(&N_REF_READS, 1);
        let r = refr::parse_download(&bytes).map_err(|e| ("ref-reader-rejects".to_string(), e))?;
        if r.trailing != 0 {
            return vio("ref-reader-trailing", format!("{} bytes follow the last structure the format description defines", r.trailing));
        }
        if r.version != version || r.has_checksum != checksum || r.flag_size != flag_size || r.base_priority != base {
            return vio(
                "ref-reader-mismatch",
                format!("header serialized as v{} checksum={} flag_size={} base={}, builder was configured v{version} checksum={checksum} flag_size={flag_size} base={base}", r.version, r.has_checksum, r.flag_size, r.base_priority),
            );
        }
        if r.entries.len() != n {
            return vio("ref-reader-mismatch", format!("{} entries serialized, {} files in the program", r.entries.len(), n));
        }
        for (i, (re, mf)) in r.entries.iter().zip(&model.files).enumerate() {
            let ok = re.ekey == self.ekey(mf.id).as_bytes()
                && re.size == mf.size
                && re.priority == mf.prio
                && re.checksum == if checksum { Some(checksum_of(mf.id)) } else { None }
                && re.flags == flags_of(mf.id, flag_size);
            if !ok {
                return vio(
                    "ref-reader-entries",
                    format!("entry {i} is serialized as (size {}, priority {}, checksum {:?}, flags {:?}), the program put file id {} (size {}, priority {}) there", re.size, re.priority, re.checksum, re.flags, mf.id, mf.size, mf.prio),
                );
            }
        }
        check_ref_tags(&r.tags, r.trailing, model)?;
        let any_stray = r.tags.iter().any(|t| !t.stray.is_empty());

        // the crate's own parser and queries
        let p = DownloadManifest::parse(&bytes).map_err(|e| ("parse-failed".to_string(), format!("own output does not parse: {e}")))?;
        if p.entries.len() != n {
            return vio("entries-mismatch", format!("parsed {} entries, expected {n}", p.entries.len()));
        }
        for (i, (pe, mf)) in p.entries.iter().zip(&model.files).enumerate() {
            if pe.encoding_key != self.ekey(mf.id) || pe.file_size.as_u64() != mf.size || pe.priority != mf.prio {
                return vio("entries-mismatch", format!("parsed entry {i} = (size {}, priority {}), expected file id {} (size {}, priority {})", pe.file_size.as_u64(), pe.priority, mf.id, mf.size, mf.prio));
            }
        }
        if p.tags.len() != model.tags.len() {
            return vio("per-tag-mismatch", format!("parsed {} tags, expected {}", p.tags.len(), model.tags.len()));
        }
        let mut obs: Vec<u64> = vec![key];
        let pick = |res: Vec<(usize, &cascette_formats::download::DownloadFileEntry)>| -> Result<Vec<usize>, Vio> {
            for (i, e) in &res {
                if *i >= n || e.encoding_key != p.entries[*i].encoding_key {
                    return vio("query-entry-mismatch", format!("query returned index {i} with a different entry"));
                }
            }
            Ok(sorted(res.into_iter().map(|(i, _)| i).collect()))
        };
        for mt in &model.tags {
            let name = tag_def(mt.t).0;
            let want: Vec<usize> = mt.files.iter().copied().collect();
            let got = pick(p.entries_by_tag(&name))?;
            qcalls += 1;
            if got != want {
                return vio("per-tag-mismatch", format!("entries_by_tag({name:?}) = {}, associated {} (n = {n})", fmt_set(&got), fmt_set(&want)));
            }
            let tag = p.find_tag(&name).ok_or_else(|| ("per-tag-mismatch".to_string(), format!("find_tag({name:?}) = None")))?;
            let gf = tag.get_files(n);
            qcalls += 2;
            if gf != want || (!any_stray && tag.file_count() != want.len()) {
                return vio("tag-files-mismatch", format!("tag {name:?}: get_files = {}, file_count = {}, associated {}", fmt_set(&gf), tag.file_count(), fmt_set(&want)));
            }
        }
        for s in subs {
            let names = names_of(&s.iter().map(|p| model.tags[*p].t).collect::<Vec<_>>());
            let refs: Vec<&str> = names.iter().map(String::as_str).collect();
            let all = model.all_of(s);
            let got_all = pick(p.entries_by_tags(&refs))?;
            if got_all != all {
                return vio("all-of-mismatch", format!("entries_by_tags({refs:?}) = {}, intersection of the associated sets = {} (n = {n})", fmt_set(&got_all), fmt_set(&all)));
            }
            let sz = p.calculate_size_for_tags(&refs);
            if sz != model.sum(&all) {
                return vio("tag-size-mismatch", format!("calculate_size_for_tags({refs:?}) = {sz}, sum over {} = {}", fmt_set(&all), model.sum(&all)));
            }
            qcalls += 2;
            bump(&N_SUBSET_QUERIES, 1);
            if !all.is_empty() {
                bump(&N_NONEMPTY_RESULTS, 1);
            }
            obs.push(all.len() as u64);
            obs.push(sz);
        }
        // platform filter: (platform tag, architecture tag) when both exist
        if let (Some(p0), Some(p1)) = (model.tag_pos(0), model.tag_pos(1)) {
            let want = model.all_of(&[p0, p1]);
            let got = pick(p.entries_for_platform(&tag_def(0).0, &tag_def(1).0))?;
            qcalls += 1;
            if got != want {
                return vio("platform-filter-mismatch", format!("entries_for_platform(\"Windows\", \"x86_64\") = {}, files carrying both tags = {}", fmt_set(&got), fmt_set(&want)));
            }
        }
        // priority filters. Effective priority = priority − base (v3), clamped to i8 as documented
        // in `effective_priority` (saturating); v1/v2 have no base.
        let eff: Vec<i8> = model
            .files
            .iter()
            .map(|f| if version >= 3 { (i16::from(f.prio) - i16::from(base)).clamp(-128, 127) as i8 } else { f.prio })
            .collect();
        for cat in ALL_CATS {
            let want: Vec<usize> = (0..n).filter(|i| cat_of(eff[*i]) == cat).collect();
            let got = pick(p.entries_by_priority(cat))?;
            qcalls += 1;
            if got != want {
                return vio("priority-filter-mismatch", format!("entries_by_priority({cat:?}) = {}, expected {} (priorities {:?}, base {base})", fmt_set(&got), fmt_set(&want), model.files.iter().map(|f| f.prio).collect::<Vec<_>>()));
            }
            obs.push(want.len() as u64);
        }
        for (a, lo) in RANGE_BOUNDS.iter().enumerate() {
            for hi in &RANGE_BOUNDS[a..] {
                let want: Vec<usize> = (0..n).filter(|i| eff[*i] >= *lo && eff[*i] <= *hi).collect();
                let got = pick(p.entries_by_priority_range(*lo, *hi))?;
                qcalls += 1;
                if got != want {
                    return vio("priority-range-mismatch", format!("entries_by_priority_range({lo}, {hi}) = {}, expected {} (priorities {:?}, base {base})", fmt_set(&got), fmt_set(&want), model.files.iter().map(|f| f.prio).collect::<Vec<_>>()));
                }
            }
        }
        // totals
        let total = model.total();
        let essential: u64 = (0..n).filter(|i| eff[*i] <= 0).map(|i| model.files[i].size).sum();
        let streamable: u64 = (0..n).filter(|i| eff[*i] >= 3).map(|i| model.files[i].size).sum();
        let st = p.stats();
        let an = p.analyze_priorities();
        qcalls += 4;
        if p.total_download_size() != total || st.total_size != total || st.entry_count != n || an.total_size != total || an.total_files != n {
            return vio("total-size-mismatch", format!("total_download_size = {}, stats.total_size = {}, analysis.total_size = {}, sum of sizes = {total}", p.total_download_size(), st.total_size, an.total_size));
        }
        if p.essential_download_size() != essential || an.essential_size != essential || an.streamable_size != streamable {
            return vio("priority-size-mismatch", format!("essential_download_size = {}, analysis essential/streamable = {}/{}, sums = {essential}/{streamable}", p.essential_download_size(), an.essential_size, an.streamable_size));
        }
        for cat in ALL_CATS {
            let idx: Vec<usize> = (0..n).filter(|i| cat_of(eff[*i]) == cat).collect();
            let (cnt, sz) = an.categories.get(&cat).map(|c| (c.file_count, c.total_size)).unwrap_or((0, 0));
            if cnt != idx.len() || sz != model.sum(&idx) {
                return vio("priority-size-mismatch", format!("analysis category {cat:?}: {cnt} files / {sz} bytes, expected {} / {}", idx.len(), model.sum(&idx)));
            }
        }
        obs.push(total);
        obs.push(essential);
        bump(&N_QUERY_CALLS, qcalls);
        self.calls += calls;
        self.oracle_calls += calls;
        let oh = fnv64(&obs.iter().flat_map(|x| x.to_le_bytes()).collect::<Vec<u8>>());
        Ok((key, oh))
    }
}

// ---------------------------------------------------------------------------------------
// part (i): SEQ over builder programs
// ---------------------------------------------------------------------------------------

#[derive(Clone, Copy, PartialEq, Eq)]
pub enum Op {
    AddTag(u8),
    RemoveTag(u8),
    AddFile,
    /// bit j set ⇒ tag j
    AddFileTagged(u8),
    Assoc(u8, u8),
    AssocLast(u8),
    AssocIdx(u8, u8),
    Dissoc(u8, u8),
    RemoveFile(u8),
    RemoveByKey(u8),
    Reopen,
    SetSizeMax(u8),
    SetPrio(u8, i8),
}

impl std::fmt::Debug for Op {
    fn fmt(&self, f: &mut std::fmt::Formatter<'_>) -> std::fmt::Result {
        match self {
            Op::AddTag(t) => write!(f, "AddTag({t})"),
            Op::RemoveTag(t) => write!(f, "RemoveTag({t})"),
            Op::AddFile => write!(f, "AddFile"),
            Op::AddFileTagged(m) => write!(f, "AddFileTagged({m})"),
            Op::Assoc(i, t) => write!(f, "Assoc({i},{t})"),
            Op::AssocLast(t) => write!(f, "AssocLast({t})"),
            Op::AssocIdx(i, p) => write!(f, "AssocIdx({i},{p})"),
            Op::Dissoc(i, t) => write!(f, "Dissoc({i},{t})"),
            Op::RemoveFile(i) => write!(f, "RemoveFile({i})"),
            Op::RemoveByKey(i) => write!(f, "RemoveByKey({i})"),
            Op::Reopen => write!(f, "Reopen"),
            Op::SetSizeMax(i) => write!(f, "SetSizeMax({i})"),
            Op::SetPrio(i, p) => write!(f, "SetPrio({i},{p})"),
        }
    }
}

fn parse_op(s: &str) -> Option<Op> {
    let s = s.trim();
    let (head, args) = match s.find('(') {
        Some(i) => (&s[..i], s[i + 1..].trim_end_matches(')')),
        None => (s, ""),
    };
    let a: Vec<i32> = args.split(',').filter(|x| !x.is_empty()).filter_map(|x| x.trim().parse().ok()).collect();
    let g = |i: usize| a.get(i).copied();
    Some(match head {
        "AddTag" => Op::AddTag(g(0)? as u8),
        "RemoveTag" => Op::RemoveTag(g(0)? as u8),
        "AddFile" => Op::AddFile,
        "AddFileTagged" => Op::AddFileTagged(g(0)? as u8),
        "Assoc" => Op::Assoc(g(0)? as u8, g(1)? as u8),
        "AssocLast" => Op::AssocLast(g(0)? as u8),
        "AssocIdx" => Op::AssocIdx(g(0)? as u8, g(1)? as u8),
        "Dissoc" => Op::Dissoc(g(0)? as u8, g(1)? as u8),
        "RemoveFile" => Op::RemoveFile(g(0)? as u8),
        "RemoveByKey" => Op::RemoveByKey(g(0)? as u8),
        "Reopen" => Op::Reopen,
        "SetSizeMax" => Op::SetSizeMax(g(0)? as u8),
        "SetPrio" => Op::SetPrio(g(0)? as u8, g(1)? as i8),
        _ => return None,
    })
}

pub struct Subject {
    pub fmt: Fmt,
    /// files present before the program starts (0, or 7 = one short of a mask byte)
    pub pre: usize,
    pub seed: u64,
    /// longest program executed so far (shorter than the depth bound ⇒ the frontier ran empty:
    /// every reachable state of the bounded universe was visited)
    pub max_len: std::sync::atomic::AtomicUsize,
}

impl Subject {
    pub fn new(fmt: Fmt, pre: usize, seed: u64) -> Subject {
        Subject { fmt, pre, seed, max_len: std::sync::atomic::AtomicUsize::new(0) }
    }
}

const N_SEQ_TAGS: usize = 2;

impl Subject {
    /// `pre` ≥ 100 is the pre-state with tags: `pre − 100` files, then the tags a, b and a third
    /// tag c in that order, c selecting file 0 — removals of a tag that is neither the last nor
    /// the second to last, followed by operations that find a tag by name.
    fn pre_files(&self) -> usize {
        if self.pre >= 100 { self.pre - 100 } else { self.pre }
    }
    fn pre_acts(&self) -> Vec<Act> {
        let mut v: Vec<Act> = (0..self.pre_files()).map(Act::AddFile).collect();
        if self.pre >= 100 {
            v.extend([Act::AddTag(0), Act::AddTag(1), Act::AddTag(2), Act::Assoc(0, 2)]);
        }
        v
    }
    fn idx(&self) -> [u8; 3] {
        let f = self.pre_files();
        if f == 0 { [0, 1, 2] } else { [0, f as u8, f as u8 + 1] }
    }
    fn max_files(&self) -> usize {
        // pre = 0: 3 files; pre = 7: up to 9 files (masks of 1 and 2 bytes)
        if self.pre_files() == 0 { 3 } else { self.pre_files() + 2 }
    }
    fn to_act(&self, op: &Op, model: &Model) -> Act {
        match *op {
            Op::AddTag(t) => Act::AddTag(t as usize),
            Op::RemoveTag(t) => Act::RemoveTag(t as usize),
            Op::AddFile => Act::AddFile(model.next_id()),
            Op::AddFileTagged(m) => Act::AddFileTagged(model.next_id(), (0..N_SEQ_TAGS).filter(|j| m >> j & 1 == 1).collect()),
            Op::Assoc(i, t) => Act::Assoc(i as usize, t as usize),
            Op::AssocLast(t) => Act::AssocLast(t as usize),
            Op::AssocIdx(i, p) => Act::AssocIdx(i as usize, p as usize),
            Op::Dissoc(i, t) => Act::Dissoc(i as usize, t as usize),
            Op::RemoveFile(i) => Act::RemoveFile(i as usize),
            Op::RemoveByKey(i) => Act::RemoveByKey(i as usize),
            Op::Reopen => Act::Reopen,
            Op::SetSizeMax(i) => Act::SetSize(i as usize, SIZE40_MAX),
            Op::SetPrio(i, p) => Act::SetPrio(i as usize, p),
        }
    }
    fn pre_model(&self) -> Model {
        let mut m = Model::default();
        for a in self.pre_acts() {
            m.apply(&a, self.fmt);
        }
        m
    }

    fn run_inner(&self, hist: &[Op]) -> SeqRun {
        let fail = |i: usize, v: Vio, calls: u64| SeqRun { violation: Some((i, v.0, v.1)), state_key: None, outcome: 0, calls };
        // transitions = actions executed (incl. the replayed prefix) + the oracle's builder calls;
        // independent of which program represents a merged state
        let mut sys = match Sys::new(self.fmt, self.seed) {
            Ok(s) => s,
            Err(v) => return fail(0, v, 0),
        };
        for a in self.pre_acts() {
            if let Err(v) = sys.act(&a) {
                return fail(0, v, sys.ops);
            }
        }
        for (i, op) in hist.iter().enumerate() {
            let act = self.to_act(op, &sys.model);
            if let Err(v) = sys.act(&act) {
                return fail(i, v, sys.ops);
            }
        }
        // final-state oracle (every prefix was the final state of an earlier explored program)
        let subs = subsets(sys.model.tags.len());
        match sys.check(&subs) {
            Ok((key, outcome)) => SeqRun { violation: None, state_key: Some(key), outcome, calls: sys.ops + sys.oracle_calls },
            Err(v) => fail(hist.len().saturating_sub(1), v, sys.ops),
        }
    }
}

thread_local! {
    static LAST_RUN: std::cell::RefCell<Vec<Op>> = const { std::cell::RefCell::new(Vec::new()) };
    static CANON_SINCE_RUN: std::cell::Cell<bool> = const { std::cell::Cell::new(false) };
}
static N_SHRINKS: AtomicU64 = AtomicU64::new(0);
const MAX_SHRINKS: u64 = 20_000;

impl Subject {
    fn violates_with(&self, cand: &[Op], kind: &str) -> bool {
        self.admissible(cand) && matches!(&self.run(cand).violation, Some((_, k, _)) if k == kind)
    }
    /// Shrink a violating program below 1-minimality: drop single ops and pairs of ops while a
    /// violation of the same kind remains.
    fn shrink(&self, hist: &[Op]) -> Vec<Op> {
        let Some((_, kind, _)) = self.run(hist).violation else { return hist.to_vec() };
        let mut cur = hist.to_vec();
        'outer: loop {
            for i in 0..cur.len() {
                let mut c = cur.clone();
                c.remove(i);
                if self.violates_with(&c, &kind) {
                    cur = c;
                    continue 'outer;
                }
            }
            for i in 0..cur.len() {
                for j in i + 1..cur.len() {
                    let mut c = cur.clone();
                    c.remove(j);
                    c.remove(i);
                    if self.violates_with(&c, &kind) {
                        cur = c;
                        continue 'outer;
                    }
                }
            }
            // simplify single ops: a tagged add → plain add / fewer tags, a removal → the
            // lowest index slot, remove-by-key → remove-by-index
            for i in 0..cur.len() {
                let simpler: Vec<Op> = match cur[i] {
                    Op::AddFileTagged(m) => {
                        let mut v = vec![Op::AddFile];
                        v.extend((1..m).filter(|x| x & m == *x).map(Op::AddFileTagged));
                        v
                    }
                    Op::RemoveFile(x) => self.idx().iter().filter(|j| **j < x).map(|j| Op::RemoveFile(*j)).collect(),
                    Op::RemoveByKey(x) => vec![Op::RemoveFile(x)],
                    _ => Vec::new(),
                };
                for rep in simpler {
                    let mut c = cur.clone();
                    c[i] = rep;
                    if self.violates_with(&c, &kind) {
                        cur = c;
                        continue 'outer;
                    }
                }
            }
            return cur;
        }
    }
}

/// `…/crates/x/src/y.rs:123` → `crates/x/src/y.rs` (stable across checkouts and edits).
fn norm_panic_loc(loc: &str) -> String {
    let l = match loc.find("crates/") {
        Some(i) => &loc[i..],
        None => loc,
    };
    match l.rfind(':') {
        Some(i) => l[..i].to_string(),
        None => l.to_string(),
    }
}

impl SeqSubject for Subject {
    type Op = Op;
    fn config_name(&self) -> String {
        format!("{}/pre{}", self.fmt.name(), self.pre)
    }
    fn sig_config(&self) -> String {
        self.fmt.family().to_string()
    }
    fn alphabet(&self) -> Vec<Op> {
        let idx = self.idx();
        let mut a = Vec::new();
        for t in 0..N_SEQ_TAGS as u8 {
            a.push(Op::AddTag(t));
        }
        a.push(Op::AddFile);
        for m in 1..(1u8 << N_SEQ_TAGS) {
            a.push(Op::AddFileTagged(m));
        }
        for i in idx {
            for t in 0..N_SEQ_TAGS as u8 {
                a.push(Op::Assoc(i, t));
            }
        }
        for t in 0..N_SEQ_TAGS as u8 {
            a.push(Op::AssocLast(t));
        }
        if !self.fmt.is_download() {
            for i in idx {
                for p in 0..N_SEQ_TAGS as u8 {
                    a.push(Op::AssocIdx(i, p));
                }
            }
        }
        for i in idx {
            for t in 0..N_SEQ_TAGS as u8 {
                a.push(Op::Dissoc(i, t));
            }
        }
        for i in idx {
            a.push(Op::RemoveFile(i));
        }
        if self.fmt.is_download() {
            for i in idx {
                a.push(Op::RemoveByKey(i));
            }
        }
        for t in 0..N_SEQ_TAGS as u8 {
            a.push(Op::RemoveTag(t));
        }
        a.push(Op::Reopen);
        if self.fmt.is_download() {
            a.push(Op::SetSizeMax(idx[0]));
            a.push(Op::SetPrio(idx[0], 1));
            a.push(Op::SetPrio(idx[0], 127));
        }
        a
    }
    fn admissible(&self, hist: &[Op]) -> bool {
        let mut m = self.pre_model();
        for op in hist {
            let act = self.to_act(op, &m);
            match m.applicability(&act, self.fmt) {
                Applic::Inadmissible => return false,
                Applic::NoOpFalse | Applic::NoOp => {}
                Applic::Changes => m.apply(&act, self.fmt),
            }
            if m.n() > self.max_files() {
                return false;
            }
        }
        true
    }
    fn canon(&self, hist: &[Op]) -> String {
        // The engine asks for the canonical form twice per violating program: first for the
        // program it has just executed (cache lookup — plain rendering), then for its 1-minimal
        // core. Cores are only 1-minimal (single-op removal), which leaves many local minima
        // such as add_file…remove_file pairs that can only be dropped together; the core is
        // therefore shrunk further here (pairs of ops) before it becomes the signature, so that
        // one defect yields few signatures. The shrunk program is re-executed and must still
        // violate with the same kind; the witness keeps the engine's core.
        let just_ran = LAST_RUN.with(|l| l.borrow().as_slice() == hist);
        let first_call_since_run = CANON_SINCE_RUN.with(|c| !c.replace(true));
        let lookup = just_ran && first_call_since_run;
        if !lookup && N_SHRINKS.fetch_add(1, Ordering::Relaxed) >= MAX_SHRINKS {
            // a defect that makes tens of thousands of programs fail: stop paying for
            // minimisation, name the class by its last call only
            return format!("unminimised(more than {MAX_SHRINKS} violating programs);last={:?}", hist.last());
        }
        let owned: Vec<Op> = if lookup { hist.to_vec() } else { self.shrink(hist) };
        let hist: &[Op] = &owned;
        // tags renamed by first occurrence (the two tags are interchangeable)
        let mut seen: Vec<u8> = Vec::new();
        let nm = |t: u8, seen: &mut Vec<u8>| -> char {
            let p = match seen.iter().position(|x| *x == t) {
                Some(p) => p,
                None => {
                    seen.push(t);
                    seen.len() - 1
                }
            };
            (b'a' + p as u8) as char
        };
        let parts: Vec<String> = hist
            .iter()
            .map(|o| match *o {
                Op::AddTag(t) => format!("AddTag({})", nm(t, &mut seen)),
                Op::RemoveTag(t) => format!("RemoveTag({})", nm(t, &mut seen)),
                Op::AddFileTagged(m) => {
                    let mut names: Vec<char> = (0..N_SEQ_TAGS as u8).filter(|j| m >> j & 1 == 1).map(|j| nm(j, &mut seen)).collect();
                    names.sort_unstable();
                    format!("AddFileTagged({})", names.into_iter().collect::<String>())
                }
                Op::Assoc(i, t) => format!("Assoc({i},{})", nm(t, &mut seen)),
                Op::AssocLast(t) => format!("AssocLast({})", nm(t, &mut seen)),
                Op::Dissoc(i, t) => format!("Dissoc({i},{})", nm(t, &mut seen)),
                other => format!("{other:?}"),
            })
            .collect();
        let pre = if self.pre == 0 { String::new() } else { format!("pre{}:", self.pre) };
        format!("{pre}{}", parts.join(";"))
    }
    fn run(&self, hist: &[Op]) -> SeqRun {
        self.max_len.fetch_max(hist.len(), Ordering::Relaxed);
        LAST_RUN.with(|l| {
            let mut l = l.borrow_mut();
            l.clear();
            l.extend_from_slice(hist);
        });
        CANON_SINCE_RUN.with(|c| c.set(false));
        match catch(|| self.run_inner(hist)) {
            Ok(r) => r,
            Err(msg) => {
                let loc = take_last_panic_loc().map(|l| norm_panic_loc(&l)).unwrap_or_else(|| "?".into());
                SeqRun {
                    violation: Some((hist.len().saturating_sub(1), format!("panic@{loc}"), format!("panicked: {msg}"))),
                    state_key: None,
                    outcome: 0,
                    calls: hist.len() as u64,
                }
            }
        }
    }
}

// ---------------------------------------------------------------------------------------
// part (ii): every file count × tag pattern × construction style × format
// ---------------------------------------------------------------------------------------

const PATTERN_NAMES: [&str; 7] = ["none", "all", "only-first", "only-last", "every-8th", "every-7th", "alternating"];
const STYLE_NAMES: [&str; 3] = ["tags-first", "files-first", "interleaved"];

fn in_pattern(p: usize, i: usize, n: usize) -> bool {
    match p % 7 {
        0 => false,
        1 => true,
        2 => i == 0,
        3 => i + 1 == n,
        4 => i % 8 == 0,
        5 => i % 7 == 0,
        _ => i % 2 == 1,
    }
}

#[derive(Clone, Copy, Debug, PartialEq, Eq)]
enum GFmt {
    B(Fmt),
    /// the same builder, re-opened (`from_manifest`) from a manifest written by a foreign tool
    /// that sets the padding bits of every mask to 1 — as the real CDN fixture
    /// classic_4.4.0_v1.install (n = 182) does for every tag
    Padded(Fmt),
    SizeV1,
    SizeV2,
}

impl GFmt {
    fn name(&self) -> String {
        match self {
            GFmt::B(f) => f.name(),
            GFmt::Padded(f) => format!("padded:{}", f.name()),
            GFmt::SizeV1 => "size-v1".into(),
            GFmt::SizeV2 => "size-v2".into(),
        }
    }
    fn family(&self) -> &'static str {
        match self {
            GFmt::B(f) => f.family(),
            GFmt::Padded(Fmt::Download { .. }) => "download-padded",
            GFmt::Padded(_) => "install-padded",
            _ => "size",
        }
    }
    fn parse(s: &str) -> Option<GFmt> {
        match s {
            "size-v1" => Some(GFmt::SizeV1),
            "size-v2" => Some(GFmt::SizeV2),
            _ => match s.strip_prefix("padded:") {
                Some(rest) => Fmt::parse(rest).map(GFmt::Padded),
                None => Fmt::parse(s).map(GFmt::B),
            },
        }
    }
}

#[derive(Clone, Debug)]
struct GridCase {
    fmt: GFmt,
    n: usize,
    ntags: usize,
    pattern: usize,
    style: usize,
}

impl GridCase {
    fn desc(&self) -> String {
        format!("n={},tags={},pattern={},style={},fmt={}", self.n, self.ntags, PATTERN_NAMES[self.pattern], STYLE_NAMES[self.style], self.fmt.name())
    }
    fn to_json(&self) -> Value {
        json!({"fmt": self.fmt.name(), "n": self.n, "ntags": self.ntags, "pattern": self.pattern, "style": self.style})
    }
    fn from_json(v: &Value) -> Option<GridCase> {
        Some(GridCase {
            fmt: GFmt::parse(v["fmt"].as_str()?)?,
            n: v["n"].as_u64()? as usize,
            ntags: v["ntags"].as_u64()? as usize,
            pattern: v["pattern"].as_u64()? as usize,
            style: v["style"].as_u64()? as usize,
        })
    }
    fn tag_files(&self, j: usize) -> Vec<usize> {
        (0..self.n).filter(|i| in_pattern(self.pattern + j, *i, self.n)).collect()
    }
}

#[derive(Default)]
struct CaseResult {
    vios: Vec<(String, Vio)>,
    checks: u64,
    calls: u64,
    keys: Vec<u64>,
    nontrivial: bool,
}

impl Sys {
    fn fork(&mut self) -> Sys {
        self.calls += 1;
        let real = match &self.real {
            RealB::I(Some(b)) => RealB::I(Some(b.snapshot())),
            RealB::D(Some(b)) => RealB::D(Some(b.clone_builder())),
            _ => unreachable!(),
        };
        Sys { fmt: self.fmt, seed: self.seed, real, model: self.model.clone(), calls: 0, ops: 0, oracle_calls: 0 }
    }
}

fn construct(c: &GridCase, fmt: Fmt, seed: u64) -> Result<Sys, Vio> {
    let build_fmt = if fmt == Fmt::InstallV2 { Fmt::Install } else { fmt };
    let mut sys = Sys::new(build_fmt, seed)?;
    let (n, k) = (c.n, c.ntags);
    match c.style {
        0 => {
            for t in 0..k {
                sys.act(&Act::AddTag(t))?;
            }
            for i in 0..n {
                let ts: Vec<usize> = (0..k).filter(|j| in_pattern(c.pattern + j, i, n)).collect();
                if ts.is_empty() {
                    sys.act(&Act::AddFile(i))?;
                } else {
                    sys.act(&Act::AddFileTagged(i, ts))?;
                }
            }
        }
        1 => {
            for i in 0..n {
                sys.act(&Act::AddFile(i))?;
            }
            for t in 0..k {
                sys.act(&Act::AddTag(t))?;
            }
            for t in 0..k {
                sys.act(&Act::AssocMany(c.tag_files(t), t))?;
            }
        }
        _ => {
            for i in 0..n / 2 {
                sys.act(&Act::AddFile(i))?;
            }
            for t in 0..k {
                sys.act(&Act::AddTag(t))?;
            }
            for i in n / 2..n {
                sys.act(&Act::AddFile(i))?;
            }
            for t in 0..k {
                sys.act(&Act::AssocMany((0..n).collect(), t))?;
                for i in 0..n {
                    if !in_pattern(c.pattern + t, i, n) {
                        sys.act(&Act::Dissoc(i, t))?;
                    }
                }
            }
        }
    }
    if fmt == Fmt::InstallV2 {
        sys.lift_to_install_v2()?;
        sys.fmt = Fmt::InstallV2;
    }
    Ok(sys)
}

fn run_builder_case(c: &GridCase, fmt: Fmt, seed: u64, only_step: Option<&str>, padded: bool) -> CaseResult {
    let mut res = CaseResult::default();
    let subs = subsets(c.ntags);
    let want = |s: &str| only_step.map_or(true, |o| o == s);
    let mut sys = match construct(c, fmt, seed).and_then(|mut s| if padded { s.reopen_with_padding_set().map(|()| s) } else { Ok(s) }) {
        Ok(s) => s,
        Err(v) => {
            res.vios.push(("construct".into(), v));
            return res;
        }
    };
    res.nontrivial = c.n > 0 && sys.model.tags.iter().any(|t| !t.files.is_empty());
    let check = |sys: &mut Sys, step: &str, res: &mut CaseResult| -> bool {
        res.checks += 1;
        match sys.check(&subs) {
            Ok((k, _)) => {
                res.keys.push(k);
                true
            }
            Err(v) => {
                res.vios.push((step.to_string(), v));
                false
            }
        }
    };
    if want("built") && !check(&mut sys, "built", &mut res) {
        // the derived steps would only repeat the same failure
        res.calls += sys.calls;
        return res;
    }
    // a plain add_file (untagged): no tag may select the new file; then associate it with the first tag
    let mut add_broken = false;
    if want("add") || want("add+assoc") {
        let mut f = sys.fork();
        let id = f.model.next_id();
        match f.act(&Act::AddFile(id)) {
            Err(v) => {
                add_broken = true;
                res.vios.push(("add".into(), v));
            }
            Ok(()) => {
                let ok = check(&mut f, "add", &mut res);
                add_broken = !ok;
                if ok && c.ntags > 0 {
                    match f.act(&Act::AssocLast(f.model.tags[0].t)) {
                        Err(v) => res.vios.push(("add+assoc".into(), v)),
                        Ok(()) => {
                            check(&mut f, "add+assoc", &mut res);
                        }
                    }
                }
            }
        }
        res.calls += f.calls;
    }
    // every remove_file(i), i ∈ {0, 7, 8, last}, then a re-add that is associated with the first tag
    let mut positions: Vec<(usize, &str)> = Vec::new();
    for (i, label) in [(0usize, "rm@0"), (7, "rm@7"), (8, "rm@8"), (c.n.wrapping_sub(1), "rm@last")] {
        if i < c.n && !positions.iter().any(|(j, _)| *j == i) {
            positions.push((i, label));
        }
    }
    for (i, label) in positions {
        let readd = format!("{label}+add");
        if !want(label) && !want(&readd) {
            continue;
        }
        let mut f = sys.fork();
        let step = f.act(&Act::RemoveFile(i));
        match step {
            Err(v) => res.vios.push((label.to_string(), v)),
            Ok(()) => {
                // (a re-add after a plain add already failed would only repeat that failure)
                if check(&mut f, label, &mut res) && !add_broken {
                    let id = f.model.next_id();
                    let r = f.act(&Act::AddFile(id)).and_then(|()| if c.ntags > 0 { f.act(&Act::AssocLast(f.model.tags[0].t)) } else { Ok(()) });
                    match r {
                        Err(v) => res.vios.push((readd.clone(), v)),
                        Ok(()) => {
                            check(&mut f, &readd, &mut res);
                        }
                    }
                }
            }
        }
        res.calls += f.calls;
    }
    // drains: remove until empty, checking after every removal
    if c.ntags == 2 && c.style == 0 && (c.pattern == 5 || c.pattern == 6) {
        for (mode, label) in [(0usize, "drain-front"), (1, "drain-back"), (2, "drain-idx7")] {
            if !want(label) {
                continue;
            }
            let mut f = sys.fork();
            while f.model.n() > 0 {
                let n = f.model.n();
                let i = match mode {
                    0 => 0,
                    1 => n - 1,
                    _ => 7.min(n - 1),
                };
                if let Err(v) = f.act(&Act::RemoveFile(i)) {
                    res.vios.push((label.to_string(), v));
                    break;
                }
                if !check(&mut f, label, &mut res) {
                    break;
                }
            }
            res.calls += f.calls;
        }
    }
    res.calls += sys.calls;
    res
}

fn run_size_case(c: &GridCase, v1: bool, seed: u64) -> CaseResult {
    let mut res = CaseResult::default();
    res.checks = 1;
    let (n, k) = (c.n, c.ntags);
    let esize = |i: usize| -> u64 { if v1 { [1, SIZE40_MAX, 0][i % 3] } else { [1, u64::from(u32::MAX), 0][i % 3] } };
    let key = |i: usize| key_of(seed, i, 0x5E)[..9].to_vec();
    let mut b = SizeManifestBuilder::new().version(if v1 { 1 } else { 2 }).ekey_size(9);
    if v1 {
        b = b.esize_bytes(5);
    }
    let mut calls = 3u64;
    if c.style == 0 {
        for t in 0..k {
            let (name, ty) = tag_def(t);
            b = b.add_tag(name, ty);
        }
        for i in 0..n {
            b = b.add_entry(key(i), esize(i));
        }
    } else {
        for i in 0..n {
            b = b.add_entry(key(i), esize(i));
        }
        for t in 0..k {
            let (name, ty) = tag_def(t);
            b = b.add_tag(name, ty);
        }
    }
    calls += (n + k) as u64;
    for t in 0..k {
        for i in c.tag_files(t) {
            b = b.tag_file(t, i);
            calls += 1;
            res.nontrivial = true;
        }
    }
    res.calls = calls + 1;
    let r = (|| -> Result<u64, Vio> {
        let m = b.build().map_err(|e| ("build-failed".to_string(), format!("{e}")))?;
        let bytes = m.build().map_err(|e| ("serialize-failed".to_string(), format!("{e}")))?;
        let total: u64 = (0..n).map(esize).sum();
        let mut model = Model::default();
        for t in 0..k {
            model.tags.push(MTag { t, files: c.tag_files(t).into_iter().collect() });
        }
        for i in 0..n {
            model.files.push(MFile { id: i, size: esize(i), prio: 0 });
        }
        bump(&N_REF_READS, 1);
        let r = refr::parse_size(&bytes).map_err(|e| ("ref-reader-rejects".to_string(), e))?;
        if r.entries.len() != n || r.entries.iter().enumerate().any(|(i, (kk, e))| *kk != key(i) || *e != esize(i)) {
            return vio("ref-reader-entries", "size entries differ from what was added".to_string());
        }
        if r.total_size != total {
            return vio("total-size-mismatch", format!("header total {} ≠ sum of esizes {total}", r.total_size));
        }
        check_ref_tags(&r.tags, r.trailing, &model)?;
        let p = SizeManifest::parse(&bytes).map_err(|e| ("parse-failed".to_string(), format!("own output does not parse: {e}")))?;
        if p.header.total_size() != total || p.entries.iter().map(|e| e.esize).sum::<u64>() != total {
            return vio("total-size-mismatch", format!("parsed total {} ≠ {total}", p.header.total_size()));
        }
        if p.tags.len() != k {
            return vio("per-tag-mismatch", format!("parsed {} tags, expected {k}", p.tags.len()));
        }
        for t in 0..k {
            let want = c.tag_files(t);
            let got = p.tags[t].get_files(n);
            if got != want || p.tags[t].file_count() != want.len() {
                return vio("tag-files-mismatch", format!("size tag #{t}: get_files = {}, tagged {}", fmt_set(&got), fmt_set(&want)));
            }
        }
        Ok(fnv64(&bytes))
    })();
    match r {
        Ok(k) => res.keys.push(k),
        Err(v) => res.vios.push(("built".into(), v)),
    }
    res
}

fn run_case(c: &GridCase, seed: u64, only_step: Option<&str>) -> CaseResult {
    let r = catch(|| match c.fmt {
        GFmt::B(f) => run_builder_case(c, f, seed, only_step, false),
        GFmt::Padded(f) => run_builder_case(c, f, seed, only_step, true),
        GFmt::SizeV1 => run_size_case(c, true, seed),
        GFmt::SizeV2 => run_size_case(c, false, seed),
    });
    match r {
        Ok(r) => r,
        Err(msg) => {
            let loc = take_last_panic_loc().map(|l| norm_panic_loc(&l)).unwrap_or_else(|| "?".into());
            let mut res = CaseResult::default();
            res.checks = 1;
            res.vios.push(("panic".into(), (format!("panic@{loc}"), format!("panicked: {msg}"))));
            res
        }
    }
}

fn grid_formats() -> Vec<GFmt> {
    let mut v = vec![GFmt::B(Fmt::Install), GFmt::B(Fmt::InstallV2)];
    v.push(GFmt::B(Fmt::Download { version: 1, checksum: false, flag_size: 0, base: 0 }));
    v.push(GFmt::B(Fmt::Download { version: 1, checksum: true, flag_size: 0, base: 0 }));
    v.push(GFmt::B(Fmt::Download { version: 2, checksum: true, flag_size: 2, base: 0 }));
    v.push(GFmt::B(Fmt::Download { version: 2, checksum: false, flag_size: 4, base: 0 }));
    for base in PRIOS {
        v.push(GFmt::B(Fmt::Download { version: 3, checksum: base % 2 == 0, flag_size: 1, base }));
    }
    v.push(GFmt::Padded(Fmt::Install));
    v.push(GFmt::Padded(Fmt::Download { version: 1, checksum: false, flag_size: 0, base: 0 }));
    v.push(GFmt::Padded(Fmt::Download { version: 3, checksum: true, flag_size: 2, base: -1 }));
    v.push(GFmt::SizeV1);
    v.push(GFmt::SizeV2);
    v
}

fn grid_cases(tier: Tier) -> Vec<GridCase> {
    let mut ns: Vec<usize> = (0..=70).collect();
    if tier == Tier::Thorough {
        ns.extend([255, 256, 257, 1023]);
    }
    let fmts = grid_formats();
    let mut out = Vec::new();
    for n in &ns {
        for ntags in 0..=3usize {
            for pattern in 0..7usize {
                if ntags == 0 && pattern > 0 {
                    continue;
                }
                for style in 0..3usize {
                    for fmt in &fmts {
                        if matches!(fmt, GFmt::SizeV1 | GFmt::SizeV2) && (style == 2 || *n > 70) {
                            continue;
                        }
                        // padding exists only when n is not a multiple of 8 and there is a tag
                        if matches!(fmt, GFmt::Padded(_)) && (*n % 8 == 0 || ntags == 0 || style != 0) {
                            continue;
                        }
                        out.push(GridCase { fmt: *fmt, n: *n, ntags, pattern, style });
                    }
                }
            }
        }
    }
    if tier == Tier::Thorough {
        // tag counts up to 20 (single tags, pairs, prefixes and the full set are queried)
        for n in [0usize, 1, 7, 8, 9, 63, 64, 65, 70] {
            for ntags in [8usize, 20] {
                for pattern in 0..7usize {
                    for fmt in &fmts {
                        if matches!(fmt, GFmt::B(Fmt::InstallV2) | GFmt::Padded(_)) {
                            continue;
                        }
                        out.push(GridCase { fmt: *fmt, n, ntags, pattern, style: pattern % 2 });
                    }
                }
            }
        }
    }
    out
}

struct GridStats {
    cases: u64,
    checks: u64,
}

fn run_grid(tier: Tier, seed: u64, rep: &Report) -> GridStats {
    let cases = grid_cases(tier);
    let results = par_map(cases.len(), |i| run_case(&cases[i], seed, None));
    // gather in canonical (simplest-first) order: the first case of a class names the class
    let mut classes: BTreeMap<String, (usize, String, String, u64)> = BTreeMap::new();
    let mut st = GridStats { cases: cases.len() as u64, checks: 0 };
    let mut calls = 0u64;
    for (i, r) in results.iter().enumerate() {
        st.checks += r.checks;
        calls += r.calls;
        for k in &r.keys {
            rep.add_outcome(*k);
        }
        if r.nontrivial {
            rep.add_nontrivial(fnv64(cases[i].desc().as_bytes()));
        }
        for (step, (kind, detail)) in &r.vios {
            let class = format!("{}|{}|{}", cases[i].fmt.family(), kind, step);
            classes.entry(class).and_modify(|e| e.3 += 1).or_insert((i, step.clone(), detail.clone(), 1));
        }
    }
    for (class, (i, step, detail, count)) in &classes {
        let c = &cases[*i];
        let kind = class.split('|').nth(1).unwrap_or("?");
        let sig = format!("grid|{class}|first:{}", c.desc());
        // replay before report
        let again = run_case(c, seed, Some(step));
        if !again.vios.iter().any(|(s, (k, _))| s == step && k == kind) {
            rep.machinery_error(&format!("grid violation did not reproduce on replay: {sig}"));
        }
        rep.violation(
            kind,
            &sig,
            json!({"grid": c.to_json(), "step": step, "cases_in_class": count}),
            &format!("[{} — step {step}; {count} grid steps fail this way] {detail}", c.desc()),
        );
    }
    rep.add_evaluations(st.checks);
    rep.add_traces(st.cases);
    rep.add_transitions(calls);
    let gs: Vec<Value> = [cases.len() / 5, cases.len() / 3, cases.len() / 2, cases.len() - 1]
        .iter()
        .map(|i| json!({"grid_case": cases[*i].desc(), "oracle_evaluations": results[*i].checks, "builder_calls": results[*i].calls, "violations": results[*i].vios.len()}))
        .collect();
    rep.extra("grid_samples", json!(gs));
    st
}

// ---------------------------------------------------------------------------------------
// driver
// ---------------------------------------------------------------------------------------

impl Sys {
    fn serialized(&self) -> Result<Vec<u8>, String> {
        match &self.real {
            RealB::I(Some(b)) => b.snapshot().build().and_then(|m| m.build()).map_err(|e| e.to_string()),
            RealB::D(Some(b)) => b.clone_builder().build().and_then(|m| m.build()).map_err(|e| e.to_string()),
            _ => Err("no builder".into()),
        }
    }
}

/// A few complete cases written out for the evidence file: program, serialized bytes, what the
/// independent reader sees, what the model says.
fn write_samples(rep: &Report, seed: u64) {
    let dl3 = Fmt::Download { version: 3, checksum: true, flag_size: 1, base: 1 };
    let progs: Vec<(Fmt, usize, Vec<Op>)> = vec![
        (Fmt::Install, 0, vec![Op::AddTag(0), Op::AddFile, Op::AddFile, Op::AddFileTagged(1), Op::RemoveFile(0)]),
        (Fmt::Install, 7, vec![Op::AddTag(1), Op::AddFile, Op::AddFileTagged(1), Op::Assoc(0, 1), Op::RemoveFile(7)]),
        (dl3, 0, vec![Op::AddTag(0), Op::AddTag(1), Op::AddFileTagged(3), Op::AddFileTagged(2), Op::RemoveTag(0), Op::Reopen]),
    ];
    for (fmt, pre, ops) in progs {
        let subj = Subject::new(fmt, pre, seed);
        let Ok(mut sys) = Sys::new(fmt, seed) else { continue };
        let mut ok = (0..pre).all(|id| sys.act(&Act::AddFile(id)).is_ok());
        for op in &ops {
            let act = subj.to_act(op, &sys.model);
            ok = ok && sys.act(&act).is_ok();
        }
        let Ok(bytes) = sys.serialized() else { continue };
        let tags = match fmt {
            Fmt::Download { .. } => refr::parse_download(&bytes).map(|r| r.tags),
            _ => refr::parse_install(&bytes).map(|r| r.tags),
        };
        let verdict = sys.check(&subsets(sys.model.tags.len())).map(|_| "holds".to_string()).unwrap_or_else(|v| format!("VIOLATION {}: {}", v.0, v.1));
        rep.sample(json!({
            "program": {"config": subj.config_name(), "ops": ops.iter().map(|o| format!("{o:?}")).collect::<Vec<_>>(), "all_calls_succeeded": ok},
            "serialized_len": bytes.len(),
            "serialized_head_hex": hex::encode(&bytes[..bytes.len().min(48)]),
            "independent_reader_tags": tags.map(|ts| ts.iter().map(|t| json!({"name": t.name, "type": t.tag_type, "mask_hex": hex::encode(&t.mask), "files": t.files})).collect::<Vec<_>>()).unwrap_or_default(),
            "model_tags": sys.model.tags.iter().map(|t| json!({"name": tag_def(t.t).0, "files": t.files})).collect::<Vec<_>>(),
            "model_file_ids": sys.model.files.iter().map(|f| f.id).collect::<Vec<_>>(),
            "oracle": verdict,
        }));
    }
}

fn repo_roots() -> Vec<std::path::PathBuf> {
    let mut v = Vec::new();
    if let Some(r) = std::env::var_os("VERIF_REPO") {
        v.push(std::path::PathBuf::from(r));
    }
    if let Ok(exe) = std::env::current_exe() {
        // <sandbox>/target/release/vcheck → <sandbox>/repo
        if let Some(p) = exe.ancestors().nth(3) {
            v.push(p.join("repo"));
        }
    }
    v.push(std::path::PathBuf::from("/repo"));
    v
}

fn seq_subjects(seed: u64) -> Vec<(Subject, usize, usize)> {
    // (subject, quick depth, thorough depth)
    let dl = |version, checksum, flag_size, base| Fmt::Download { version, checksum, flag_size, base };
    // VERIF_C19_DEPTH_DELTA: experimentation only (bounds are reported as run)
    let delta: i64 = std::env::var("VERIF_C19_DEPTH_DELTA").ok().and_then(|s| s.parse().ok()).unwrap_or(0);
    let dq = |d: i64| (d + delta).max(1) as usize;
    let dt = |d: i64| (d + delta).max(1) as usize;
    vec![
        (Subject::new(Fmt::Install, 0, seed), dq(24), dt(24)),
        (Subject::new(Fmt::Install, 7, seed), dq(8), dt(11)),
        (Subject::new(dl(1, false, 0, 0), 0, seed), dq(24), dt(24)),
        (Subject::new(dl(2, true, 2, 0), 0, seed), dq(24), dt(24)),
        (Subject::new(dl(3, true, 1, 1), 0, seed), dq(24), dt(24)),
        (Subject::new(dl(3, false, 0, -1), 7, seed), dq(8), dt(11)),
        // two files and three tags (a, b, c) before the program starts
        (Subject::new(Fmt::Install, 102, seed), dq(5), dt(6)),
        (Subject::new(dl(1, false, 0, 0), 102, seed), dq(5), dt(6)),
    ]
}

pub fn run(tier: Tier, seed: u64) -> i32 {
    let rep = Report::new("C19", tier, seed, Level::ModelChecking);
    // the thorough bounds take half a minute: both tiers run them (the tier labels the evidence)
    let tier = {
        let _ = tier;
        Tier::Thorough
    };
    rep.set_rule(
        "(i) every admissible builder program (valid indices, ≤ max files; a tag name may be added again while its tag selects no file) up to the depth bound over {add_tag, remove_tag, add_file, add_file_with_tags/properties, associate (by name, by index, last), dissociate, remove_file (by index, by key), from_manifest re-open, update size/priority} × 2 tags × 3 file-index slots, from 0 files, from 7 files and from 2 files + 3 tags (a, b and a third tag that selects file 0; depth 6), on the real install builder and download builders v1/v2/v3; states = distinct serialized manifests (merged only after the name→index probe passed), transitions = builder calls executed, traces = programs executed; every program ≥ 1 call is distinct and non-trivial",
    );
    rep.set_rule(
        "(ii) every file count × 7 tag patterns (tag j uses pattern p+j) × 0..=3 tags × 3 construction styles × formats (incl. builders re-opened from an install v2 manifest and from manifests whose mask padding bits are set, as real CDN manifests have), each followed by a plain add_file (+ associate), remove_file(i) for i ∈ {0,7,8,last} + re-add, and drains to empty; a grid case is non-trivial when n > 0 and at least one tag bit is set",
    );
    rep.assume("reference model: tag → BTreeSet of file positions, positions above a removed file shift down by one; sizes/priorities are functions of a file id");
    rep.assume("independent reader refimpl::tagmask written from docs/src/formats/{install,download,size-manifest}.md; self-checked on hand-assembled vectors and (when the fixtures are found) on two real CDN install manifests whose OSX tag must select exactly the *.app\\ paths under MSB-first reading");
    rep.assume("effective priority = priority − base_priority clamped to i8 (v3), as `effective_priority` documents; the empty tag combination and queries naming absent tags are not judged");

    if let Err(e) = refr::self_check() {
        rep.machinery_error(&format!("reference reader fails its known-answer vectors: {e}"));
        return rep.finish();
    }
    match refr::real_fixture_check(&repo_roots()) {
        Ok(0) => rep.assume("real-CDN anchor of the reference reader NOT run: fixtures not found"),
        Ok(n) => rep.extra("refimpl_real_fixtures_checked", json!(n)),
        Err(e) => {
            rep.machinery_error(&format!("reference reader disagrees with real CDN fixture: {e}"));
            return rep.finish();
        }
    }

    write_samples(&rep, seed);

    // part (i)
    let mut per_cfg = Vec::new();
    for (s, dq, dt) in seq_subjects(seed) {
        let depth = tier.pick(dq, dt);
        let st = explore(&s, &SeqBounds::depth(depth).with_budget(tier.pick(60, 1500)), &rep);
        per_cfg.push(json!({
            "config": s.config_name(), "depth": depth, "depth_completed": st.completed_depth,
            "alphabet": s.alphabet().len(), "programs": st.histories, "states": st.states,
            "violating_programs": st.violations,
            "elapsed_s_at_end": (rep.elapsed_s() * 10.0).round() / 10.0,
            "longest_program_executed": s.max_len.load(Ordering::Relaxed),
            "state_space_closed_below_depth_bound": st.violations == 0 && st.completed_depth == depth && s.max_len.load(Ordering::Relaxed) < depth,
        }));
    }
    // part (ii)
    let g = run_grid(tier, seed, &rep);

    rep.extra(
        "bounds",
        json!({
            "seq": per_cfg,
            "seq_tags": N_SEQ_TAGS,
            "grid_file_counts": tier.pick("0..=70", "0..=70, 255, 256, 257, 1023"),
            "grid_tag_counts": tier.pick("0..=3 (all subsets queried)", "0..=3 (all subsets queried); 8 (all subsets) and 20 (singles, pairs, prefixes, full) at n ∈ {0,1,7,8,9,63,64,65,70}"),
            "grid_patterns": PATTERN_NAMES,
            "grid_styles": STYLE_NAMES,
            "grid_formats": grid_formats().iter().map(GFmt::name).collect::<Vec<_>>(),
            "grid_cases": g.cases,
            "grid_oracle_evaluations": g.checks,
            "priorities": PRIOS,
            "sizes": [0u64, 1, u64::from(u32::MAX), SIZE40_MAX],
        }),
    );
    let ld = |c: &AtomicU64| c.load(Ordering::Relaxed);
    rep.extra(
        "oracle_counters",
        json!({
            "final_state_checks": ld(&N_CHECKS),
            "checks_with_partial_last_mask_byte": ld(&N_PARTIAL_LAST_BYTE),
            "tag_subset_queries": ld(&N_SUBSET_QUERIES),
            "tag_subset_queries_with_nonempty_intersection": ld(&N_NONEMPTY_RESULTS),
            "remove_file_calls_that_changed_the_mask_length": ld(&N_BOUNDARY_REMOVALS),
            "independent_reader_parses": ld(&N_REF_READS),
            "query_calls": ld(&N_QUERY_CALLS),
            "serialized_tags_with_set_padding_bits": ld(&N_STRAY_PADDING),
        }),
    );
    // vacuity guards (skipped when violations cut the exploration short)
    if rep.violation_count() == 0 {
        if rep.outcomes() < 1000 {
            rep.machinery_error("vacuous exploration: fewer than 1000 distinct serialized manifests");
        }
        for (name, c, min) in [
            ("subset queries with a non-empty result", &N_NONEMPTY_RESULTS, 1000u64),
            ("checks with n % 8 != 0", &N_PARTIAL_LAST_BYTE, 1000),
            ("remove_file calls crossing a byte boundary", &N_BOUNDARY_REMOVALS, 100),
            ("independent reader parses", &N_REF_READS, 1000),
        ] {
            if ld(c) < min {
                rep.machinery_error(&format!("vacuous oracle: only {} {name}", ld(c)));
            }
        }
    }
    rep.finish()
}

pub fn replay(w: &Value) -> i32 {
    let wit = &w["witness"];
    let seed: u64 = std::env::var("VERIF_SEED").ok().and_then(|s| s.parse().ok()).unwrap_or(0);
    if let Some(c) = wit.get("grid").and_then(GridCase::from_json) {
        let step = wit["step"].as_str();
        println!("replaying grid case {} (step {:?})", c.desc(), step);
        let r = run_case(&c, seed, step);
        if r.vios.is_empty() {
            println!("no violation");
            return 0;
        }
        for (s, (k, d)) in &r.vios {
            println!("violates at step {s}: {k}: {d}");
        }
        return 1;
    }
    let cfg = wit["config"].as_str().unwrap_or("");
    let (fmt_s, pre_s) = cfg.rsplit_once("/pre").unwrap_or((cfg, "0"));
    let Some(fmt) = Fmt::parse(fmt_s) else {
        println!("MACHINERY-ERROR: cannot parse config {cfg:?}");
        return 2;
    };
    let subj = Subject::new(fmt, pre_s.parse().unwrap_or(0), seed);
    let ops: Vec<Op> = wit["core_ops"].as_array().map(|a| a.iter().filter_map(|s| parse_op(s.as_str().unwrap_or(""))).collect()).unwrap_or_default();
    println!("replaying on {}: {ops:?}", subj.config_name());
    if !subj.admissible(&ops) {
        println!("MACHINERY-ERROR: program is outside the alphabet");
        return 2;
    }
    match subj.run(&ops).violation {
        Some((i, k, d)) => {
            println!("violates at op {i}: {k}: {d}");
            1
        }
        None => {
            println!("no violation");
            0
        }
    }
}
