//! C13 — version-service queries fail over in order and cache only good answers.
//!
//! NET engine: every assignment of behaviours to the three endpoints (TACT "HTTPS", TACT
//! HTTP, Ribbit TCP) × endpoint class × query script × TTL class × cache kind on the real
//! `RibbitTactClient` over loopback mocks; plus every single cut position of every valid TCP
//! response. Oracle: a reference decision function over {good, transient, definitive,
//! unclassified} + the request logs of the mocks.

use crate::net::{HttpBehaviour, Mock, TcpBehaviour, http_mock, tcp_mock};
use crate::report::{Level, Report, Tier};
use crate::util::Scratch;
use cascette_protocol::config::{CacheConfig, ClientConfig};
use cascette_protocol::{ProtocolError, RibbitTactClient};
use futures::StreamExt;
use serde_json::json;
use std::time::Duration;

fn bpsv(tag: u32) -> Vec<u8> {
    format!("Region!STRING:0|BuildConfig!HEX:16|BuildId!DEC:4|VersionsName!String:0\n## seqn = {tag}\nus|0123456789abcdef0123456789abcdef|{tag}|1.0.0.{tag}\neu|fedcba9876543210fedcba9876543210|{}|1.0.1.{tag}\n", tag + 1).into_bytes()
}

fn v1_mime(tag: u32, good_checksum: bool) -> Vec<u8> {
    v1_mime_nl(tag, good_checksum, "\r\n")
}

/// The same response with bare-LF line ends: MIME headers then end in "\n\n", the very byte
/// sequence the client's read loop uses as its stop rule for V2 responses.
fn v1_mime_lf(tag: u32) -> Vec<u8> {
    v1_mime_nl(tag, true, "\n")
}

/// The V2 document with an empty line after its `k`-th line (k ≥ 1). The BPSV reader skips empty
/// lines, so this is the same table; on the wire it contains "\n\n" — the byte sequence the
/// client's read loop looks for at the end of what it has received so far.
fn bpsv_blank(tag: u32, k: usize) -> Vec<u8> {
    let doc = bpsv(tag);
    let mut out = Vec::new();
    for (i, line) in doc.split_inclusive(|b| *b == b'\n').enumerate() {
        out.extend_from_slice(line);
        if i + 1 == k {
            out.push(b'\n');
        }
    }
    out
}

fn bpsv_lines(tag: u32) -> usize {
    bpsv(tag).iter().filter(|b| **b == b'\n').count()
}

fn v1_mime_nl(tag: u32, good_checksum: bool, nl: &str) -> Vec<u8> {
    let body = String::from_utf8(bpsv(tag)).unwrap();
    let msg = format!("MIME-Version: 1.0{nl}Content-Type: multipart/alternative; boundary=\"b1\"{nl}{nl}--b1{nl}Content-Type: text/plain{nl}Content-Disposition: version{nl}{nl}{body}{nl}--b1--{nl}");
    let mut sum = crate::sha256_hex(msg.as_bytes());
    if !good_checksum {
        let c = if sum.starts_with('0') { '1' } else { '0' };
        sum.replace_range(0..1, &c.to_string());
    }
    format!("{msg}Checksum: {sum}{nl}").into_bytes()
}

#[derive(Clone, Copy, Debug, PartialEq, Eq, Hash)]
pub enum HB {
    Valid,
    S500,
    S502,
    S503,
    S429,
    S429RetryAfter,
    /// 429 with `Retry-After: 3600`: still a transient failure — the next protocol is tried, the
    /// hint is not a reason to stop (and must not be slept on before failing over)
    S429RetryAfterLong,
    S404,
    S403,
    Malformed,
    Refuse,
    AcceptClose,
    CloseMid,
    /// 200 with the full Content-Length, the body cut after n bytes by the peer
    CloseAt(u16),
    Stall,
}

#[derive(Clone, Copy, Debug, PartialEq, Eq, Hash)]
pub enum TB {
    ValidV1,
    /// V1 MIME with bare-LF line ends (segmentation scenarios only)
    ValidV1Lf,
    ValidV2,
    /// V2 with an empty line after line k (segmentation scenarios only)
    ValidV2Blank(u8),
    Malformed,
    WrongChecksum,
    Refuse,
    AcceptClose,
    CloseMid,
    /// the valid V1 response (checksum line last), connection closed after its first n bytes
    CloseAt(u16),
    Stall,
}

impl TB {
    /// name without the position payload, for signatures
    fn class_name(self) -> String {
        match self {
            TB::ValidV2Blank(_) => "ValidV2BlankLine".to_string(),
            TB::CloseAt(_) => "ValidV1ClosedAt".to_string(),
            other => format!("{other:?}"),
        }
    }
}

#[derive(Clone, Copy, Debug, PartialEq)]
enum Class {
    Good,
    Transient,
    Definitive,
    /// failed, but the statement's vocabulary does not say whether the chain may go on
    Unclassified,
    /// the peer closed the connection somewhere inside a valid response: a failure, unless
    /// everything but (part of) the trailing checksum line had arrived — then the complete
    /// document may also be returned (the data is unaltered; DESIGN §6, C07)
    ClosedMidResponse,
}

fn hclass(b: HB) -> Class {
    match b {
        HB::Valid => Class::Good,
        HB::S500 | HB::S502 | HB::S503 | HB::S429 | HB::S429RetryAfter | HB::S429RetryAfterLong | HB::Refuse | HB::Stall => Class::Transient,
        HB::S404 | HB::S403 => Class::Definitive,
        HB::Malformed | HB::AcceptClose | HB::CloseMid | HB::CloseAt(_) => Class::Unclassified,
    }
}

fn tclass(b: TB) -> Class {
    match b {
        TB::ValidV1 | TB::ValidV1Lf | TB::ValidV2 | TB::ValidV2Blank(_) => Class::Good,
        TB::CloseAt(_) => Class::ClosedMidResponse,
        _ => Class::Unclassified, // last endpoint: any failure ends the query with an error
    }
}

const MALFORMED: &[u8] = b"\x00\xff|||!!!\nnot a bpsv document\n|x|y\n";

fn http_behaviour(b: HB, tag: u32) -> HttpBehaviour {
    match b {
        HB::Valid => HttpBehaviour::Ok(bpsv(tag)),
        HB::S500 => HttpBehaviour::Status(500, None),
        HB::S502 => HttpBehaviour::Status(502, None),
        HB::S503 => HttpBehaviour::Status(503, None),
        HB::S429 => HttpBehaviour::Status(429, None),
        HB::S429RetryAfter => HttpBehaviour::Status(429, Some(1)),
        HB::S429RetryAfterLong => HttpBehaviour::Status(429, Some(3600)),
        HB::S404 => HttpBehaviour::Status(404, None),
        HB::S403 => HttpBehaviour::Status(403, None),
        HB::Malformed => HttpBehaviour::Ok(MALFORMED.to_vec()),
        HB::Refuse => HttpBehaviour::Refuse,
        HB::AcceptClose => HttpBehaviour::AcceptClose,
        HB::CloseMid => HttpBehaviour::CloseMidBody(bpsv(tag)),
        HB::CloseAt(n) => HttpBehaviour::CloseAfter(bpsv(tag), n as usize),
        HB::Stall => HttpBehaviour::Stall,
    }
}

fn tcp_behaviour(b: TB, tag: u32, cut: Option<usize>, cut2: Option<usize>) -> TcpBehaviour {
    match b {
        TB::ValidV1 => TcpBehaviour::Send { data: v1_mime(tag, true), cut, cut2 },
        TB::ValidV1Lf => TcpBehaviour::Send { data: v1_mime_lf(tag), cut, cut2 },
        TB::ValidV2 => TcpBehaviour::Send { data: bpsv(tag), cut, cut2 },
        TB::ValidV2Blank(k) => TcpBehaviour::Send { data: bpsv_blank(tag, k as usize), cut, cut2 },
        // the first n bytes, then the mock closes the connection (FIN), as CloseMid does at n = len/2
        TB::CloseAt(n) => {
            let full = v1_mime(tag, true);
            TcpBehaviour::Send { data: full[..(n as usize).min(full.len())].to_vec(), cut: None, cut2: None }
        }
        TB::Malformed => TcpBehaviour::Send { data: MALFORMED.to_vec(), cut: None, cut2: None },
        TB::WrongChecksum => TcpBehaviour::Send { data: v1_mime(tag, false), cut: None, cut2: None },
        TB::Refuse => TcpBehaviour::Refuse,
        TB::AcceptClose => TcpBehaviour::AcceptClose,
        TB::CloseMid => TcpBehaviour::CloseMid(v1_mime(tag, true)),
        TB::Stall => TcpBehaviour::Stall,
    }
}

#[derive(Clone, Debug)]
pub struct Scenario {
    pub https: Option<HB>,
    pub http: Option<HB>,
    pub tcp: TB,
    pub cut: Option<usize>,
    pub cut2: Option<usize>,
    /// 0 = every TTL class as `ttl_zero` says; 1 = only this endpoint's own class as `ttl_zero`
    /// says, the other two classes the opposite (a value cached under the wrong class shows)
    pub ttl_split: bool,
    pub endpoint: &'static str,
    /// "qq" = query twice; "qnq" = query, new client on the same cache dir, query
    pub script: &'static str,
    pub ttl_zero: bool,
    pub disk_cache: bool,
}

impl Scenario {
    fn name(&self) -> String {
        format!(
            "https={:?} http={:?} tcp={:?}{} endpoint={} script={} ttl={} cache={}",
            self.https,
            self.http,
            self.tcp,
            format!("{}{}", self.cut.map(|c| format!(" cut@{c}")).unwrap_or_default(), self.cut2.map(|c| format!("+{c}")).unwrap_or_default()),
            self.endpoint,
            self.script,
            format!("{}{}", if self.script.starts_with("x:") { "2s" } else if self.ttl_zero { "0" } else { "1h" }, if self.ttl_split { "(own class only, others opposite)" } else { "" }),
            if self.disk_cache { "disk" } else { "memory" }
        )
    }
}

fn doc_tag(doc: &cascette_formats::bpsv::BpsvDocument) -> Option<String> {
    // the BuildId of the first row identifies which endpoint's canned document was parsed
    let row = doc.rows().first()?;
    let v = row.get_by_name("BuildId", doc.schema())?;
    Some(format!("{v:?}/rows={}", doc.rows().len()))
}

fn expected_tag(tag: u32) -> String {
    let doc = cascette_formats::bpsv::parse(std::str::from_utf8(&bpsv(tag)).unwrap()).expect("canned document parses");
    doc_tag(&doc).expect("canned document has a BuildId")
}

struct Observed {
    result: Result<String, String>,
    contacts: [usize; 3],
}

fn make_client(sc: &Scenario, ports: [u16; 3], cache_dir: Option<&std::path::Path>) -> Result<RibbitTactClient, String> {
    let expiry = sc.script.starts_with("x:");
    let ttl = if expiry { SHORT_TTL } else if sc.ttl_zero { Duration::ZERO } else { Duration::from_secs(3600) };
    let other = if !sc.ttl_split { ttl } else if sc.ttl_zero || expiry { Duration::from_secs(3600) } else { Duration::ZERO };
    // the documented TTL classes: versions/bgdl → ribbit_ttl, cdns → cdn_ttl, everything else → config_ttl
    let own = if sc.endpoint.contains("versions") || sc.endpoint.contains("bgdl") { 0 } else if sc.endpoint.contains("cdns") { 1 } else { 2 };
    let pick = |i: usize| if i == own { ttl } else { other };
    let cache_config = CacheConfig {
        cache_dir: cache_dir.map(std::path::Path::to_path_buf),
        ribbit_ttl: pick(0),
        cdn_ttl: pick(1),
        config_ttl: pick(2),
        ..CacheConfig::default()
    };
    let cfg = ClientConfig {
        tact_https_url: if sc.https.is_some() { format!("http://127.0.0.1:{}", ports[0]) } else { String::new() },
        tact_http_url: if sc.http.is_some() { format!("http://127.0.0.1:{}", ports[1]) } else { String::new() },
        // the documented forms of the Ribbit address: with the tcp:// scheme, and bare host:port
        ribbit_url: if sc.script.ends_with('B') { format!("127.0.0.1:{}", ports[2]) } else { format!("tcp://127.0.0.1:{}", ports[2]) },
        cache_config,
        ..ClientConfig::default()
    };
    RibbitTactClient::new(cfg).map_err(|e| format!("client creation failed: {e}"))
}

async fn one_query(client: &RibbitTactClient, sc: &Scenario, mocks: &[&Mock; 3]) -> Observed {
    let before = [mocks[0].count(), mocks[1].count(), mocks[2].count()];
    let r = client.query(sc.endpoint).await;
    // give the mocks a moment to log a connection the client has already dropped
    tokio::time::sleep(Duration::from_millis(5)).await;
    let after = [mocks[0].count(), mocks[1].count(), mocks[2].count()];
    let result = match r {
        Ok(doc) => Ok(doc_tag(&doc).unwrap_or_else(|| "<document without BuildId>".into())),
        Err(e) => Err(match e {
            ProtocolError::HttpStatus(s) => format!("HttpStatus({s})"),
            other => format!("{other}").chars().take(80).collect(),
        }),
    };
    Observed { result, contacts: [after[0] - before[0], after[1] - before[1], after[2] - before[2]] }
}

/// Reference decision: the set of allowed (contacts, result) pairs for one un-cached query.
fn allowed(sc: &Scenario) -> Vec<([usize; 3], Result<String, ()>)> {
    let tcp_only = sc.endpoint.starts_with("v1/summary") || sc.endpoint.starts_with("v1/certs/");
    let mut out = Vec::new();
    // walk the chain; `unclassified` failures fork: stop with an error, or go on
    fn walk(chain: &[(usize, Class, u32)], i: usize, contacts: [usize; 3], out: &mut Vec<([usize; 3], Result<String, ()>)>) {
        if i == chain.len() {
            out.push((contacts, Err(())));
            return;
        }
        let (slot, class, tag) = chain[i];
        let mut c = contacts;
        c[slot] += 1;
        match class {
            Class::Good => out.push((c, Ok(expected_tag(tag)))),
            Class::Transient => walk(chain, i + 1, c, out),
            Class::Definitive => out.push((c, Err(()))),
            Class::Unclassified => {
                out.push((c, Err(())));
                if i + 1 < chain.len() {
                    walk(chain, i + 1, c, out);
                }
            }
            Class::ClosedMidResponse => {
                // (only used for the last endpoint)
                out.push((c, Err(())));
                out.push((c, Ok(expected_tag(tag))));
            }
        }
    }
    let mut chain: Vec<(usize, Class, u32)> = Vec::new();
    if !tcp_only {
        if let Some(b) = sc.https {
            chain.push((0, hclass(b), 100));
        }
        if let Some(b) = sc.http {
            chain.push((1, hclass(b), 200));
        }
    }
    chain.push((2, tclass(sc.tcp), 300));
    walk(&chain, 0, [0, 0, 0], &mut out);
    out
}

/// TTL of the expiry scripts (`script = "x:<steps>"`).
const SHORT_TTL: Duration = Duration::from_secs(2);

/// Expiry scripts: all endpoints answer well; steps: `q` query, `n` new client (same cache
/// directory), `w` wait 1.2 s (mid-TTL), `W` wait until the last stored answer has surely
/// expired. Real time: a query is judged only where the measured times leave no doubt — it
/// started after (latest possible store time + TTL + margin) ⇒ must produce traffic; it ended
/// before (earliest possible store time + TTL − margin) ⇒ must produce none. Anything in
/// between is counted as unjudged, never alarmed on.
async fn run_expiry_scenario(sc: Scenario) -> (Scenario, Result<String, (String, String, String)>) {
    let name = sc.name();
    let m0 = http_mock(http_behaviour(sc.https.unwrap_or(HB::Refuse), 100)).await;
    let m1 = http_mock(http_behaviour(sc.http.unwrap_or(HB::Refuse), 200)).await;
    let m2 = tcp_mock(tcp_behaviour(sc.tcp, 300, None, None)).await;
    let ports = [m0.port, m1.port, m2.port];
    let mocks = [&m0, &m1, &m2];
    let scratch = if sc.disk_cache { Some(Scratch::new("c13x")) } else { None };
    let cache_dir = scratch.as_ref().map(|s| s.path.join("cache"));
    let fail = |kind: &str, cls: &str, detail: String| (sc.clone(), Err((kind.to_string(), cls.to_string(), detail)));
    let margin = Duration::from_millis(30);
    let mut client = match make_client(&sc, ports, cache_dir.as_deref()) {
        Ok(c) => c,
        Err(e) => return fail("client-creation", "", e),
    };
    // (earliest, latest) moment at which the answer now cached was stored
    let mut stored: Option<(std::time::Instant, std::time::Instant)> = None;
    let mut summary = String::new();
    let mut unjudged = 0;
    let steps = sc.script.trim_start_matches("x:");
    let cache_cls = if sc.disk_cache { "disk" } else { "memory" };
    for (i, st) in steps.chars().enumerate() {
        match st {
            'n' => {
                drop(client);
                client = match make_client(&sc, ports, cache_dir.as_deref()) {
                    Ok(c) => c,
                    Err(e) => return fail("client-creation", "", e),
                };
                if !sc.disk_cache {
                    stored = None;
                }
            }
            'w' => tokio::time::sleep(Duration::from_millis(1200)).await,
            'W' => {
                if let Some((_, hi)) = stored {
                    let until = hi + SHORT_TTL + margin + Duration::from_millis(70);
                    tokio::time::sleep_until(tokio::time::Instant::from_std(until)).await;
                }
            }
            _ => {
                let start = std::time::Instant::now();
                let o = one_query(&client, &sc, &mocks).await;
                let end = std::time::Instant::now();
                let traffic: usize = o.contacts.iter().sum();
                summary.push_str(&format!("{st}{i}:traffic={} ", traffic.min(1)));
                if o.result.is_err() {
                    return fail("wrong-result", "expiry-script", format!("{name}: step {i}: every endpoint answers well, yet the query failed: {:?}", o.result));
                }
                match stored {
                    Some((lo, hi)) => {
                        if start > hi + SHORT_TTL + margin {
                            if traffic == 0 {
                                return fail(
                                    "expired-answer-served",
                                    &format!("{}|{cache_cls}", sc.script),
                                    format!("{name}: step {i} started {:.3} s after the answer was stored (TTL 2 s) and was answered without any network traffic", (start - hi).as_secs_f64()),
                                );
                            }
                        } else if end + margin < lo + SHORT_TTL {
                            if traffic != 0 {
                                return fail(
                                    "cached-answer-not-used",
                                    &format!("{}|{cache_cls}", sc.script),
                                    format!("{name}: step {i} ended {:.3} s after the answer was stored (TTL 2 s) and produced network traffic {:?}", (end - lo).as_secs_f64(), o.contacts),
                                );
                            }
                        } else {
                            unjudged += 1;
                        }
                    }
                    None => {
                        if traffic == 0 {
                            return fail("answer-from-nowhere", &format!("{}|{cache_cls}", sc.script), format!("{name}: step {i}: nothing can be cached yet, but the query produced no network traffic"));
                        }
                    }
                }
                if traffic != 0 {
                    stored = Some((start, end));
                }
            }
        }
    }
    if unjudged > 0 {
        summary.push_str(&format!("unjudged={unjudged}"));
    }
    (sc, Ok(summary))
}

async fn run_scenario(sc: Scenario) -> (Scenario, Result<String, (String, String, String)>) {
    if sc.script.starts_with("x:") {
        return run_expiry_scenario(sc).await;
    }
    let name = sc.name();
    let m0 = http_mock(http_behaviour(sc.https.unwrap_or(HB::Refuse), 100)).await;
    let m1 = http_mock(http_behaviour(sc.http.unwrap_or(HB::Refuse), 200)).await;
    let m2 = tcp_mock(tcp_behaviour(sc.tcp, 300, sc.cut, sc.cut2)).await;
    let ports = [m0.port, m1.port, m2.port];
    let mocks = [&m0, &m1, &m2];
    let scratch = if sc.disk_cache { Some(Scratch::new("c13")) } else { None };
    let cache_dir = scratch.as_ref().map(|s| s.path.join("cache"));
    let fail = |kind: &str, cls: &str, detail: String| (sc.clone(), Err((kind.to_string(), cls.to_string(), detail)));

    let client = match make_client(&sc, ports, cache_dir.as_deref()) {
        Ok(c) => c,
        Err(e) => return fail("client-creation", "", e),
    };
    let mut first = one_query(&client, &sc, &mocks).await;
    // a refusing endpoint cannot log the connection attempt: its contacts are unobservable
    let unobservable = [sc.https == Some(HB::Refuse) || sc.https.is_none(), sc.http == Some(HB::Refuse) || sc.http.is_none(), sc.tcp == TB::Refuse];
    let mask = |c: &mut [usize; 3]| {
        for i in 0..3 {
            if unobservable[i] {
                c[i] = 0;
            }
        }
    };
    mask(&mut first.contacts);
    let mut allow = allowed(&sc);
    for (c, _) in allow.iter_mut() {
        mask(c);
    }
    let obs_r: Result<String, ()> = first.result.clone().map_err(|_| ());
    let mut out_summary = format!("q1: contacts={:?} result={:?}", first.contacts, first.result);
    if !allow.iter().any(|(c, r)| *c == first.contacts && *r == obs_r) {
        if let (TB::CloseAt(n), Ok(got)) = (sc.tcp, &first.result) {
            // a prefix of the response was returned as a good answer
            let rows = got.rsplit_once("/rows=").map_or("0", |(_, r)| r);
            return fail(
                "truncated-answer-accepted",
                &format!("ValidV1-with-checksum|returned-rows={rows}-of-2"),
                format!("{name}: the peer closed the connection after {n} of {} bytes of a V1 response whose last line is the checksum; the query returned a good answer ({got}) instead of failing — the complete answer is {}", v1_mime(300, true).len(), expected_tag(300)),
            );
        }
        // classify the disagreement
        let contacted_ok = allow.iter().any(|(c, _)| *c == first.contacts);
        let kind = if !contacted_ok { "fail-over-order" } else { "wrong-result" };
        let cls = format!("{:?}/{:?}/{:?}", sc.https.map(hclass), sc.http.map(hclass), tclass(sc.tcp));
        return fail(kind, &cls, format!("{name}: first query contacted [https,http,tcp] = {:?} and returned {:?}; the reference allows {:?}", first.contacts, first.result, allow));
    }
    if sc.script == "q" || sc.script == "qB" {
        return (sc, Ok(out_summary));
    }
    if sc.script == "qcqq" {
        // query, clear the cache, query (has to ask the network again), query (has to be served
        // from the cache again)
        let Ok(tag) = first.result.clone() else { return (sc, Ok(out_summary)) };
        if let Err(e) = client.cache().clear() {
            return fail("cache-clear-failed", sc.script, format!("{name}: cache().clear() failed: {e}"));
        }
        let second = one_query(&client, &sc, &mocks).await;
        let third = one_query(&client, &sc, &mocks).await;
        out_summary.push_str(&format!(" | clear | q2: contacts={:?} result={:?} | q3: contacts={:?} result={:?}", second.contacts, second.result, third.contacts, third.result));
        if second.contacts.iter().sum::<usize>() == 0 {
            return fail("answer-from-nowhere", sc.script, format!("{name}: the cache was cleared, yet the next query produced no network traffic: {:?}", second.result));
        }
        if second.result.as_ref().ok() == Some(&tag) && !sc.ttl_zero {
            if third.contacts.iter().sum::<usize>() != 0 {
                return fail("cached-answer-not-used", sc.script, format!("{name}: after clear() and a good answer (TTL 1 h) the following query produced network traffic {:?}", third.contacts));
            }
            if third.result.as_ref().ok() != Some(&tag) {
                return fail("cached-answer-differs", sc.script, format!("{name}: the cached answer {:?} differs from the answer {tag}", third.result));
            }
        }
        return (sc, Ok(out_summary));
    }
    // second query
    let second = match sc.script {
        "qnq" => {
            drop(client);
            let c2 = match make_client(&sc, ports, cache_dir.as_deref()) {
                Ok(c) => c,
                Err(e) => return fail("client-creation", "", e),
            };
            one_query(&c2, &sc, &mocks).await
        }
        _ => one_query(&client, &sc, &mocks).await,
    };
    out_summary.push_str(&format!(" | q2: contacts={:?} result={:?}", second.contacts, second.result));
    if std::env::var_os("VERIF_DEBUG").is_some() {
        eprintln!("mock logs: {:?} {:?} {:?}; cache dir listing: {:?}", m0.requests(), m1.requests(), m2.requests(), cache_dir.as_ref().map(|d| crate::crash::DirImage::read(d).files.keys().cloned().collect::<Vec<_>>()));
    }
    let mut traffic2: usize = second.contacts.iter().sum();
    if traffic2 == 0 && second.result.is_err() {
        // an error can only come from the network path (refusing endpoints leave no log entry)
        traffic2 = 1;
    }
    let shares_cache = sc.script == "qq" || sc.disk_cache;
    match &first.result {
        Ok(tag) => {
            if !sc.ttl_zero && shares_cache {
                if traffic2 != 0 {
                    return fail("cached-answer-not-used", sc.script, format!("{name}: the second query produced network traffic {:?} although a good answer with TTL 1 h was cached", second.contacts));
                }
                if second.result.as_ref().ok() != Some(tag) {
                    return fail("cached-answer-differs", sc.script, format!("{name}: the cached answer {:?} differs from the first answer {tag}", second.result));
                }
            }
            if sc.ttl_zero && traffic2 == 0 {
                return fail("expired-answer-served", &format!("{}|{}", sc.script, if sc.disk_cache { "disk" } else { "memory" }), format!("{name}: TTL 0, yet the second query was answered without any network traffic: {:?}", second.result));
            }
        }
        Err(_) => {
            if traffic2 == 0 {
                return fail("failure-was-cached", sc.script, format!("{name}: after a failed first query the second query produced no network traffic and returned {:?}", second.result));
            }
        }
    }
    // a malformed / failed answer is never returned as good: covered by `allowed` (tags identify the endpoint)
    (sc, Ok(out_summary))
}

fn scenarios(tier: Tier) -> Vec<Scenario> {
    let hb_all: Vec<HB> = {
        let mut v = vec![HB::Valid, HB::S500, HB::S502, HB::S503, HB::S429, HB::S429RetryAfter, HB::S429RetryAfterLong, HB::S404, HB::S403, HB::Malformed, HB::Refuse, HB::AcceptClose, HB::CloseMid];
        if tier == Tier::Thorough {
            v.push(HB::Stall);
        }
        v
    };
    let tb_all: Vec<TB> = {
        let mut v = vec![TB::ValidV1, TB::ValidV2, TB::Malformed, TB::WrongChecksum, TB::Refuse, TB::AcceptClose, TB::CloseMid];
        if tier == Tier::Thorough {
            v.push(TB::Stall);
        }
        v
    };
    let mut out = Vec::new();
    // (1) full product of behaviours, class versions, script qq, TTL 1 h, disk cache
    for a in &hb_all {
        for b in &hb_all {
            for t in &tb_all {
                if tier == Tier::Thorough && [*a == HB::Stall, *b == HB::Stall, *t == TB::Stall].iter().filter(|x| **x).count() > 1 {
                    continue; // at most one 30 s stall per scenario
                }
                out.push(Scenario { https: Some(*a), http: Some(*b), tcp: *t, cut: None, cut2: None, ttl_split: false, endpoint: "v1/products/wow/versions", script: "qq", ttl_zero: false, disk_cache: true });
            }
        }
    }
    // (2) reduced behaviour set across the other dimensions
    let hb_small = [HB::Valid, HB::S503, HB::S404, HB::Refuse, HB::Malformed];
    let tb_small = [TB::ValidV1, TB::ValidV2, TB::Refuse];
    let endpoints: &[&'static str] = &["v1/products/wow/versions", "v1/products/wow/cdns", "v1/products/wow/bgdl", "v1/summary", "v1/certs/abc"];
    for ep in endpoints {
        for script in ["qq", "qnq"] {
            for ttl_zero in [false, true] {
                for disk in [true, false] {
                    for a in hb_small {
                        for b in hb_small {
                            for t in tb_small {
                                let tcp_only = ep.starts_with("v1/summary") || ep.starts_with("v1/certs");
                                if tcp_only && !(a == HB::Valid && b == HB::S503 || a == HB::S404 && b == HB::Valid) {
                                    continue; // HTTP behaviours are irrelevant for TCP-only classes: two probes suffice
                                }
                                if tier == Tier::Quick && !tcp_only && *ep != "v1/products/wow/versions" && !(a == HB::Valid || a == HB::S503) {
                                    continue;
                                }
                                out.push(Scenario { https: Some(a), http: Some(b), tcp: t, cut: None, cut2: None, ttl_split: false, endpoint: ep, script, ttl_zero, disk_cache: disk });
                                // own TTL class vs the other two: only where the first query can succeed
                                if a == HB::Valid || (a == HB::S503 && b == HB::Valid) || tcp_only {
                                    out.push(Scenario { https: Some(a), http: Some(b), tcp: t, cut: None, cut2: None, ttl_split: true, endpoint: ep, script, ttl_zero, disk_cache: disk });
                                }
                            }
                        }
                    }
                }
            }
        }
    }
    // (9) the bare host:port form of the Ribbit address, where the chain reaches Ribbit; and the
    // script query / clear the cache / query / query
    for (a, b, ep) in [(Some(HB::S503), Some(HB::S503), "v1/products/wow/versions"), (Some(HB::Valid), Some(HB::Valid), "v1/summary"), (None, None, "v1/products/wow/cdns")] {
        for t in [TB::ValidV1, TB::ValidV2] {
            out.push(Scenario { https: a, http: b, tcp: t, cut: None, cut2: None, ttl_split: false, endpoint: ep, script: "qB", ttl_zero: false, disk_cache: false });
        }
    }
    for ep in ["v1/products/wow/versions", "v1/products/wow/cdns", "v1/summary"] {
        for disk in [false, true] {
            out.push(Scenario { https: Some(HB::Valid), http: Some(HB::Valid), tcp: TB::ValidV1, cut: None, cut2: None, ttl_split: false, endpoint: ep, script: "qcqq", ttl_zero: false, disk_cache: disk });
            out.push(Scenario { https: Some(HB::S503), http: Some(HB::Valid), tcp: TB::ValidV1, cut: None, cut2: None, ttl_split: true, endpoint: ep, script: "qcqq", ttl_zero: false, disk_cache: disk });
        }
    }
    // (3) endpoint configuration: each TACT URL present or empty
    for (h1, h2) in [(None, Some(HB::Valid)), (Some(HB::S503), None), (None, None), (None, Some(HB::S404))] {
        for t in tb_small {
            out.push(Scenario { https: h1, http: h2, tcp: t, cut: None, cut2: None, ttl_split: false, endpoint: "v1/products/wow/versions", script: "qq", ttl_zero: false, disk_cache: false });
        }
    }
    // (4) segmentation: every single cut position of every valid TCP response (TCP reached directly)
    let mut seg: Vec<(TB, Vec<u8>)> = vec![(TB::ValidV1, v1_mime(300, true)), (TB::ValidV2, bpsv(300))];
    // the LF variant only if the repository's own MIME parser reads it on the unchanged path
    if cascette_protocol::mime_parser::parse_v1_mime_to_bpsv(&v1_mime_lf(300)).is_ok() && cascette_protocol::mime_parser::is_v1_mime_response(&v1_mime_lf(300)) {
        seg.push((TB::ValidV1Lf, v1_mime_lf(300)));
    }
    // V2 with an empty line after line k, for every k (incl. a trailing one): the same table for the
    // BPSV reader (checked here on the whole bytes, as for the LF variant), single cuts only
    let mut seg_single_only: Vec<(TB, Vec<u8>)> = Vec::new();
    for k in 1..=bpsv_lines(300) {
        let data = bpsv_blank(300, k);
        let same = std::str::from_utf8(&data).ok().and_then(|t| cascette_formats::bpsv::parse(t).ok()).and_then(|d| doc_tag(&d)) == Some(expected_tag(300));
        if same {
            seg_single_only.push((TB::ValidV2Blank(k as u8), data));
        }
    }
    for (t, data) in &seg_single_only {
        for cut in 1..data.len() {
            out.push(Scenario { https: None, http: None, tcp: *t, cut: Some(cut), cut2: None, ttl_split: false, endpoint: "v1/summary", script: "qq", ttl_zero: false, disk_cache: false });
        }
    }
    // (7) connection closed mid-response at every byte position of the V1 response (its checksum
    // line comes last): never a good answer unless it is the complete one, never cached
    let v1_len = v1_mime(300, true).len();
    for n in 1..v1_len {
        for disk in if tier == Tier::Thorough { vec![false, true] } else { vec![false] } {
            out.push(Scenario { https: None, http: None, tcp: TB::CloseAt(n as u16), cut: None, cut2: None, ttl_split: false, endpoint: "v1/summary", script: "qq", ttl_zero: false, disk_cache: disk });
        }
    }
    // (8) the same on a TACT endpoint: 200 with the full Content-Length and the body cut by the peer
    // after every proper prefix — a failure of that endpoint, never a shorter table, never cached
    for n in 0..bpsv(100).len() {
        out.push(Scenario { https: Some(HB::CloseAt(n as u16)), http: Some(HB::Valid), tcp: TB::ValidV1, cut: None, cut2: None, ttl_split: false, endpoint: "v1/products/wow/versions", script: "qq", ttl_zero: false, disk_cache: false });
        if tier == Tier::Thorough {
            out.push(Scenario { https: Some(HB::S503), http: Some(HB::CloseAt(n as u16)), tcp: TB::ValidV1, cut: None, cut2: None, ttl_split: false, endpoint: "v1/products/wow/cdns", script: "qq", ttl_zero: false, disk_cache: true });
        }
    }
    for (t, data) in seg {
        let len = data.len();
        for cut in 1..len {
            out.push(Scenario { https: None, http: None, tcp: t, cut: Some(cut), cut2: None, ttl_split: false, endpoint: "v1/summary", script: "qq", ttl_zero: false, disk_cache: false });
        }
        // (5) two cuts: the read loop's stop rule looks at how a segment *ends* (a blank line) and at
        // what has been *recognised* so far (the MIME prefix). First cut: every position (how much of
        // the prefix the first segment carries); second cut: every later line end (where a segment can
        // end in a blank line) — thorough: every later position on a grid of 3.
        let line_ends: Vec<usize> = data.iter().enumerate().filter(|(_, b)| **b == b'\n').map(|(i, _)| i + 1).filter(|p| *p < len).collect();
        for c1 in 1..len {
            let seconds: Vec<usize> = if tier == Tier::Thorough { (c1 + 1..len).filter(|p| line_ends.contains(p) || p % 3 == 0).collect() } else { line_ends.iter().copied().filter(|p| *p > c1).collect() };
            for c2 in seconds {
                out.push(Scenario { https: None, http: None, tcp: t, cut: Some(c1), cut2: Some(c2), ttl_split: false, endpoint: "v1/summary", script: "q", ttl_zero: false, disk_cache: false });
            }
        }
    }
    // (6) around cache expiry (TTL 2 s, real time): same client, new client adopting the answer
    // early or mid-TTL, new client after expiry; own TTL class short and the others 1 h (split)
    // or all classes short
    for ep in ["v1/products/wow/versions", "v1/products/wow/cdns", "v1/products/wow/bgdl", "v1/summary"] {
        for split in [false, true] {
            for (script, disk) in [("x:qqWq", true), ("x:qnqWq", true), ("x:qwnqWq", true), ("x:qWnq", true), ("x:qwqWq", true), ("x:qqWq", false), ("x:qwqWq", false)] {
                out.push(Scenario { https: Some(HB::Valid), http: Some(HB::Valid), tcp: TB::ValidV1, cut: None, cut2: None, ttl_split: split, endpoint: ep, script, ttl_zero: false, disk_cache: disk });
            }
        }
    }
    out
}

pub fn run(tier: Tier, seed: u64) -> i32 {
    let rep = Report::new("C13", tier, seed, Level::ModelChecking);
    rep.set_rule("scenario = assignment of a behaviour to each of the three loopback endpoints × endpoint class × query script × TTL class × cache kind; (1) the full product of behaviours for versions/qq/1h/disk, (2) a reduced behaviour set across all other dimensions, (3) endpoint URLs present/empty, (4) every single cut position of every valid TCP response (V1 CRLF, V1 LF, V2, and V2 with an empty line after each of its lines), (5) every pair (first cut anywhere, second cut at every later line end; thorough: later positions on a grid of 3), (6) query scripts around the expiry of a 2 s TTL in real time (same client, new client adopting the stored answer at once / mid-TTL / after expiry; own TTL class short with the others 1 h, or all short), judged only where the measured times leave no doubt, (7) the connection closed by the peer after every proper prefix of the V1 response (checksum line last): an error, or the complete document once only the checksum line is cut, and nothing cached after an error, (8) a TACT endpoint answering 200 with the full Content-Length and the body cut by the peer after every proper prefix, (9) the bare host:port form of the Ribbit address and the script query / clear the cache / query / query; states = scenarios, transitions = queries issued, traces = scenarios executed on the real RibbitTactClient");
    rep.assume("loopback TCP, plain HTTP for the 'HTTPS' endpoint (as the repository's own tests do); real time; a refused connection is produced by a bound, non-listening socket");
    rep.assume("classification: 5xx/429/refused/stall = transient, 4xx other than 429 = definitive; 200+malformed body, accept-and-close, close-mid-body are 'failed' but not judged on stop-vs-continue (DESIGN §6)");
    rep.assume("a V2 (plain BPSV) response closed at a row boundary is indistinguishable from a complete shorter response for any client (no length, no checksum): close-at-every-position is enumerated for the V1 response only, whose checksum line the statement of C07 names");
    rep.assume("a single cut is exhaustive for segmentation: the client's read loop state is the received prefix and its stop rule is evaluated at segment ends only");
    // machinery self-check: the canned documents parse and the malformed body does not
    if cascette_formats::bpsv::parse(std::str::from_utf8(&bpsv(1)).unwrap()).is_err() {
        rep.machinery_error("canned BPSV document does not parse");
    }
    if <cascette_formats::bpsv::BpsvDocument as cascette_formats::CascFormat>::parse(MALFORMED).is_ok() {
        rep.machinery_error("the 'malformed' body is accepted by the BPSV parser");
    }
    if cascette_protocol::mime_parser::parse_v1_mime_to_bpsv(&v1_mime(1, true)).is_err() {
        rep.machinery_error("canned V1 MIME response is rejected by the repository's MIME parser");
    }
    let scs = scenarios(tier);
    let total = scs.len();
    let rt = tokio::runtime::Builder::new_multi_thread().worker_threads(16).enable_all().build().expect("runtime");
    let conc = 96;
    let results: Vec<(Scenario, Result<String, (String, String, String)>)> = rt.block_on(async {
        futures::stream::iter(scs.into_iter().map(|sc| async move {
            // each scenario in its own task so that a panic in the client is contained
            let sc2 = sc.clone();
            match tokio::spawn(run_scenario(sc)).await {
                Ok(r) => r,
                Err(e) => (sc2, Err(("panic".to_string(), String::new(), format!("client task panicked: {e}")))),
            }
        }))
        .buffer_unordered(conc)
        .collect()
        .await
    });
    drop(rt);
    let mut queries = 0u64;
    let expiry_total = results.iter().filter(|(sc, _)| sc.script.starts_with("x:")).count();
    let expiry_with_unjudged_step = results.iter().filter(|(_, r)| matches!(r, Ok(s) if s.contains("unjudged="))).count();
    for (i, (sc, r)) in results.iter().enumerate() {
        queries += if sc.script.starts_with("x:") { sc.script.matches('q').count() as u64 } else { 2 };
        match r {
            Ok(summary) => {
                rep.add_outcome(crate::util::fnv64_str(summary));
                if i % (total / 8).max(1) == 0 {
                    rep.sample(json!({"scenario": sc.name(), "observed": summary}));
                }
            }
            Err((kind, cls, detail)) => {
                rep.add_outcome(crate::util::fnv64_str(kind));
                let sig = if sc.cut.is_some() { format!("{kind}|segmentation|{}", sc.tcp.class_name()) } else { format!("{kind}|{cls}") };
                rep.violation(kind, &sig, json!({"scenario": sc.name(), "https": format!("{:?}", sc.https), "http": format!("{:?}", sc.http), "tcp": format!("{:?}", sc.tcp), "cut": sc.cut, "cut2": sc.cut2, "ttl_split": sc.ttl_split,
                    "endpoint": sc.endpoint, "script": sc.script, "ttl_zero": sc.ttl_zero, "disk_cache": sc.disk_cache}), detail);
            }
        }
    }
    rep.add_states(total as u64);
    rep.add_transitions(queries);
    rep.add_traces(total as u64);
    rep.add_evaluations(total as u64);
    rep.add_nontrivial_count(total as u64);
    rep.extra("bounds", json!({"scenarios": total, "stall_behaviours": tier == Tier::Thorough,
        "expiry_scripts": {"scenarios": expiry_total, "ttl": "2 s, real time", "scenarios_with_a_step_too_close_to_the_expiry_instant_to_judge": expiry_with_unjudged_step}}));
    if expiry_total > 0 && expiry_with_unjudged_step * 2 > expiry_total {
        rep.cap_hit("more than half of the expiry scripts had a step too close to the expiry instant to be judged (machine too loaded for the 2 s TTL)");
    }
    if rep.outcomes() < 10 {
        rep.machinery_error("vacuous: fewer than 10 distinct outcomes");
    }
    rep.finish()
}

pub fn replay(w: &serde_json::Value) -> i32 {
    let wit = &w["witness"];
    let parse_hb = |s: &str| -> Option<HB> {
        if let Some(n) = s.strip_prefix("Some(CloseAt(").and_then(|r| r.strip_suffix("))")).and_then(|n| n.parse::<u16>().ok()) {
            return Some(HB::CloseAt(n));
        }
        [HB::Valid, HB::S500, HB::S502, HB::S503, HB::S429, HB::S429RetryAfter, HB::S429RetryAfterLong, HB::S404, HB::S403, HB::Malformed, HB::Refuse, HB::AcceptClose, HB::CloseMid, HB::Stall].into_iter().find(|b| format!("Some({b:?})") == s)
    };
    let parse_tb = |s: &str| -> TB {
        let payload = |prefix: &str| -> Option<u64> { s.strip_prefix(prefix)?.strip_suffix(')')?.parse().ok() };
        if let Some(k) = payload("ValidV2Blank(") {
            return TB::ValidV2Blank(k as u8);
        }
        if let Some(n) = payload("CloseAt(") {
            return TB::CloseAt(n as u16);
        }
        [TB::ValidV1, TB::ValidV1Lf, TB::ValidV2, TB::Malformed, TB::WrongChecksum, TB::Refuse, TB::AcceptClose, TB::CloseMid, TB::Stall].into_iter().find(|b| format!("{b:?}") == s).unwrap_or(TB::Refuse)
    };
    let endpoint: &'static str = ["v1/products/wow/versions", "v1/products/wow/cdns", "v1/products/wow/bgdl", "v1/summary", "v1/certs/abc"].into_iter().find(|e| Some(*e) == wit["endpoint"].as_str()).unwrap_or("v1/products/wow/versions");
    let sc = Scenario {
        https: parse_hb(wit["https"].as_str().unwrap_or("")),
        http: parse_hb(wit["http"].as_str().unwrap_or("")),
        tcp: parse_tb(wit["tcp"].as_str().unwrap_or("")),
        cut: wit["cut"].as_u64().map(|c| c as usize),
        endpoint,
        script: ["qq", "qnq", "q", "qB", "qcqq", "x:qqWq", "x:qnqWq", "x:qwnqWq", "x:qWnq", "x:qwqWq"].into_iter().find(|x| Some(*x) == wit["script"].as_str()).unwrap_or("qq"),
        cut2: wit["cut2"].as_u64().map(|c| c as usize),
        ttl_split: wit["ttl_split"].as_bool().unwrap_or(false),
        ttl_zero: wit["ttl_zero"].as_bool().unwrap_or(false),
        disk_cache: wit["disk_cache"].as_bool().unwrap_or(false),
    };
    let rt = tokio::runtime::Builder::new_multi_thread().worker_threads(2).enable_all().build().expect("runtime");
    let (_, r) = rt.block_on(run_scenario(sc.clone()));
    println!("scenario: {}", sc.name());
    match r {
        Ok(s) => {
            println!("no violation: {s}");
            0
        }
        Err((k, _, d)) => {
            println!("violates: {k}: {d}");
            1
        }
    }
}
