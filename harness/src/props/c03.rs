//! C03 — content resolution finds exactly what was indexed.
//!
//! ENUM engine (in-process, `par_map` + `catch_unwind`): for every structure the flow is
//! always *builder → serialize → parse → probe*; the parsed structure is what is probed.
//!
//! Oracle layers per case (a case = one set of mappings):
//!   1. build/serialize must succeed for a non-empty set (error/panic → `build|error|panic`);
//!   2. the builder's own output must parse (`parse|unparseable`);
//!   3. a linear scan of the parsed entries must be exactly the inserted map
//!      (`parse|lost-entries / phantom-entries / wrong-value`);
//!   4. every lookup flavour on every probe (inserted keys, key±1, all-00, all-FF, fillers
//!      around the page boundaries) must agree with the `BTreeMap` model
//!      (`false-negative / false-positive / wrong-value`), batches must agree element-wise
//!      with single lookups (`batch-disagrees`), and when layer 3 failed the flavours are
//!      compared with the linear scan of what *was* parsed instead (`scan-disagrees`), so
//!      that a structural loss and a lookup defect get different signatures.
//!
//! Signature = `structure|flavour|class|group|<smallest parameter tuple>`; violations are
//! grouped by (structure, flavour, class, group) — group = root version / key size /
//! ekeys-per-ckey / TVFS flags — the first witness in enumeration order (simplest first) is
//! kept and the rest are counted.
//!
//! Interpretation decisions (all in the direction of not alarming; the property text leaves
//! these open):
//!   * the empty set: a builder/parser that *rejects* an empty table with an error is fine;
//!   * archive-index probes shorter/longer than the key size: only "no panic" and "a returned
//!     entry shares the common-length prefix with the probe" are required;
//!   * V1 root manifests always carry a name hash: records added without a name are not
//!     probed by hash and their parsed hash is not compared;
//!   * root records are placed consistently with the format: named records in a block without
//!     NO_NAME_HASH, unnamed records in a block with it (anything else is a caller error);
//!   * a root query that matches several blocks (locale ALL) may return any matching record;
//!   * `ContentResolver::resolve_file_data_id` has no locale argument: any content key
//!     inserted for that FileDataID is accepted;
//!   * TVFS paths with empty segments (`a//b`, `/a`, `a/`) are normalised by the builder; only
//!     the normalised form is required to resolve; duplicate paths after normalisation are a
//!     caller error and are not generated.

use crate::report::{Level, Report, Tier};
use crate::util::{Scratch, catch, fnv64, fnv64_str, par_map, take_last_panic_loc};
use serde::{Deserialize, Serialize};
use serde_json::{Value, json};
use std::collections::{BTreeMap, BTreeSet};
use std::io::Cursor;
use std::sync::atomic::{AtomicBool, Ordering};
use std::time::Instant;

use cascette_crypto::{ContentKey, EncodingKey};

// ---------------------------------------------------------------------------------------
// common: violations, aggregation
// ---------------------------------------------------------------------------------------

#[derive(Clone, Debug)]
struct Viol {
    /// structure|flavour|class|group
    key: String,
    /// smallest parameter tuple (case parameters + symbolic probe name)
    params: String,
    witness: Value,
    detail: String,
}

#[derive(Default)]
struct Agg {
    evals: u64,
    cases: u64,
    nontrivial: u64,
    outcomes: BTreeSet<u64>,
    counters: BTreeMap<String, u64>,
    viols: BTreeMap<String, (Viol, u64)>,
    samples: Vec<Value>,
}

impl Agg {
    fn bump(&mut self, k: &str, n: u64) {
        if let Some(v) = self.counters.get_mut(k) {
            *v += n;
        } else {
            self.counters.insert(k.to_string(), n);
        }
    }
    fn merge(&mut self, o: Agg) {
        self.evals += o.evals;
        self.cases += o.cases;
        self.nontrivial += o.nontrivial;
        self.outcomes.extend(o.outcomes);
        for (k, n) in o.counters {
            self.bump(&k, n);
        }
        for (k, (v, n)) in o.viols {
            if let Some(e) = self.viols.get_mut(&k) {
                e.1 += n;
            } else {
                self.viols.insert(k, (v, n));
            }
        }
        for s in o.samples {
            // at most two samples per structure
            if self.samples.iter().filter(|x| x["structure"] == s["structure"]).count() < 2 {
                self.samples.push(s);
            }
        }
    }
}

/// Per-case context for reporting.
struct Cx {
    structure: &'static str,
    group: String,
    /// group override for sub-structures probed in the same case
    group_of: Vec<(&'static str, String)>,
    params: String,
    wit: Value,
}

impl Cx {
    fn report(&self, agg: &mut Agg, flavour: &str, class: &str, probe: &str, detail: impl FnOnce() -> String) {
        self.report_as(agg, self.structure, flavour, class, probe, detail);
    }
    fn report_as(
        &self,
        agg: &mut Agg,
        structure: &str,
        flavour: &str,
        class: &str,
        probe: &str,
        detail: impl FnOnce() -> String,
    ) {
        let group = self.group_of.iter().find(|(s, _)| *s == structure).map(|(_, g)| g.as_str()).unwrap_or(self.group.as_str());
        let key = format!("{}|{}|{}|{}", structure, flavour, class, group);
        if let Some(e) = agg.viols.get_mut(&key) {
            e.1 += 1;
            return;
        }
        let params = if probe.is_empty() { self.params.clone() } else { format!("{},probe={}", self.params, probe) };
        let v = Viol {
            key: key.clone(),
            params,
            witness: json!({"case": self.wit, "flavour": flavour, "class": class, "probe": probe}),
            detail: detail(),
        };
        agg.viols.insert(key, (v, 1));
    }
}

fn panic_site() -> String {
    let loc = take_last_panic_loc().unwrap_or_else(|| "<unknown>".into());
    let l = match loc.find("crates/") {
        Some(i) => &loc[i..],
        None => loc.as_str(),
    };
    match l.rfind(':') {
        Some(i) => l[..i].to_string(),
        None => l.to_string(),
    }
}

fn hx(b: &[u8]) -> String {
    hex::encode(b)
}

/// All 256 subsets of an 8-element window, simplest first (by popcount, then value).
fn subsets() -> Vec<u8> {
    let mut v: Vec<u8> = (0..=255u8).collect();
    v.sort_by_key(|s| (s.count_ones(), *s));
    v
}

static STOP: AtomicBool = AtomicBool::new(false);

// ---------------------------------------------------------------------------------------
// key space shared by encoding / archive index / archive group
// ---------------------------------------------------------------------------------------

/// Logical key identity; byte order of the rendered keys follows the derive(Ord) order.
#[derive(Clone, Copy, Debug, PartialEq, Eq, PartialOrd, Ord)]
enum Kid {
    Zero,
    ZeroP1,
    Idx(u32),
    FfM1,
    Ff,
}

#[derive(Clone, Copy, Debug, PartialEq, Eq, Serialize, Deserialize)]
enum Head {
    None,
    /// all-zero key with a non-zero value
    ZeroNz,
    /// all-zero key whose value (size, offset, …) is all zero too
    ZeroZv,
}

#[derive(Clone, Copy, Debug, PartialEq, Eq, Serialize, Deserialize)]
enum Tail {
    None,
    Ff,
    /// three ordinary keys above the window
    Up3,
}

#[derive(Clone, Copy, Debug, PartialEq, Eq, Serialize, Deserialize)]
enum Order {
    Asc,
    Desc,
    /// odd positions descending, then even positions ascending
    Inter,
}

/// Filler below the window: `pages * capacity - j` keys (0 when pages == 0).
#[derive(Clone, Copy, Debug, PartialEq, Eq, Serialize, Deserialize)]
struct Fill {
    pages: u8,
    j: u8,
}

impl Fill {
    fn count(self, cap: usize) -> usize {
        (self.pages as usize * cap).saturating_sub(self.j as usize)
    }
    fn name(self) -> String {
        if self.pages == 0 { "0".into() } else { format!("{}R-{}", self.pages, self.j) }
    }
}

fn fills(tier: Tier) -> Vec<Fill> {
    let mut v = vec![Fill { pages: 0, j: 0 }];
    for j in 0..=8u8 {
        v.push(Fill { pages: 1, j });
    }
    match tier {
        Tier::Quick => {
            v.push(Fill { pages: 2, j: 1 });
            v.push(Fill { pages: 2, j: 0 });
        }
        Tier::Thorough => {
            for j in 0..=8u8 {
                v.push(Fill { pages: 2, j });
            }
        }
    }
    v
}

#[derive(Clone, Copy)]
struct KeySpace {
    ks: usize,
    fill_base: u32,
    win_base: u32,
}

const WIN: usize = 8;

impl KeySpace {
    fn new(ks: usize) -> KeySpace {
        if ks == 1 { KeySpace { ks, fill_base: 1, win_base: 0x80 } } else { KeySpace { ks, fill_base: 0x100, win_base: 0x900 } }
    }
    /// how many filler keys exist below the window
    fn max_fill(&self) -> usize {
        (self.win_base - 1 - self.fill_base) as usize
    }
    fn win(&self, i: usize) -> u32 {
        self.win_base + 2 * i as u32
    }
    fn bytes(&self, k: Kid) -> Vec<u8> {
        let ks = self.ks;
        match k {
            Kid::Zero => vec![0u8; ks],
            Kid::ZeroP1 => {
                let mut v = vec![0u8; ks];
                v[ks - 1] = 1;
                v
            }
            Kid::Ff => vec![0xFFu8; ks],
            Kid::FfM1 => {
                let mut v = vec![0xFFu8; ks];
                v[ks - 1] = 0xFE;
                v
            }
            Kid::Idx(i) => {
                if ks == 1 {
                    vec![i as u8]
                } else {
                    let mut v = vec![0x77u8; ks];
                    v[ks - 2] = (i >> 8) as u8;
                    v[ks - 1] = i as u8;
                    v
                }
            }
        }
    }
    /// keys present for a layout, in ascending order
    fn present(&self, f: usize, head: Head, tail: Tail, s: u8) -> Vec<Kid> {
        let mut v = Vec::with_capacity(f + 12);
        if head != Head::None {
            v.push(Kid::Zero);
        }
        for i in 0..f {
            v.push(Kid::Idx(self.fill_base + i as u32));
        }
        for i in 0..WIN {
            if s & (1 << i) != 0 {
                v.push(Kid::Idx(self.win(i)));
            }
        }
        match tail {
            Tail::None => {}
            Tail::Ff => v.push(Kid::Ff),
            Tail::Up3 => {
                for i in 0..3u32 {
                    v.push(Kid::Idx(self.win_base + 0x20 + i));
                }
            }
        }
        v
    }
    /// symbolic, run-independent name of a key
    fn label(&self, k: Kid) -> String {
        match k {
            Kid::Zero => "zero".into(),
            Kid::ZeroP1 => "zero+1".into(),
            Kid::Ff => "ff".into(),
            Kid::FfM1 => "ff-1".into(),
            Kid::Idx(i) if i >= self.win_base + 0x20 => format!("up{}", i - self.win_base - 0x20),
            Kid::Idx(i) if i >= self.win_base => {
                let d = i - self.win_base;
                if d % 2 == 0 { format!("w{}", d / 2) } else { format!("g{}", d / 2 + 1) }
            }
            Kid::Idx(i) if i + 1 == self.win_base => "g0".into(),
            Kid::Idx(i) => format!("fill{}", i as i64 - self.fill_base as i64),
        }
    }
    /// probes: every window key and every gap (= key±1 of every window key), all-00, all-00+1,
    /// all-FF, all-FF-1, fillers at and around the ends and at/around every capacity multiple
    fn probes(&self, f: usize, cap: usize) -> Vec<(String, Kid)> {
        let mut v: Vec<(String, Kid)> = Vec::new();
        for p in 0..=(2 * WIN as u32) {
            let idx = self.win_base - 1 + p;
            let name = if p % 2 == 1 { format!("w{}", (p - 1) / 2) } else { format!("g{}", p / 2) };
            v.push((name, Kid::Idx(idx)));
        }
        v.push(("zero".into(), Kid::Zero));
        v.push(("zero+1".into(), Kid::ZeroP1));
        v.push(("ff".into(), Kid::Ff));
        v.push(("ff-1".into(), Kid::FfM1));
        let mut fidx: Vec<(String, i64)> = vec![
            ("fill.first-1".into(), -1),
            ("fill.first".into(), 0),
            ("fill.last".into(), f as i64 - 1),
            ("fill.last+1".into(), f as i64),
            ("fill.mid".into(), f as i64 / 2),
        ];
        for m in 1..=2i64 {
            for d in -2..=1i64 {
                fidx.push((format!("fill.{m}R{d:+}"), m * cap as i64 + d));
            }
        }
        for (n, i) in fidx {
            let idx = self.fill_base as i64 + i;
            if idx >= 0 && (idx as u32) < self.win_base - 1 && (self.ks > 1 || idx < 256) {
                v.push((n, Kid::Idx(idx as u32)));
            }
        }
        for i in 0..3u32 {
            v.push((format!("up{i}"), Kid::Idx(self.win_base + 0x20 + i)));
        }
        v.push(("up3".into(), Kid::Idx(self.win_base + 0x23)));
        // dedup by kid, keep the first label
        let mut seen = BTreeSet::new();
        v.retain(|(_, k)| seen.insert(*k));
        v
    }
}

fn apply_order<T>(mut v: Vec<T>, o: Order) -> Vec<T> {
    match o {
        Order::Asc => v,
        Order::Desc => {
            v.reverse();
            v
        }
        Order::Inter => {
            let mut odd = Vec::new();
            let mut even = Vec::new();
            for (i, x) in v.drain(..).enumerate() {
                if i % 2 == 1 { odd.push(x) } else { even.push(x) }
            }
            odd.reverse();
            odd.extend(even);
            odd
        }
    }
}

/// Count, for every page boundary that touches the window zone, after how many present
/// window keys it falls (vacuity evidence: "the boundary is put at every position").
fn boundary_positions(ksp: &KeySpace, last_keys_of_pages: &[Vec<u8>], first_keys_of_pages: &[Vec<u8>], s: u8) -> Vec<usize> {
    let w0 = ksp.bytes(Kid::Idx(ksp.win(0)));
    let w7 = ksp.bytes(Kid::Idx(ksp.win(WIN - 1)));
    let mut out = Vec::new();
    for p in 0..last_keys_of_pages.len().saturating_sub(1) {
        let last = &last_keys_of_pages[p];
        let first = &first_keys_of_pages[p + 1];
        if *first >= w0 && *last <= w7 {
            let mut n = 0;
            for i in 0..WIN {
                if s & (1 << i) != 0 && ksp.bytes(Kid::Idx(ksp.win(i))) <= *last {
                    n += 1;
                }
            }
            out.push(n);
        }
    }
    out
}

const BPOS: [&str; 9] = ["b0", "b1", "b2", "b3", "b4", "b5", "b6", "b7", "b8"];

// ---------------------------------------------------------------------------------------
// section ENC — encoding table (CKey pages and EKey pages, 1 KiB pages)
// ---------------------------------------------------------------------------------------

mod enc {
    use super::*;
    use cascette_formats::encoding::{CKeyEntryData, EKeyEntryData, EncodingBuilder, EncodingFile};

    #[derive(Clone, Debug, Serialize, Deserialize)]
    pub struct Shard {
        /// encoding keys per content key (changes CKey entry size and page capacity)
        pub k: u8,
        pub fill: Fill,
        pub head: Head,
        pub tail: Tail,
        pub order: Order,
    }

    pub const ESPECS: [&str; 3] = ["z", "n", "b:{16K*=z}"];
    const EKEY_CAP: usize = 1024 / 25;

    pub fn ckey_cap(k: u8) -> usize {
        1024 / (22 + 16 * k as usize)
    }

    pub fn shards(tier: Tier) -> Vec<Shard> {
        let mut v = Vec::new();
        let hts: Vec<(Head, Tail)> = match tier {
            Tier::Quick => vec![(Head::None, Tail::Ff), (Head::ZeroNz, Tail::Up3), (Head::ZeroZv, Tail::None)],
            Tier::Thorough => {
                let mut x = Vec::new();
                for h in [Head::None, Head::ZeroNz, Head::ZeroZv] {
                    for t in [Tail::None, Tail::Ff, Tail::Up3] {
                        x.push((h, t));
                    }
                }
                x
            }
        };
        let orders: Vec<Order> = tier.pick(vec![Order::Asc, Order::Inter], vec![Order::Asc, Order::Desc, Order::Inter]);
        for k in 1..=3u8 {
            for &order in &orders {
                for &(head, tail) in &hts {
                    for fill in fills(tier) {
                        v.push(Shard { k, fill, head, tail, order });
                    }
                }
            }
        }
        v
    }

    fn ck(ksp: &KeySpace, kid: Kid) -> [u8; 16] {
        let b = ksp.bytes(kid);
        let mut a = [0u8; 16];
        a.copy_from_slice(&b);
        a
    }

    /// j-th encoding key of a content key; ordered like the content keys
    fn ek(kid: Kid, j: u8) -> [u8; 16] {
        match kid {
            Kid::Zero => {
                let mut a = [0u8; 16];
                a[15] = j;
                a
            }
            Kid::ZeroP1 => {
                let mut a = [0u8; 16];
                a[14] = 1;
                a[15] = j;
                a
            }
            Kid::Ff => {
                let mut a = [0xFFu8; 16];
                a[15] = 0xFF - j;
                a
            }
            Kid::FfM1 => {
                let mut a = [0xFFu8; 16];
                a[14] = 0xFE;
                a[15] = j;
                a
            }
            Kid::Idx(i) => {
                let mut a = [0x33u8; 16];
                a[13] = (i >> 8) as u8;
                a[14] = i as u8;
                a[15] = j;
                a
            }
        }
    }

    fn csize(ksp: &KeySpace, kid: Kid, head: Head) -> u64 {
        match kid {
            Kid::Zero if head == Head::ZeroZv => 0,
            Kid::Idx(i) if i == ksp.win(0) => 0,
            Kid::Idx(i) if i == ksp.win(7) => 0xFF_FFFF_FFFF,
            Kid::Idx(i) => u64::from(i) * 11 + 1,
            Kid::Zero => 5,
            Kid::Ff => 0xFF_FFFF_FFFF,
            _ => 9,
        }
    }
    fn esize(ksp: &KeySpace, kid: Kid, head: Head) -> u64 {
        match kid {
            Kid::Zero if head == Head::ZeroZv => 0,
            Kid::Idx(i) if i == ksp.win(1) => 0,
            Kid::Idx(i) if i == ksp.win(6) => 0xFF_FFFF_FFFF,
            Kid::Idx(i) => u64::from(i) * 13 + 3,
            Kid::Zero => 6,
            Kid::Ff => 0xFF_FFFF_FFFF,
            _ => 9,
        }
    }
    fn espec_of(kid: Kid) -> &'static str {
        match kid {
            Kid::Idx(i) => ESPECS[(i % 3) as usize],
            Kid::Zero => ESPECS[0],
            _ => ESPECS[1],
        }
    }

    thread_local! {
        /// evaluate the builder program "… then add one more key and remove it again"
        pub static ADD_REMOVE: std::cell::Cell<bool> = const { std::cell::Cell::new(false) };
        /// encoding only: the extra key is the smallest and goes in first (else the largest, last)
        pub static SMALL_FIRST: std::cell::Cell<bool> = const { std::cell::Cell::new(false) };
        /// encoding only: page sizes in KiB (content-key pages, encoding-key pages)
        pub static PAGE_KB: std::cell::Cell<(u16, u16)> = const { std::cell::Cell::new((1, 1)) };
    }

    type CModel = BTreeMap<[u8; 16], (u64, Vec<[u8; 16]>)>;
    type EModel = BTreeMap<[u8; 16], (String, u64)>;

    pub fn eval_shard(sh: &Shard) -> Agg {
        let mut agg = Agg::default();
        for s in subsets() {
            eval_case(sh, s, &mut agg);
            // builder programs that take a mapping back: one more key is added and removed again
            if s == 0 || s == 0xFF || s == 0x5A {
                ADD_REMOVE.with(|c| c.set(true));
                eval_case(sh, s, &mut agg);
                SMALL_FIRST.with(|c| c.set(true));
                eval_case(sh, s, &mut agg);
                SMALL_FIRST.with(|c| c.set(false));
                ADD_REMOVE.with(|c| c.set(false));
            }
            // the two tables with pages of different sizes (the fills are those of 1 KiB pages, so
            // the tables also get different page counts)
            if s == 0xFF {
                for kb in [(1u16, 4u16), (4, 1)] {
                    PAGE_KB.with(|c| c.set(kb));
                    eval_case(sh, s, &mut agg);
                }
                PAGE_KB.with(|c| c.set((1, 1)));
            }
        }
        agg
    }

    pub fn eval_case(sh: &Shard, s: u8, agg: &mut Agg) {
        let ksp = KeySpace::new(16);
        let add_remove = ADD_REMOVE.with(std::cell::Cell::get);
        let small_first = SMALL_FIRST.with(std::cell::Cell::get);
        let page_kb = PAGE_KB.with(std::cell::Cell::get);
        let ccap = ckey_cap(sh.k);
        let fc = sh.fill.count(ccap);
        let fe = sh.fill.count(EKEY_CAP);
        let cx = Cx {
            structure: "encoding",
            group: format!("k={}", sh.k),
            group_of: vec![("encoding-ekey", "-".to_string())],
            params: format!("fill={},head={:?},tail={:?},order={:?},S={:02x}{}{}", sh.fill.name(), sh.head, sh.tail, sh.order, s, if !add_remove { "" } else if small_first { ",smallest-key-added-first-and-removed-last" } else { ",then-add-and-remove-one-more" }, if page_kb == (1, 1) { String::new() } else { format!(",pages={}K/{}K", page_kb.0, page_kb.1) }),
            wit: json!({"section": "enc", "shard": sh, "s": s, "add_remove": add_remove, "small_first": small_first, "page_kb": [page_kb.0, page_kb.1]}),
        };
        agg.cases += 1;

        let cpresent = ksp.present(fc, sh.head, sh.tail, s);
        let epresent = ksp.present(fe, sh.head, sh.tail, s);
        let mut cmodel: CModel = BTreeMap::new();
        let mut emodel: EModel = BTreeMap::new();
        for kid in &cpresent {
            let eks: Vec<[u8; 16]> = (0..sh.k).map(|j| ek(*kid, j)).collect();
            cmodel.insert(ck(&ksp, *kid), (csize(&ksp, *kid, sh.head), eks));
        }
        for kid in &epresent {
            emodel.insert(ek(*kid, 0), (espec_of(*kid).to_string(), esize(&ksp, *kid, sh.head)));
        }

        // ---- build → serialize → parse
        let built = catch(|| {
            let mut b = EncodingBuilder::new().with_page_sizes(page_kb.0, page_kb.1);
            // (keys no window or filler key equals: the key space never produces 0x77 runs)
            let (xc, xe) = if small_first { ([0u8, 0x77, 0x77, 0x77, 0x77, 0x77, 0x77, 0x77, 0x77, 0x77, 0x77, 0x77, 0x77, 0x77, 0x77, 0x77], [0u8, 0x78, 0x78, 0x78, 0x78, 0x78, 0x78, 0x78, 0x78, 0x78, 0x78, 0x78, 0x78, 0x78, 0x78, 0x78]) } else { ([0x77u8; 16], [0x78u8; 16]) };
            let extra_ok = add_remove && !cmodel.contains_key(&xc) && !emodel.contains_key(&xe);
            let add_extra = |b: &mut EncodingBuilder| {
                b.add_ckey_entry(CKeyEntryData { content_key: ContentKey::from_bytes(xc), file_size: 5, encoding_keys: vec![EncodingKey::from_bytes(xe)] });
                b.add_ekey_entry(EKeyEntryData { encoding_key: EncodingKey::from_bytes(xe), espec: ESPECS[0].to_string(), file_size: 5 });
            };
            if extra_ok && small_first {
                add_extra(&mut b);
            }
            for kid in apply_order(cpresent.clone(), sh.order) {
                let (sz, eks) = &cmodel[&ck(&ksp, kid)];
                b.add_ckey_entry(CKeyEntryData {
                    content_key: ContentKey::from_bytes(ck(&ksp, kid)),
                    file_size: *sz,
                    encoding_keys: eks.iter().map(|e| EncodingKey::from_bytes(*e)).collect(),
                });
            }
            for kid in apply_order(epresent.clone(), sh.order) {
                let (sp, sz) = &emodel[&ek(kid, 0)];
                b.add_ekey_entry(EKeyEntryData { encoding_key: EncodingKey::from_bytes(ek(kid, 0)), espec: sp.clone(), file_size: *sz });
            }
            if extra_ok {
                if !small_first {
                    add_extra(&mut b);
                }
                b.remove_ckey_entry(&ContentKey::from_bytes(xc));
                b.remove_ekey_entry(&EncodingKey::from_bytes(xe));
            }
            b.build().and_then(|f| f.build())
        });
        let empty = cmodel.is_empty() || emodel.is_empty();
        let bytes = match built {
            Err(p) => {
                cx.report(agg, "build", "panic", "", || format!("EncodingBuilder panicked at {}: {p}", panic_site()));
                return;
            }
            Ok(Err(e)) => {
                if empty {
                    agg.outcomes.insert(fnv64_str("enc-empty-build-rejected"));
                } else {
                    cx.report(agg, "build", "error", "", || format!("EncodingBuilder::build failed on {} ckeys / {} ekeys: {e}", cmodel.len(), emodel.len()));
                }
                return;
            }
            Ok(Ok(b)) => b,
        };
        let parsed = match catch(|| EncodingFile::parse(&bytes)) {
            Err(p) => {
                cx.report(agg, "parse", "panic", "", || format!("EncodingFile::parse panicked at {}: {p}", panic_site()));
                return;
            }
            Ok(Err(e)) => {
                if empty {
                    // an empty table is rejected by the parser (page count 0): explicit error, not alarming
                    agg.outcomes.insert(fnv64_str("enc-empty-parse-rejected"));
                    agg.bump("enc_empty_rejected", 1);
                } else {
                    cx.report(agg, "parse", "unparseable", "", || {
                        format!("the builder's own output ({} ckeys, {} ekeys, {} bytes) is rejected by EncodingFile::parse: {e}", cmodel.len(), emodel.len(), bytes.len())
                    });
                }
                return;
            }
            Ok(Ok(f)) => f,
        };

        // ---- layer 3: linear scan of the parsed entries == model
        let mut cscan: BTreeMap<[u8; 16], Vec<(u64, Vec<[u8; 16]>)>> = BTreeMap::new();
        for p in &parsed.ckey_pages {
            for e in &p.entries {
                cscan.entry(*e.content_key.as_bytes()).or_default().push((e.file_size, e.encoding_keys.iter().map(|k| *k.as_bytes()).collect()));
            }
        }
        let mut escan: BTreeMap<[u8; 16], Vec<(Option<String>, u64)>> = BTreeMap::new();
        for p in &parsed.ekey_pages {
            for e in &p.entries {
                escan.entry(*e.encoding_key.as_bytes()).or_default().push((parsed.espec_table.get(e.espec_index).map(str::to_string), e.file_size));
            }
        }
        let mut c_ok = true;
        for (k, v) in &cmodel {
            match cscan.get(k) {
                None => {
                    c_ok = false;
                    cx.report_as(agg, "encoding-ckey", "parse", "lost-entries", &label_of(&cpresent, &ksp, k), || {
                        format!("inserted CKey {} is absent from the parsed CKey pages ({} of {} entries survive, {} pages)", hx(k), cscan.len(), cmodel.len(), parsed.ckey_pages.len())
                    });
                }
                Some(l) if l.len() != 1 || l[0] != *v => {
                    c_ok = false;
                    cx.report_as(agg, "encoding-ckey", "parse", "wrong-value", &label_of(&cpresent, &ksp, k), || format!("CKey {}: parsed {:?}, inserted {:?}", hx(k), l, v));
                }
                _ => {}
            }
        }
        for k in cscan.keys() {
            if !cmodel.contains_key(k) {
                c_ok = false;
                cx.report_as(agg, "encoding-ckey", "parse", "phantom-entries", "", || format!("parsed CKey {} was never inserted", hx(k)));
            }
        }
        let mut e_ok = true;
        for (k, v) in &emodel {
            match escan.get(k) {
                None => {
                    e_ok = false;
                    let fl = if sh.head == Head::ZeroZv { "parse/all-zero-record" } else { "parse" };
                    cx.report_as(agg, "encoding-ekey", fl, "lost-entries", &elabel_of(&epresent, &ksp, k), || {
                        format!("inserted EKey {} is absent from the parsed EKey pages ({} of {} entries survive, {} pages)", hx(k), escan.len(), emodel.len(), parsed.ekey_pages.len())
                    });
                }
                Some(l) if l.len() != 1 || l[0] != (Some(v.0.clone()), v.1) => {
                    e_ok = false;
                    cx.report_as(agg, "encoding-ekey", "parse", "wrong-value", &elabel_of(&epresent, &ksp, k), || format!("EKey {}: parsed {:?}, inserted {:?}", hx(k), l, v));
                }
                _ => {}
            }
        }
        for k in escan.keys() {
            if !emodel.contains_key(k) {
                e_ok = false;
                cx.report_as(agg, "encoding-ekey", "parse", "phantom-entries", "", || format!("parsed EKey {} was never inserted", hx(k)));
            }
        }
        agg.evals += (cmodel.len() + emodel.len()) as u64;

        // vacuity evidence: where do the page boundaries fall
        {
            let lasts: Vec<Vec<u8>> = parsed.ckey_pages.iter().filter_map(|p| p.entries.last().map(|e| e.content_key.as_bytes().to_vec())).collect();
            let firsts: Vec<Vec<u8>> = parsed.ckey_pages.iter().filter_map(|p| p.entries.first().map(|e| e.content_key.as_bytes().to_vec())).collect();
            if lasts.len() == parsed.ckey_pages.len() {
                for b in boundary_positions(&ksp, &lasts, &firsts, s) {
                    agg.bump(&format!("enc_ckey_boundary_{}", BPOS[b]), 1);
                }
            }
            if parsed.ekey_pages.len() > 1 {
                agg.bump("enc_ekey_multi_page_cases", 1);
            }
            if parsed.ckey_pages.len() > 1 {
                agg.bump("enc_ckey_multi_page_cases", 1);
            }
        }

        // ---- layer 4: lookup flavours
        let probes = ksp.probes(fc.max(fe), ccap);
        let mut cprobes: Vec<(String, [u8; 16])> = probes.iter().map(|(n, k)| (n.clone(), ck(&ksp, *k))).collect();
        cprobes.sort_by(|a, b| a.1.cmp(&b.1));
        let mut eprobes: Vec<(String, [u8; 16])> = Vec::new();
        for (n, k) in &probes {
            eprobes.push((format!("{n}.e0"), ek(*k, 0)));
            eprobes.push((format!("{n}.e1"), ek(*k, 1)));
        }
        // EKey-table boundaries are at other filler positions than the CKey ones
        for (n, k) in ksp.probes(fe, EKEY_CAP) {
            let b = ek(k, 0);
            if !eprobes.iter().any(|(_, x)| *x == b) {
                eprobes.push((format!("{n}.e0"), b));
            }
        }
        eprobes.sort_by(|a, b| a.1.cmp(&b.1));

        let (mut pos, mut neg) = (0u32, 0u32);
        // reference for the flavours: the model when the scan equals it, else the scan
        let cref = |k: &[u8; 16]| -> Option<(u64, Vec<[u8; 16]>)> {
            if c_ok { cmodel.get(k).cloned() } else { cscan.get(k).and_then(|l| l.first().cloned()) }
        };
        let eref = |k: &[u8; 16]| -> Option<Option<String>> {
            if e_ok { emodel.get(k).map(|v| Some(v.0.clone())) } else { escan.get(k).and_then(|l| l.first().map(|x| x.0.clone())) }
        };
        let cls = |ok: bool, exp_some: bool, got_some: bool| -> &'static str {
            if !ok {
                "scan-disagrees"
            } else if exp_some && !got_some {
                "false-negative"
            } else if !exp_some && got_some {
                "false-positive"
            } else {
                "wrong-value"
            }
        };

        let r = catch(|| {
            let mut singles1: Vec<Option<[u8; 16]>> = Vec::new();
            let mut singles_all: Vec<Vec<[u8; 16]>> = Vec::new();
            for (name, k) in &cprobes {
                let key = ContentKey::from_bytes(*k);
                let exp = cref(k);
                if exp.is_some() { pos += 1 } else { neg += 1 }
                let got1 = parsed.find_encoding(&key).map(|e| *e.as_bytes());
                let exp1 = exp.as_ref().and_then(|v| v.1.first().copied());
                agg.evals += 1;
                if got1 != exp1 {
                    cx.report_as(agg, "encoding-ckey", "find_encoding", cls(c_ok, exp1.is_some(), got1.is_some()), name, || {
                        format!("find_encoding({}) = {:?}, expected {:?} ({} ckey pages)", hx(k), got1.map(|g| hx(&g)), exp1.map(|g| hx(&g)), parsed.ckey_pages.len())
                    });
                }
                let gota: Vec<[u8; 16]> = parsed.find_all_encodings(&key).iter().map(|e| *e.as_bytes()).collect();
                let expa: Vec<[u8; 16]> = exp.as_ref().map(|v| v.1.clone()).unwrap_or_default();
                agg.evals += 1;
                if gota != expa {
                    cx.report_as(agg, "encoding-ckey", "find_all_encodings", cls(c_ok, !expa.is_empty(), !gota.is_empty()), name, || {
                        format!("find_all_encodings({}) returned {} keys, expected {}", hx(k), gota.len(), expa.len())
                    });
                }
                singles1.push(got1);
                singles_all.push(gota);
            }
            // batches: sorted, reversed, duplicated
            for (oname, idxs) in batch_orders(cprobes.len()) {
                let keys: Vec<ContentKey> = idxs.iter().map(|i| ContentKey::from_bytes(cprobes[*i].1)).collect();
                let b1 = parsed.batch_find_encodings(&keys);
                let ba = parsed.batch_find_all_encodings(&keys);
                agg.evals += 2 * keys.len() as u64;
                if b1.len() != keys.len() || ba.len() != keys.len() {
                    cx.report_as(agg, "encoding-ckey", "batch_find_encodings", "batch-disagrees", oname, || format!("batch of {} keys returned {} / {} results", keys.len(), b1.len(), ba.len()));
                    continue;
                }
                for (p, i) in idxs.iter().enumerate() {
                    let g1 = b1[p].map(|e| *e.as_bytes());
                    if g1 != singles1[*i] {
                        cx.report_as(agg, "encoding-ckey", "batch_find_encodings", "batch-disagrees", &format!("{}/{}", cprobes[*i].0, oname), || {
                            format!("batch_find_encodings[{p}] for {} = {:?}, find_encoding = {:?}", hx(&cprobes[*i].1), g1.map(|g| hx(&g)), singles1[*i].map(|g| hx(&g)))
                        });
                    }
                    let ga: Vec<[u8; 16]> = ba[p].iter().map(|e| *e.as_bytes()).collect();
                    if ga != singles_all[*i] {
                        cx.report_as(agg, "encoding-ckey", "batch_find_all_encodings", "batch-disagrees", &format!("{}/{}", cprobes[*i].0, oname), || {
                            format!("batch_find_all_encodings[{p}] for {} has {} keys, find_all_encodings {}", hx(&cprobes[*i].1), ga.len(), singles_all[*i].len())
                        });
                    }
                }
            }
            if !parsed.batch_find_encodings(&[]).is_empty() || !parsed.batch_find_all_encodings(&[]).is_empty() {
                cx.report_as(agg, "encoding-ckey", "batch_find_encodings", "batch-disagrees", "empty-batch", || "empty batch returned results".into());
            }
        });
        if let Err(p) = r {
            cx.report_as(agg, "encoding-ckey", "lookup", "panic", "", || format!("CKey lookup panicked at {}: {p}", panic_site()));
        }

        let r = catch(|| {
            let mut singles: Vec<Option<String>> = Vec::new();
            for (name, k) in &eprobes {
                let key = EncodingKey::from_bytes(*k);
                let exp = eref(k);
                if exp.is_some() { pos += 1 } else { neg += 1 }
                let got = parsed.find_espec(&key).map(str::to_string);
                agg.evals += 1;
                // exp: None = key absent; Some(None) = present but espec index dangling (scan mode only)
                let expv: Option<String> = exp.clone().flatten();
                if got != expv {
                    cx.report_as(agg, "encoding-ekey", "find_espec", cls(e_ok, expv.is_some(), got.is_some()), name, || {
                        format!("find_espec({}) = {:?}, expected {:?} ({} ekey pages)", hx(k), got, expv, parsed.ekey_pages.len())
                    });
                }
                singles.push(got);
            }
            for (oname, idxs) in batch_orders(eprobes.len()) {
                let keys: Vec<EncodingKey> = idxs.iter().map(|i| EncodingKey::from_bytes(eprobes[*i].1)).collect();
                let b = parsed.batch_find_especs(&keys);
                agg.evals += keys.len() as u64;
                if b.len() != keys.len() {
                    cx.report_as(agg, "encoding-ekey", "batch_find_especs", "batch-disagrees", oname, || format!("batch of {} keys returned {} results", keys.len(), b.len()));
                    continue;
                }
                for (p, i) in idxs.iter().enumerate() {
                    if b[p].map(str::to_string) != singles[*i] {
                        cx.report_as(agg, "encoding-ekey", "batch_find_especs", "batch-disagrees", &format!("{}/{}", eprobes[*i].0, oname), || {
                            format!("batch_find_especs[{p}] for {} = {:?}, find_espec = {:?}", hx(&eprobes[*i].1), b[p], singles[*i])
                        });
                    }
                }
            }
        });
        if let Err(p) = r {
            cx.report_as(agg, "encoding-ekey", "lookup", "panic", "", || format!("EKey lookup panicked at {}: {p}", panic_site()));
        }

        if pos > 0 && neg > 0 {
            agg.nontrivial += 1;
        }
        agg.outcomes.insert(fnv64(format!("enc|{}|{}|{}|{}", parsed.ckey_pages.len(), parsed.ekey_pages.len(), pos, neg).as_bytes()));
        if agg.samples.is_empty() && s == 0xFF && sh.fill.pages == 1 {
            agg.samples.push(json!({"structure": "encoding", "case": cx.wit, "ckeys": cmodel.len(), "ekeys": emodel.len(),
                "ckey_pages": parsed.ckey_pages.len(), "ekey_pages": parsed.ekey_pages.len(), "positive_probes": pos, "negative_probes": neg}));
        }
    }

    fn label_of(present: &[Kid], ksp: &KeySpace, k: &[u8; 16]) -> String {
        present.iter().find(|kid| ck(ksp, **kid) == *k).map(|kid| ksp.label(*kid)).unwrap_or_default()
    }
    fn elabel_of(present: &[Kid], ksp: &KeySpace, k: &[u8; 16]) -> String {
        present.iter().find(|kid| ek(**kid, 0) == *k).map(|kid| ksp.label(*kid)).unwrap_or_default()
    }
}

// ---------------------------------------------------------------------------------------
// section ARCH — CDN archive index (in-memory and chunked), all key sizes × offset widths
// ---------------------------------------------------------------------------------------

mod arch {
    use super::*;
    use cascette_formats::archive::{ArchiveIndex, ArchiveIndexBuilder, ChunkedArchiveIndex};

    #[derive(Clone, Debug, Serialize, Deserialize)]
    pub struct Shard {
        pub ks: u8,
        pub ow: u8,
        pub fill: Fill,
        pub head: Head,
        pub tail: Tail,
        pub order: Order,
        /// also probe ChunkedArchiveIndex (needs a file on tmpfs)
        pub chunked: bool,
    }

    pub fn cap(ks: u8, ow: u8) -> usize {
        4096 / (ks as usize + 4 + ow as usize)
    }

    pub fn shards(tier: Tier) -> Vec<Shard> {
        let hts: Vec<(Head, Tail)> = match tier {
            Tier::Quick => vec![(Head::None, Tail::Ff), (Head::ZeroNz, Tail::None), (Head::ZeroZv, Tail::None)],
            Tier::Thorough => {
                let mut x = Vec::new();
                for h in [Head::None, Head::ZeroNz, Head::ZeroZv] {
                    for t in [Tail::None, Tail::Ff, Tail::Up3] {
                        x.push((h, t));
                    }
                }
                x
            }
        };
        // one non-sorted insertion order (the builder sorts); Asc/Desc/Inter are all enumerated in ENC
        let orders: Vec<Order> = vec![Order::Inter];
        let mut v = Vec::new();
        for ks in 1..=16u8 {
            for ow in [4u8, 5, 6] {
                let ksp = KeySpace::new(ks as usize);
                for &order in &orders {
                    for &(head, tail) in &hts {
                        for fill in fills(tier) {
                            if fill.count(cap(ks, ow)) > ksp.max_fill() {
                                continue; // 1-byte keys: 256 keys cannot fill a block of 455 records
                            }
                            // quick tier: the all-zero *record* (key, size and offset zero) only with
                            // fillers 0, R and 2R (it is always the first record of the first block)
                            if tier == Tier::Quick && head == Head::ZeroZv && fill.j != 0 {
                                continue;
                            }
                            // chunked lookups go through the file system: the quick tier restricts them
                            // to one head/tail combination per (ks, ow, fill)
                            let chunked = tier == Tier::Thorough || (head == Head::None);
                            v.push(Shard { ks, ow, fill, head, tail, order, chunked });
                        }
                    }
                }
            }
        }
        v
    }

    pub fn max_off(ow: u8) -> u64 {
        match ow {
            4 => 0xFFFF_FFFF,
            5 => 0xFF_FFFF_FFFF,
            _ => 0xFFFF_FFFF_FFFF,
        }
    }

    /// (size, offset) inserted for a key
    pub fn val(ksp: &KeySpace, kid: Kid, ow: u8, head: Head) -> (u32, u64) {
        match kid {
            Kid::Zero => {
                if head == Head::ZeroZv { (0, 0) } else { (7, 0) }
            }
            Kid::Ff => (0xFFFF_FFFF, max_off(ow)),
            Kid::Idx(i) if i == ksp.win(0) => (i * 7 + 1, 0),
            Kid::Idx(i) if i == ksp.win(1) => (0, u64::from(i) * 0x1000 + 0x10),
            Kid::Idx(i) if i == ksp.win(5) && ow >= 5 => (i * 7 + 1, 0x1_0000_0000),
            Kid::Idx(i) if i == ksp.win(6) => (0xFFFF_FFFF, u64::from(i) * 0x1000 + 0x10),
            Kid::Idx(i) if i == ksp.win(7) => (i * 7 + 1, max_off(ow)),
            Kid::Idx(i) => (i * 7 + 1, u64::from(i) * 0x1000 + 0x10),
            _ => (1, 1),
        }
    }

    pub fn eval_shard(sh: &Shard) -> Agg {
        let mut agg = Agg::default();
        let scratch = if sh.chunked { Some(Scratch::new("c03")) } else { None };
        for s in subsets() {
            eval_case(sh, s, &mut agg, scratch.as_ref());
            if s == 0 || s == 0xFF || s == 0x5A {
                super::enc::ADD_REMOVE.with(|c| c.set(true));
                eval_case(sh, s, &mut agg, scratch.as_ref());
                super::enc::ADD_REMOVE.with(|c| c.set(false));
            }
        }
        agg
    }

    /// parsed offset as one number (offset width 6 is split into archive index + offset)
    fn full_off(e: &cascette_formats::archive::IndexEntry) -> u64 {
        (u64::from(e.archive_index.unwrap_or(0)) << 32) | e.offset
    }

    pub fn eval_case(sh: &Shard, s: u8, agg: &mut Agg, scratch: Option<&Scratch>) {
        let add_remove = super::enc::ADD_REMOVE.with(std::cell::Cell::get);
        let ksp = KeySpace::new(sh.ks as usize);
        let r = cap(sh.ks, sh.ow);
        let f = sh.fill.count(r);
        let cx = Cx {
            structure: "archive-index",
            group: if sh.ks == 16 { "ks=16".to_string() } else { "ks<16".to_string() },
            group_of: Vec::new(),
            params: format!("ks={},ow={},fill={},head={:?},tail={:?},order={:?},S={:02x}{}", sh.ks, sh.ow, sh.fill.name(), sh.head, sh.tail, sh.order, s, if add_remove { ",then-add-and-remove-one-more" } else { "" }),
            wit: json!({"section": "arch", "shard": sh, "s": s, "add_remove": add_remove}),
        };
        agg.cases += 1;
        let present = ksp.present(f, sh.head, sh.tail, s);
        // the model is a sorted association list (present() is ascending): BTreeMap semantics by binary search
        let model: Vec<(Vec<u8>, (u32, u64))> = present.iter().map(|kid| (ksp.bytes(*kid), val(&ksp, *kid, sh.ow, sh.head))).collect();
        debug_assert!(model.windows(2).all(|w| w[0].0 < w[1].0));
        let mget = |k: &[u8]| -> Option<(u32, u64)> { model.binary_search_by(|e| e.0.as_slice().cmp(k)).ok().map(|i| model[i].1) };
        let label = |k: &[u8]| -> String { present.iter().find(|kid| ksp.bytes(**kid) == k).map(|kid| ksp.label(*kid)).unwrap_or_default() };

        let built = catch(|| {
            let mut b = ArchiveIndexBuilder::with_config(sh.ks, sh.ow, 4);
            let idxs: Vec<usize> = apply_order((0..model.len()).collect(), sh.order);
            for i in idxs {
                let (k, (sz, off)) = model[i].clone();
                b.add_entry(k, sz, off);
            }
            if add_remove {
                // one more key that no present key equals or is a prefix of, added and removed again
                let x = vec![0x77u8; sh.ks as usize];
                if model.iter().all(|e| e.0 != x) {
                    b.add_entry(x.clone(), 9, 0x100);
                    b.remove_entry(&x);
                }
            }
            let mut out = Cursor::new(Vec::new());
            b.build(&mut out).map(|_| out.into_inner())
        });
        let bytes = match built {
            Err(p) => {
                cx.report(agg, "build", "panic", "", || format!("ArchiveIndexBuilder::build panicked at {}: {p}", panic_site()));
                return;
            }
            Ok(Err(e)) => {
                if model.is_empty() {
                    agg.outcomes.insert(fnv64_str("arch-empty-build-rejected"));
                } else {
                    cx.report(agg, "build", "error", "", || format!("ArchiveIndexBuilder::build failed on {} entries: {e}", model.len()));
                }
                return;
            }
            Ok(Ok(b)) => b,
        };
        let parsed = match catch(|| ArchiveIndex::parse(Cursor::new(&bytes))) {
            Err(p) => {
                cx.report(agg, "parse", "panic", "", || format!("ArchiveIndex::parse panicked at {}: {p}", panic_site()));
                None
            }
            Ok(Err(e)) => {
                if model.is_empty() {
                    agg.outcomes.insert(fnv64_str("arch-empty-parse-rejected"));
                    agg.bump("arch_empty_rejected", 1);
                } else {
                    let (fl, lbl) = if sh.head == Head::ZeroZv { ("parse/all-zero-record", "zero") } else { ("parse", "") };
                    cx.report(agg, fl, "unparseable", lbl, || format!("the builder's own output ({} entries, {} bytes) is rejected by ArchiveIndex::parse: {e}", model.len(), bytes.len()));
                }
                None
            }
            Ok(Ok(p)) => Some(p),
        };

        let probes: Vec<(String, Vec<u8>)> = {
            let mut v: Vec<(String, Vec<u8>)> = ksp.probes(f, r).into_iter().map(|(n, k)| (n, ksp.bytes(k))).collect();
            v.sort_by(|a, b| a.1.cmp(&b.1));
            v.dedup_by(|a, b| a.1 == b.1);
            v
        };
        let (mut pos, mut neg) = (0u32, 0u32);

        if let Some(parsed) = &parsed {
            // layer 3
            let mut scan: BTreeMap<Vec<u8>, Vec<(u32, u64)>> = BTreeMap::new();
            // fast path: the parsed entry list is literally the model
            let identical = parsed.entries.len() == model.len()
                && parsed.entries.iter().zip(model.iter()).all(|(e, m)| e.encoding_key == m.0 && (e.size, full_off(e)) == m.1);
            if !identical {
                for e in &parsed.entries {
                    scan.entry(e.encoding_key.clone()).or_default().push((e.size, full_off(e)));
                }
            }
            let mut ok = true;
            for (k, v) in model.iter().filter(|_| !identical) {
                match scan.get(k) {
                    None => {
                        ok = false;
                        cx.report(agg, "parse", "lost-entries", &label(k), || format!("inserted key {} is absent from the parsed entries ({} of {} survive)", hx(k), parsed.entries.len(), model.len()));
                    }
                    Some(l) if l.len() != 1 || l[0] != *v => {
                        ok = false;
                        cx.report(agg, "parse", "wrong-value", &label(k), || format!("key {}: parsed (size, offset) {:x?}, inserted {:x?}", hx(k), l, v));
                    }
                    _ => {}
                }
            }
            for k in scan.keys() {
                if mget(k).is_none() {
                    ok = false;
                    cx.report(agg, "parse", "phantom-entries", "", || format!("parsed key {} was never inserted", hx(k)));
                }
            }
            agg.evals += model.len() as u64;
            // boundary evidence
            {
                let lasts: Vec<Vec<u8>> = parsed.entries.chunks(r).map(|c| c.last().map(|e| e.encoding_key.clone()).unwrap_or_default()).collect();
                let firsts: Vec<Vec<u8>> = parsed.entries.chunks(r).map(|c| c.first().map(|e| e.encoding_key.clone()).unwrap_or_default()).collect();
                for b in boundary_positions(&ksp, &lasts, &firsts, s) {
                    agg.bump(&format!("arch_boundary_{}", BPOS[b]), 1);
                }
                if lasts.len() > 1 {
                    agg.bump("arch_multi_block_cases", 1);
                }
            }
            let cls = |exp_some: bool, got_some: bool| -> &'static str {
                if !ok {
                    "scan-disagrees"
                } else if exp_some && !got_some {
                    "false-negative"
                } else if !exp_some && got_some {
                    "false-positive"
                } else {
                    "wrong-value"
                }
            };
            let reference = |k: &Vec<u8>| -> Option<(u32, u64)> { if ok { mget(k) } else { scan.get(k).and_then(|l| l.first().copied()) } };
            let res = catch(|| {
                for (name, k) in &probes {
                    let exp = reference(k);
                    if exp.is_some() { pos += 1 } else { neg += 1 }
                    let g1 = parsed.find_entry(k).map(|e| (e.size, full_off(e)));
                    let g2 = parsed.binary_search_key(k).map(|e| (e.size, full_off(e)));
                    let g3: Vec<(u32, u64)> = parsed.find_all_key_matches(k).iter().map(|e| (e.size, full_off(e))).collect();
                    let g4: Vec<(u32, u64)> = parsed.find_all_entries(k).iter().map(|e| (e.size, full_off(e))).collect();
                    agg.evals += 4;
                    if g1 != exp {
                        cx.report(agg, "find_entry", cls(exp.is_some(), g1.is_some()), name, || format!("find_entry({}) = {:x?}, expected {:x?} ({} blocks of {} records)", hx(k), g1, exp, parsed.toc.len(), r));
                    }
                    if g2 != exp {
                        cx.report(agg, "binary_search_key", cls(exp.is_some(), g2.is_some()), name, || format!("binary_search_key({}) = {:x?}, expected {:x?}", hx(k), g2, exp));
                    }
                    let expv: Vec<(u32, u64)> = exp.into_iter().collect();
                    if g3 != expv {
                        cx.report(agg, "find_all_key_matches", cls(!expv.is_empty(), !g3.is_empty()), name, || format!("find_all_key_matches({}) = {:x?}, expected {:x?}", hx(k), g3, expv));
                    }
                    if g4 != expv {
                        cx.report(agg, "find_all_entries", cls(!expv.is_empty(), !g4.is_empty()), name, || format!("find_all_entries({}) = {:x?}, expected {:x?}", hx(k), g4, expv));
                    }
                }
                // probes whose length differs from the key size: no panic; a returned entry must
                // share the common-length prefix with the probe (nothing more is required)
                let mut odd: Vec<(String, Vec<u8>)> = vec![("len0".into(), Vec::new())];
                for (name, k) in probes.iter().filter(|(n, _)| n.starts_with('w') || n.starts_with('g') || n == "zero" || n == "ff") {
                    if k.len() > 1 {
                        odd.push((format!("{name}.trunc1"), k[..k.len() - 1].to_vec()));
                        odd.push((format!("{name}.first1"), k[..1].to_vec()));
                    }
                    let mut l = k.clone();
                    l.push(0);
                    odd.push((format!("{name}.ext0"), l));
                }
                for (name, k) in &odd {
                    agg.evals += 2;
                    let mut got: Vec<Vec<u8>> = parsed.find_entry(k).into_iter().map(|e| e.encoding_key.clone()).collect();
                    got.extend(parsed.find_all_key_matches(k).into_iter().map(|e| e.encoding_key.clone()));
                    for g in got {
                        let n = g.len().min(k.len());
                        if g[..n] != k[..n] {
                            cx.report(agg, "find_entry/odd-length", "false-positive", name, || format!("probe {} (length {} ≠ key size {}) returned the entry {}", hx(k), k.len(), sh.ks, hx(&g)));
                        }
                    }
                }
            });
            if let Err(p) = res {
                cx.report(agg, "lookup", "panic", "", || format!("ArchiveIndex lookup panicked at {}: {p}", panic_site()));
            }
            agg.outcomes.insert(fnv64(format!("arch|{}|{}|{}|{}", sh.ks, parsed.toc.len(), pos, neg).as_bytes()));
            if agg.samples.is_empty() && s == 0xFF && sh.fill.pages == 1 && sh.ks == 9 {
                agg.samples.push(json!({"structure": "archive-index", "case": cx.wit, "entries": model.len(), "blocks": parsed.toc.len(), "records_per_block": r,
                    "positive_probes": pos, "negative_probes": neg}));
            }
        }

        // ---- chunked index on the same bytes (independent parser: probed even if the other failed)
        if let Some(sc) = scratch {
            let path = sc.path().join("a.index");
            if std::fs::write(&path, &bytes).is_err() {
                agg.bump("arch_chunked_scratch_write_failed", 1);
                return;
            }
            let res = catch(|| {
                let mut ch = match ChunkedArchiveIndex::open(&path) {
                    Ok(c) => c,
                    Err(e) => {
                        if !model.is_empty() {
                            cx.report_as(agg, "archive-chunked", "open", "unparseable", "", || format!("ChunkedArchiveIndex::open rejects the builder's output ({} entries): {e}", model.len()));
                        }
                        return;
                    }
                };
                for (name, k) in &probes {
                    let exp = mget(k);
                    agg.evals += 1;
                    match ch.find_entry(k) {
                        Err(e) => {
                            cx.report_as(agg, "archive-chunked", "find_entry", "error", name, || format!("ChunkedArchiveIndex::find_entry({}) failed: {e} (expected {:x?})", hx(k), exp));
                        }
                        Ok(g) => {
                            let g = g.map(|e| (e.size, full_off(e)));
                            if g != exp {
                                let c = if exp.is_some() && g.is_none() {
                                    "false-negative"
                                } else if exp.is_none() && g.is_some() {
                                    "false-positive"
                                } else {
                                    "wrong-value"
                                };
                                let lbl = if sh.head == Head::ZeroZv && c == "false-negative" { "zero-zv-block".to_string() } else { name.clone() };
                                cx.report_as(agg, "archive-chunked", "find_entry", c, &lbl, || {
                                    format!("ChunkedArchiveIndex::find_entry({}) = {:x?}, inserted {:x?} (key size {}, offset width {})", hx(k), g, exp, sh.ks, sh.ow)
                                });
                            }
                        }
                    }
                }
            });
            if let Err(p) = res {
                cx.report_as(agg, "archive-chunked", "find_entry", "panic", "", || format!("ChunkedArchiveIndex panicked at {}: {p}", panic_site()));
            }
        }
        if pos > 0 && neg > 0 {
            agg.nontrivial += 1;
        }
    }
}

// ---------------------------------------------------------------------------------------
// section GROUP — archive group (16-byte keys, 6-byte composite offsets, 157 records/block)
// ---------------------------------------------------------------------------------------

mod group {
    use super::*;
    use cascette_formats::archive::{ArchiveGroup, ArchiveGroupBuilder, ArchiveGroupEntry, ArchiveIndex, ArchiveIndexBuilder, build_merged};

    #[derive(Clone, Copy, Debug, PartialEq, Eq, Serialize, Deserialize)]
    pub enum Mode {
        /// ArchiveGroupBuilder::add_entry / add_entry_with_hash_assignment
        Direct,
        /// two parsed ArchiveIndex → ArchiveGroupBuilder::add_archive
        AddArchive,
        /// two parsed ArchiveIndex → build_merged
        Merged,
    }

    #[derive(Clone, Debug, Serialize, Deserialize)]
    pub struct Shard {
        pub mode: Mode,
        pub fill: Fill,
        pub head: Head,
        pub tail: Tail,
    }

    const R: usize = 4096 / 26;

    pub fn shards(tier: Tier) -> Vec<Shard> {
        let mut v = Vec::new();
        let hts: Vec<(Head, Tail)> = match tier {
            Tier::Quick => vec![(Head::None, Tail::Ff), (Head::ZeroNz, Tail::None), (Head::ZeroZv, Tail::None)],
            Tier::Thorough => {
                let mut x = Vec::new();
                for h in [Head::None, Head::ZeroNz, Head::ZeroZv] {
                    for t in [Tail::None, Tail::Ff, Tail::Up3] {
                        x.push((h, t));
                    }
                }
                x
            }
        };
        for mode in [Mode::Direct, Mode::AddArchive, Mode::Merged] {
            for &(head, tail) in &hts {
                for fill in fills(Tier::Thorough) {
                    v.push(Shard { mode, fill, head, tail });
                }
            }
        }
        v
    }

    /// (archive_index, offset, size) inserted for a key. In the merge modes the archive index
    /// is the source archive (position parity); keys at every 4th position are in both
    /// sources with different values and the first source must win.
    fn val(ksp: &KeySpace, kid: Kid, head: Head) -> (u16, u32, u32) {
        match kid {
            Kid::Zero => {
                if head == Head::ZeroZv { (0, 0, 0) } else { (0, 0, 7) }
            }
            Kid::Ff => (0xFFFF, 0xFFFF_FFFF, 0xFFFF_FFFF),
            Kid::Idx(i) if i == ksp.win(0) => (3, 0, i * 7 + 1),
            Kid::Idx(i) if i == ksp.win(1) => (0, i * 16, 0),
            Kid::Idx(i) if i == ksp.win(6) => (0xFFFF, i * 16, 0xFFFF_FFFF),
            Kid::Idx(i) if i == ksp.win(7) => (1, 0xFFFF_FFFF, i * 7 + 1),
            Kid::Idx(i) => ((i % 5) as u16, i * 16 + 1, i * 7 + 1),
            _ => (1, 1, 1),
        }
    }

    pub fn eval_shard(sh: &Shard) -> Agg {
        let mut agg = Agg::default();
        for s in subsets() {
            eval_case(sh, s, &mut agg);
        }
        agg
    }

    fn build_index(entries: &[(Vec<u8>, u32, u64)]) -> Result<ArchiveIndex, String> {
        let mut b = ArchiveIndexBuilder::with_config(16, 4, 4);
        for (k, sz, off) in entries.iter().rev() {
            b.add_entry(k.clone(), *sz, *off);
        }
        let mut out = Cursor::new(Vec::new());
        b.build(&mut out).map_err(|e| e.to_string())?;
        ArchiveIndex::parse(Cursor::new(out.into_inner())).map_err(|e| e.to_string())
    }

    pub fn eval_case(sh: &Shard, s: u8, agg: &mut Agg) {
        let ksp = KeySpace::new(16);
        let f = sh.fill.count(R);
        let cx = Cx {
            structure: "archive-group",
            group: format!("{:?}", sh.mode),
            group_of: Vec::new(),
            params: format!("fill={},head={:?},tail={:?},S={:02x}", sh.fill.name(), sh.head, sh.tail, s),
            wit: json!({"section": "group", "shard": sh, "s": s}),
        };
        agg.cases += 1;
        let present = ksp.present(f, sh.head, sh.tail, s);
        // model: key → (archive_index, offset, size)
        let mut model: Vec<(Vec<u8>, (u16, u32, u32))> = Vec::with_capacity(present.len());
        let built = catch(|| -> Result<Vec<u8>, String> {
            match sh.mode {
                Mode::Direct => {
                    let mut b = ArchiveGroupBuilder::new();
                    for (p, kid) in present.iter().enumerate() {
                        let k = ksp.bytes(*kid);
                        let (ai, off, sz) = val(&ksp, *kid, sh.head);
                        if p % 3 == 2 && *kid != Kid::Zero {
                            // hash-assigned archive index: first two bytes of MD5(key), big endian
                            let h = ContentKey::from_data(&k);
                            let ai = u16::from_be_bytes([h.as_bytes()[0], h.as_bytes()[1]]);
                            b.add_entry_with_hash_assignment(k.clone(), off, sz);
                            model.push((k, (ai, off, sz)));
                        } else {
                            b.add_entry(ArchiveGroupEntry::new(k.clone(), ai, off, sz));
                            model.push((k, (ai, off, sz)));
                        }
                    }
                    let mut out = Cursor::new(Vec::new());
                    b.build(&mut out).map_err(|e| format!("ArchiveGroupBuilder::build: {e}"))?;
                    Ok(out.into_inner())
                }
                Mode::AddArchive | Mode::Merged => {
                    let mut src: [Vec<(Vec<u8>, u32, u64)>; 2] = [Vec::new(), Vec::new()];
                    for (p, kid) in present.iter().enumerate() {
                        let k = ksp.bytes(*kid);
                        let (_, off, sz) = val(&ksp, *kid, sh.head);
                        let a = p % 2;
                        if p % 4 == 0 {
                            // present in both sources; source 0 (archive 10) must win
                            src[0].push((k.clone(), sz, u64::from(off)));
                            src[1].push((k.clone(), sz ^ 1, u64::from(off ^ 1)));
                            model.push((k, (10, off, sz)));
                        } else {
                            src[a].push((k.clone(), sz, u64::from(off)));
                            model.push((k, (10 + a as u16, off, sz)));
                        }
                    }
                    let a0 = build_index(&src[0]).map_err(|e| format!("source index 0: {e}"))?;
                    let a1 = build_index(&src[1]).map_err(|e| format!("source index 1: {e}"))?;
                    let mut out = Cursor::new(Vec::new());
                    if sh.mode == Mode::AddArchive {
                        let mut b = ArchiveGroupBuilder::new();
                        b.add_archive(10, &a0);
                        b.add_archive(11, &a1);
                        b.build(&mut out).map_err(|e| format!("ArchiveGroupBuilder::build: {e}"))?;
                    } else {
                        build_merged(&[(10, &a0), (11, &a1)], &mut out).map_err(|e| format!("build_merged: {e}"))?;
                    }
                    Ok(out.into_inner())
                }
            }
        });
        let mget = |k: &[u8]| -> Option<(u16, u32, u32)> { model.binary_search_by(|e| e.0.as_slice().cmp(k)).ok().map(|i| model[i].1) };
        let bytes = match built {
            Err(p) => {
                cx.report(agg, "build", "panic", "", || format!("archive-group build panicked at {}: {p}", panic_site()));
                return;
            }
            Ok(Err(e)) => {
                if sh.head == Head::ZeroZv && e.starts_with("source index") {
                    // the source archive index with an all-zero record does not parse: ARCH's finding, not this section's
                    agg.bump("group_source_index_unparseable_zero_record", 1);
                } else if !model.is_empty() {
                    cx.report(agg, "build", "error", "", || format!("build failed on {} entries: {e}", model.len()));
                }
                return;
            }
            Ok(Ok(b)) => b,
        };
        let parsed = match catch(|| ArchiveGroup::parse(&mut Cursor::new(&bytes))) {
            Err(p) => {
                cx.report(agg, "parse", "panic", "", || format!("ArchiveGroup::parse panicked at {}: {p}", panic_site()));
                return;
            }
            Ok(Err(e)) => {
                if model.is_empty() {
                    agg.bump("group_empty_rejected", 1);
                } else {
                    let (fl, lbl) = if sh.head == Head::ZeroZv { ("parse/all-zero-record", "zero".to_string()) } else { ("parse", format!("n={}", model.len())) };
                    cx.report(agg, fl, "unparseable", &lbl, || format!("the builder's own output ({} entries, {} bytes) is rejected by ArchiveGroup::parse: {e}", model.len(), bytes.len()));
                }
                return;
            }
            Ok(Ok(p)) => p,
        };
        let identical = parsed.entries.len() == model.len()
            && parsed.entries.iter().zip(model.iter()).all(|(e, m)| e.encoding_key == m.0 && (e.archive_index, e.offset, e.size) == m.1);
        let mut scan: BTreeMap<Vec<u8>, Vec<(u16, u32, u32)>> = BTreeMap::new();
        let mut ok = true;
        if !identical {
            for e in &parsed.entries {
                scan.entry(e.encoding_key.clone()).or_default().push((e.archive_index, e.offset, e.size));
            }
            for (k, v) in &model {
                let lbl = || present.iter().find(|kid| ksp.bytes(**kid) == *k).map(|kid| ksp.label(*kid)).unwrap_or_default();
                match scan.get(k) {
                    None => {
                        ok = false;
                        cx.report(agg, "parse", "lost-entries", &lbl(), || format!("inserted key {} is absent from the parsed group ({} of {} survive)", hx(k), parsed.entries.len(), model.len()));
                    }
                    Some(l) if l.len() != 1 || l[0] != *v => {
                        ok = false;
                        cx.report(agg, "parse", "wrong-value", &lbl(), || format!("key {}: parsed (archive, offset, size) {:x?}, inserted {:x?}", hx(k), l, v));
                    }
                    _ => {}
                }
            }
            for k in scan.keys() {
                if mget(k).is_none() {
                    ok = false;
                    cx.report(agg, "parse", "phantom-entries", "", || format!("parsed key {} was never inserted", hx(k)));
                }
            }
        }
        agg.evals += model.len() as u64;
        {
            let lasts: Vec<Vec<u8>> = parsed.entries.chunks(R).map(|c| c.last().map(|e| e.encoding_key.clone()).unwrap_or_default()).collect();
            let firsts: Vec<Vec<u8>> = parsed.entries.chunks(R).map(|c| c.first().map(|e| e.encoding_key.clone()).unwrap_or_default()).collect();
            for b in boundary_positions(&ksp, &lasts, &firsts, s) {
                agg.bump(&format!("group_boundary_{}", BPOS[b]), 1);
            }
        }
        let (mut pos, mut neg) = (0u32, 0u32);
        let res = catch(|| {
            for (kid_name, k) in ksp.probes(f, R).into_iter().map(|(n, k)| (n, ksp.bytes(k))) {
                let exp = if ok { mget(&k) } else { scan.get(&k).and_then(|l| l.first().copied()) };
                if exp.is_some() { pos += 1 } else { neg += 1 }
                let got = parsed.find_entry(&k).map(|e| (e.archive_index, e.offset, e.size));
                agg.evals += 1;
                if got != exp {
                    let c = if !ok {
                        "scan-disagrees"
                    } else if exp.is_some() && got.is_none() {
                        "false-negative"
                    } else if exp.is_none() && got.is_some() {
                        "false-positive"
                    } else {
                        "wrong-value"
                    };
                    cx.report(agg, "find_entry", c, &kid_name, || format!("ArchiveGroup::find_entry({}) = {:x?}, expected {:x?}", hx(&k), got, exp));
                }
            }
        });
        if let Err(p) = res {
            cx.report(agg, "find_entry", "panic", "", || format!("ArchiveGroup::find_entry panicked at {}: {p}", panic_site()));
        }
        if pos > 0 && neg > 0 {
            agg.nontrivial += 1;
        }
        agg.outcomes.insert(fnv64(format!("group|{:?}|{}|{}|{}", sh.mode, parsed.entries.len().div_ceil(R), pos, neg).as_bytes()));
        if agg.samples.is_empty() && s == 0xFF && sh.fill.pages == 2 && sh.fill.j == 0 {
            agg.samples.push(json!({"structure": "archive-group", "case": cx.wit, "entries": model.len(), "blocks": parsed.entries.len().div_ceil(R), "positive_probes": pos, "negative_probes": neg}));
        }
    }
}

// ---------------------------------------------------------------------------------------
// section ROOT — root manifest V1–V4 × file counts × named counts × locale groups × FDID layouts
// ---------------------------------------------------------------------------------------

mod root {
    use super::*;
    use cascette_crypto::md5::FileDataId;
    use cascette_formats::root::{ContentFlags, LocaleFlags, RootBuilder, RootFile, RootVersion, calculate_name_hash};

    #[derive(Clone, Debug, Serialize, Deserialize)]
    pub struct Shard {
        pub ver: u8,
        /// 1: every record in locale enUS; 2: records alternate enUS/deDE and share FileDataIDs pairwise
        pub groups: u8,
        /// 0 dense from 0 ascending, 1 dense from 1000 inserted descending, 2 sparse (gaps > 2^16,
        /// last = u32::MAX) ascending, 3 sparse inserted descending
        pub layout: u8,
        /// record counts nlo..=nhi
        pub nlo: u32,
        pub nhi: u32,
        /// every named count 0..=n (thorough) or {0..=11, n} (quick)
        pub all_named: bool,
        /// records without a path do *not* carry NO_NAME_HASH (the writer then stores a zero
        /// name hash for them; a manifest may consist of such records only)
        #[serde(default)]
        pub plain_unnamed: bool,
        /// the records inserted with a path carry NO_NAME_HASH (their block stores no hashes) and
        /// the records without a path do not (an ordinary block without a single named file): names
        /// are not lookup keys here, FileDataIDs are
        #[serde(default)]
        pub named_in_nohash_block: bool,
    }

    pub fn shards(tier: Tier) -> Vec<Shard> {
        let mut v = Vec::new();
        for ver in 1..=4u8 {
            for groups in 1..=2u8 {
                for layout in 0..4u8 {
                    // record counts 0..=130, split into ranges only to balance the worker threads
                    for (nlo, nhi) in [(0u32, 39u32), (40, 69), (70, 89), (90, 104), (105, 118), (119, 130)] {
                        v.push(Shard { ver, groups, layout, nlo, nhi, all_named: tier == Tier::Thorough, plain_unnamed: false, named_in_nohash_block: false });
                    }
                    // the same without NO_NAME_HASH on the unnamed records (quick: two FDID layouts)
                    if tier == Tier::Thorough || layout == 0 || layout == 3 {
                        for (nlo, nhi) in [(0u32, 69u32), (70, 104), (105, 130)] {
                            v.push(Shard { ver, groups, layout, nlo, nhi, all_named: tier == Tier::Thorough, plain_unnamed: true, named_in_nohash_block: false });
                        }
                        for (nlo, nhi) in [(0u32, 40u32), (41, 69)] {
                            v.push(Shard { ver, groups, layout, nlo, nhi, all_named: tier == Tier::Thorough, plain_unnamed: true, named_in_nohash_block: true });
                        }
                    }
                }
            }
        }
        v
    }

    pub fn version(v: u8) -> RootVersion {
        match v {
            1 => RootVersion::V1,
            2 => RootVersion::V2,
            3 => RootVersion::V3,
            _ => RootVersion::V4,
        }
    }

    #[derive(Clone, Debug)]
    struct Rec {
        fdid: u32,
        loc: u32,
        cf: u64,
        ckey: [u8; 16],
        path: Option<String>,
        hash: Option<u64>,
    }

    const LOCS: [u32; 2] = [LocaleFlags::ENUS, LocaleFlags::DEDE];

    fn fdid_of(layout: u8, m: u32, slots: u32) -> u32 {
        match layout {
            0 => m,
            1 => 1000 + m,
            _ => {
                if slots > 1 && m == slots - 1 { u32::MAX } else { 5 + m * 70_001 }
            }
        }
    }

    pub fn path_of(fdid: u32) -> String {
        format!("World/Maps/Az{fdid}/f_{fdid}.adt")
    }

    fn named_flags(ver: u8) -> u64 {
        if ver == 4 { ContentFlags::INSTALL | (1u64 << 33) } else { ContentFlags::INSTALL }
    }
    fn unnamed_flags(plain: bool) -> u64 {
        if plain { ContentFlags::INSTALL } else { ContentFlags::INSTALL | ContentFlags::NO_NAME_HASH }
    }

    fn records(sh: &Shard, n: u32, k: u32) -> Vec<Rec> {
        let g = u32::from(sh.groups);
        let slots = n.div_ceil(g);
        (0..n)
            .map(|i| {
                let fdid = fdid_of(sh.layout, i / g, slots);
                let named = i < k;
                let mut ckey = [0xA0u8 | sh.ver; 16];
                ckey[1] = (i % g) as u8;
                ckey[12..16].copy_from_slice(&i.to_be_bytes());
                if n >= 2 && i == 0 {
                    ckey = [0u8; 16];
                }
                if n >= 2 && i == 1 {
                    ckey = [0xFFu8; 16];
                }
                let path = named.then(|| path_of(fdid));
                if sh.named_in_nohash_block {
                    return Rec { fdid, loc: LOCS[(i % g) as usize], cf: unnamed_flags(!named), ckey, hash: None, path };
                }
                Rec {
                    fdid,
                    loc: LOCS[(i % g) as usize],
                    cf: if named { named_flags(sh.ver) } else { unnamed_flags(sh.plain_unnamed) },
                    ckey,
                    hash: path.as_deref().map(calculate_name_hash),
                    path,
                }
            })
            .collect()
    }

    pub fn eval_shard(sh: &Shard) -> Agg {
        let mut agg = Agg::default();
        for n in sh.nlo..=sh.nhi {
            let ks: Vec<u32> = if sh.all_named {
                (0..=n).collect()
            } else {
                let mut v: Vec<u32> = (0..=n.min(11)).collect();
                if n > 11 {
                    v.push(n);
                }
                v
            };
            for k in ks {
                eval_case(sh, n, k, &mut agg);
                // builder programs that take a mapping back: after all records are added, the
                // FileDataID of one record (first, middle, last) is removed again
                if n >= 2 && sh.layout != 1 && (n <= 4 || [17, 18, 100, 101, 130].contains(&n)) {
                    for r in [0, n / 2, n - 1] {
                        // edit kinds: 0 remove_file, 1 remove_file_from_block, 2 update_file,
                        // 3 rebuild through RootBuilder::from_root_file after the removal
                        for kind in 0..4u32 {
                            // (the rebuild constructor counts a stored zero hash as a name: the header's
                            // named count of those shards is C08's business, not a lookup)
                            if kind == 3 && sh.plain_unnamed {
                                continue;
                            }
                            eval_case_removing(sh, n, k, Some(r + 1000 * kind), &mut agg);
                        }
                    }
                }
            }
        }
        agg
    }

    pub fn eval_case(sh: &Shard, n: u32, k: u32, agg: &mut Agg) {
        eval_case_removing(sh, n, k, None, agg);
    }

    pub fn eval_case_removing(sh: &Shard, n: u32, k: u32, remove: Option<u32>, agg: &mut Agg) {
        let cx = Cx {
            structure: "root",
            group: format!("V{}", sh.ver),
            group_of: Vec::new(),
            params: format!(
                "files={n},named={k},locales={},layout={}{}{}",
                sh.groups,
                sh.layout,
                if sh.named_in_nohash_block { ",paths-only-in-NO_NAME_HASH-blocks" } else if sh.plain_unnamed { ",unnamed-without-NO_NAME_HASH" } else { "" },
                match remove {
                    None => String::new(),
                    Some(e) => {
                        let (kind, r) = (e / 1000, e % 1000);
                        let which = if r == 0 { "first" } else if r == n - 1 { "last" } else { "middle" };
                        match kind {
                            0 => format!(",then-remove_file(record {which})"),
                            1 => format!(",then-remove_file_from_block(record {which})"),
                            2 => format!(",then-update_file(record {which})"),
                            _ => format!(",then-remove_file(record {which})+from_root_file"),
                        }
                    }
                }
            ),
            wit: json!({"section": "root", "shard": sh, "n": n, "k": k, "remove": remove}),
        };
        agg.cases += 1;
        let all_recs = records(sh, n, k);
        let edit = remove.map(|e| (e / 1000, (e % 1000) as usize));
        let target = edit.map(|(_, r)| all_recs[r].clone());
        const NEW_CKEY: [u8; 16] = [0x5A; 16];
        let recs: Vec<Rec> = match (&edit, &target) {
            (Some((0 | 3, _)), Some(t)) => all_recs.iter().filter(|r| r.fdid != t.fdid).cloned().collect(),
            (Some((1, r)), _) => all_recs.iter().enumerate().filter(|(i, _)| i != r).map(|(_, x)| x.clone()).collect(),
            (Some((2, _)), Some(t)) => all_recs.iter().map(|r| if r.fdid == t.fdid { Rec { ckey: NEW_CKEY, ..r.clone() } } else { r.clone() }).collect(),
            _ => all_recs.clone(),
        };
        let removed_fdid: Option<u32> = None;
        let _ = removed_fdid;
        // what the header has to say about the manifest that is left
        let (n, k) = (recs.len() as u32, recs.iter().filter(|r| r.path.is_some()).count() as u32);
        // sanity of the alphabet: distinct (fdid, locale), distinct name hashes per fdid
        debug_assert!({
            let mut s = BTreeSet::new();
            recs.iter().all(|r| s.insert((r.fdid, r.loc)))
        });
        let insertion: Vec<usize> = if sh.layout == 1 || sh.layout == 3 { (0..all_recs.len()).rev().collect() } else { (0..all_recs.len()).collect() };
        let built = catch(|| {
            let mut b = RootBuilder::new(version(sh.ver));
            for i in &insertion {
                let r = &all_recs[*i];
                b.add_file(FileDataId::new(r.fdid), ContentKey::from_bytes(r.ckey), r.path.as_deref(), LocaleFlags::new(r.loc), ContentFlags::new(r.cf));
            }
            match (&edit, &target) {
                (Some((0 | 3, _)), Some(t)) => {
                    b.remove_file(FileDataId::new(t.fdid));
                }
                (Some((1, _)), Some(t)) => {
                    b.remove_file_from_block(FileDataId::new(t.fdid), LocaleFlags::new(t.loc), ContentFlags::new(t.cf));
                }
                (Some((2, _)), Some(t)) => {
                    b.update_file(FileDataId::new(t.fdid), ContentKey::from_bytes(NEW_CKEY));
                }
                _ => {}
            }
            if matches!(edit, Some((3, _))) && !recs.is_empty() {
                // through the "rebuild an existing manifest" constructor
                let first = b.build()?;
                // a first build that does not parse back is reported as for the plain removal
                return match RootFile::parse(&first) {
                    Ok(parsed) => RootBuilder::from_root_file(&parsed).build(),
                    Err(_) => Ok(first),
                };
            }
            b.build()
        });
        let bytes = match built {
            Err(p) => {
                cx.report(agg, "build", "panic", "", || format!("RootBuilder::build panicked at {}: {p}", panic_site()));
                return;
            }
            Ok(Err(e)) => {
                if n == 0 {
                    agg.bump("root_empty_build_rejected", 1);
                    agg.outcomes.insert(fnv64_str("root-empty-build-rejected"));
                } else {
                    cx.report(agg, "build", "error", "", || format!("RootBuilder::build failed on {n} records: {e}"));
                }
                return;
            }
            Ok(Ok(b)) => b,
        };
        // the header written by the builder must be read back as the same kind of header with
        // the same counts; everything after a misread header is a consequence and is not
        // reported separately
        if sh.ver >= 2 {
            use cascette_formats::root::RootHeader;
            let hdr = catch(|| {
                let mut c = Cursor::new(&bytes);
                let det = RootVersion::detect(&mut c).map_err(|e| e.to_string())?;
                if det == RootVersion::V1 {
                    return Err("detected as V1".to_string());
                }
                let h = RootHeader::read(&mut c, det).map_err(|e| e.to_string())?;
                Ok((det, h))
            });
            agg.evals += 1;
            let good = match &hdr {
                Ok(Ok((_, h))) => {
                    let kind_ok = match (sh.ver, h) {
                        (2, RootHeader::V2 { .. }) => true,
                        (3, RootHeader::V3V4 { version: 3, .. }) | (4, RootHeader::V3V4 { version: 4, .. }) => true,
                        _ => false,
                    };
                    kind_ok && h.total_files() == n && (sh.named_in_nohash_block || h.named_files() == k.min(n)) && h.version() == version(sh.ver)
                }
                _ => false,
            };
            if !good {
                cx.report(agg, "header", "misdetected", "", || {
                    format!("a {:?} manifest built with {n} files / {k} named is read back with header {:?} (RootVersion::detect / RootHeader::read)", version(sh.ver), hdr)
                });
                agg.outcomes.insert(fnv64_str("root-header-misdetected"));
                return;
            }
        }
        let parsed = match catch(|| RootFile::parse(&bytes)) {
            Err(p) => {
                cx.report(agg, "parse", "panic", "", || format!("RootFile::parse panicked at {}: {p}", panic_site()));
                return;
            }
            Ok(Err(e)) => {
                cx.report(agg, "parse", "unparseable", "", || format!("the builder's own output ({n} records, {k} named, {} bytes) is rejected by RootFile::parse: {e}", bytes.len()));
                return;
            }
            Ok(Ok(p)) => p,
        };

        // ---- layer 3: linear scan of the parsed blocks == inserted records
        // (fdid, locale) → (content flags, ckey, name hash)
        let mut scan: BTreeMap<(u32, u32), Vec<(u64, [u8; 16], Option<u64>)>> = BTreeMap::new();
        for b in &parsed.blocks {
            for r in &b.records {
                scan.entry((r.file_data_id.get(), b.locale_flags().value())).or_default().push((b.content_flags().value, *r.content_key.as_bytes(), r.name_hash));
            }
        }
        let mut ok = true;
        if parsed.version != version(sh.ver) {
            ok = false;
            cx.report(agg, "parse", "wrong-version", "", || format!("a {:?} manifest with {n} files / {k} named is parsed as {:?} (header {:?})", version(sh.ver), parsed.version, parsed.header));
        }
        for (i, r) in recs.iter().enumerate() {
            let lbl = format!("rec[{i}]");
            match scan.get(&(r.fdid, r.loc)) {
                None => {
                    ok = false;
                    cx.report(agg, "parse", "lost-entries", &lbl, || {
                        format!("inserted FileDataID {} (locale {:#x}) is absent from the parsed blocks: parsed version {:?}, {} blocks, {} records, header {:?}", r.fdid, r.loc, parsed.version, parsed.blocks.len(), parsed.blocks.iter().map(|b| b.records.len()).sum::<usize>(), parsed.header)
                    });
                }
                Some(l) => {
                    // V1 always stores a name hash: not compared for records inserted without a name
                    // (nor for records inserted without a name but without NO_NAME_HASH: the writer stores a hash for them)
                    let name_ok = |h: Option<u64>| if (sh.ver == 1 || sh.plain_unnamed || sh.named_in_nohash_block) && r.hash.is_none() { true } else { h == r.hash };
                    if l.len() != 1 || l[0].0 != r.cf || l[0].1 != r.ckey || !name_ok(l[0].2) {
                        ok = false;
                        cx.report(agg, "parse", "wrong-value", &lbl, || format!("FileDataID {} locale {:#x}: parsed (flags, ckey, name hash) {:x?}, inserted ({:#x}, {}, {:x?})", r.fdid, r.loc, l, r.cf, hx(&r.ckey), r.hash));
                    }
                }
            }
        }
        let parsed_total: usize = scan.values().map(Vec::len).sum();
        if parsed_total > recs.len() {
            ok = false;
            cx.report(agg, "parse", "phantom-entries", "", || format!("{} records parsed, {} inserted", parsed_total, recs.len()));
        }
        agg.evals += recs.len() as u64;

        // reference for the flavours: first record in block order that matches the query
        let scan_by_id = |f: u32, loc: u32, cf: u64| -> Vec<[u8; 16]> {
            let mut v = Vec::new();
            for b in &parsed.blocks {
                if b.locale_flags().value() & loc != 0 && (b.content_flags().value & cf) == cf {
                    for r in &b.records {
                        if r.file_data_id.get() == f {
                            v.push(*r.content_key.as_bytes());
                        }
                    }
                }
            }
            v
        };
        let scan_by_hash = |h: u64, loc: u32, cf: u64| -> Vec<[u8; 16]> {
            let mut v = Vec::new();
            for b in &parsed.blocks {
                if b.locale_flags().value() & loc != 0 && (b.content_flags().value & cf) == cf {
                    for r in &b.records {
                        if r.name_hash == Some(h) {
                            v.push(*r.content_key.as_bytes());
                        }
                    }
                }
            }
            v
        };
        let model_by_id = |f: u32, loc: u32, cf: u64| -> Vec<[u8; 16]> { recs.iter().filter(|r| r.fdid == f && r.loc & loc != 0 && (r.cf & cf) == cf).map(|r| r.ckey).collect() };
        let model_by_hash = |h: u64, loc: u32, cf: u64| -> Vec<[u8; 16]> { recs.iter().filter(|r| r.hash == Some(h) && r.loc & loc != 0 && (r.cf & cf) == cf).map(|r| r.ckey).collect() };

        let locs = [LocaleFlags::ENUS, LocaleFlags::DEDE, LocaleFlags::FRFR, LocaleFlags::ALL];
        let cfs = [ContentFlags::NONE, ContentFlags::INSTALL, named_flags(sh.ver), unnamed_flags(false), ContentFlags::BUNDLE];
        let (mut pos, mut neg) = (0u32, 0u32);
        // judge: `got` must be one of the acceptable keys (any matching record when several
        // blocks match), and must be None when nothing matches
        let judge = |agg: &mut Agg, flavour: &str, probe: &str, got: Option<[u8; 16]>, acc: &[[u8; 16]], what: &dyn Fn() -> String| {
            agg.evals += 1;
            let fine = match got {
                None => acc.is_empty(),
                Some(g) => acc.contains(&g),
            };
            if !fine {
                let c = if !ok {
                    "scan-disagrees"
                } else if got.is_none() {
                    "false-negative"
                } else if acc.is_empty() {
                    "false-positive"
                } else {
                    "wrong-value"
                };
                cx.report(agg, flavour, c, probe, || format!("{} = {:?}, acceptable {:?}", what(), got.map(|g| hx(&g)), acc.iter().map(|a| hx(a)).collect::<Vec<_>>()));
            }
        };
        let res = catch(|| {
            let mut fd: Vec<(String, u32)> = Vec::new();
            let mut seen = BTreeSet::new();
            for (i, r) in recs.iter().enumerate() {
                for (d, nm) in [(0i64, ""), (-1, "-1"), (1, "+1")] {
                    let f = (i64::from(r.fdid) + d).rem_euclid(1 << 32) as u32;
                    if seen.insert(f) {
                        fd.push((format!("fdid[{i}]{nm}"), f));
                    }
                }
            }
            if fd.is_empty() {
                fd.push(("fdid0".into(), 0));
            }
            for (name, f) in &fd {
                for loc in locs {
                    for cf in cfs {
                        let acc = if ok { model_by_id(*f, loc, cf) } else { scan_by_id(*f, loc, cf) };
                        if acc.is_empty() { neg += 1 } else { pos += 1 }
                        let got = parsed.resolve_by_id(FileDataId::new(*f), LocaleFlags::new(loc), ContentFlags::new(cf)).map(|c| *c.as_bytes());
                        judge(agg, "resolve_by_id", name, got, &acc, &|| format!("resolve_by_id({f}, locale {loc:#x}, content {cf:#x})"));
                    }
                }
                // get_entries_by_id: as many entries as records with that id
                let cnt = parsed.get_entries_by_id(FileDataId::new(*f)).map_or(0, Vec::len);
                let exp = if ok { recs.iter().filter(|r| r.fdid == *f).count() } else { parsed.iter_records().filter(|r| r.file_data_id.get() == *f).count() };
                agg.evals += 1;
                if cnt != exp {
                    let c = if !ok { "scan-disagrees" } else if cnt < exp { "false-negative" } else { "false-positive" };
                    cx.report(agg, "get_entries_by_id", c, name, || format!("get_entries_by_id({f}) has {cnt} entries, expected {exp}"));
                }
            }
            // by hash / by path: every record's path (named or not), in three spellings
            let mut seen_p = BTreeSet::new();
            for (i, r) in recs.iter().enumerate() {
                // (paths handed in together with NO_NAME_HASH are no lookup keys: the flag says
                // that their hash is not stored, V1 stores it all the same — not judged)
                if sh.named_in_nohash_block || !seen_p.insert(r.fdid) {
                    continue;
                }
                let p = path_of(r.fdid);
                let h = calculate_name_hash(&p);
                let spellings = [("as-inserted", p.clone()), ("upper-backslash", p.to_uppercase().replace('/', "\\")), ("lower", p.to_lowercase())];
                for loc in locs {
                    for cf in [ContentFlags::NONE, named_flags(sh.ver), ContentFlags::BUNDLE] {
                        let acc = if ok { model_by_hash(h, loc, cf) } else { scan_by_hash(h, loc, cf) };
                        if acc.is_empty() { neg += 1 } else { pos += 1 }
                        let got = parsed.resolve_by_hash(h, LocaleFlags::new(loc), ContentFlags::new(cf)).map(|c| *c.as_bytes());
                        judge(agg, "resolve_by_hash", &format!("name[{i}]"), got, &acc, &|| format!("resolve_by_hash({h:#x} = hash of {p:?}, locale {loc:#x}, content {cf:#x})"));
                        for (sn, sp) in &spellings {
                            let got = parsed.resolve_by_path(sp, LocaleFlags::new(loc), ContentFlags::new(cf)).map(|c| *c.as_bytes());
                            judge(agg, "resolve_by_path", &format!("name[{i}]/{sn}"), got, &acc, &|| format!("resolve_by_path({sp:?}, locale {loc:#x}, content {cf:#x})"));
                        }
                    }
                }
                let cnt = parsed.get_entries_by_path(&p).map_or(0, Vec::len);
                let exp = if ok { recs.iter().filter(|x| x.hash == Some(h)).count() } else { parsed.iter_records().filter(|r| r.name_hash == Some(h)).count() };
                agg.evals += 1;
                if cnt != exp {
                    let c = if !ok { "scan-disagrees" } else if cnt < exp { "false-negative" } else { "false-positive" };
                    cx.report(agg, "get_entries_by_path", c, &format!("name[{i}]"), || format!("get_entries_by_path({p:?}) has {cnt} entries, expected {exp}"));
                }
            }
            // a path that was never inserted
            for loc in locs {
                let got = parsed.resolve_by_path("World/Maps/never/inserted.adt", LocaleFlags::new(loc), ContentFlags::new(0)).map(|c| *c.as_bytes());
                neg += 1;
                judge(agg, "resolve_by_path", "never-inserted", got, &[], &|| format!("resolve_by_path(never inserted, locale {loc:#x})"));
            }
        });
        if let Err(p) = res {
            cx.report(agg, "lookup", "panic", "", || format!("root lookup panicked at {}: {p}", panic_site()));
        }
        if pos > 0 && neg > 0 {
            agg.nontrivial += 1;
        }
        agg.outcomes.insert(fnv64(format!("root|{}|{}|{}|{}|{}", sh.ver, parsed.blocks.len(), n, k.min(12), ok).as_bytes()));
        if agg.samples.is_empty() && n == 20 && k == 3 {
            agg.samples.push(json!({"structure": "root", "case": cx.wit, "bytes": bytes.len(), "blocks": parsed.blocks.len(), "positive_probes": pos, "negative_probes": neg}));
        }
    }
}

// ---------------------------------------------------------------------------------------
// section TVFS — path trees, file counts across the offset-width switches, flag sets
// ---------------------------------------------------------------------------------------

mod tvfs {
    use super::*;
    use cascette_formats::tvfs::{TVFS_FLAG_ENCODING_SPEC, TVFS_FLAG_INCLUDE_CKEY, TVFS_FLAG_PATCH_SUPPORT, TvfsBuilder, TvfsFile};

    /// One explicit case: everything needed to rebuild it is in here (also the replay format).
    #[derive(Clone, Debug, Serialize, Deserialize)]
    pub struct Case {
        pub tag: String,
        pub flags: u32,
        /// number of EST spec strings (only with the ENCODING_SPEC flag) and their length
        pub est_n: u32,
        pub est_len: u32,
        /// (path as given to the builder, file id that determines keys and sizes)
        pub files: Vec<(String, u32)>,
        /// extra negative probes
        pub extra_probes: Vec<String>,
    }

    #[derive(Clone, Debug, Serialize, Deserialize)]
    pub enum Shard {
        /// all subsets of size `size` of the path alphabet, one flag set
        Trees { flags: u32, size: u8 },
        /// file counts lo..=hi with one naming scheme and one flag set
        Counts { flags: u32, scheme: u8, lo: u32, hi: u32, est_n: u32, est_len: u32 },
        /// one path component of each listed length
        Lengths { flags: u32 },
    }

    pub const ALPHABET: [&str; 16] =
        ["a", "b", "ab", "a/b", "a/a", "ab/a", "b/a/b", "a/b/c", "A", "a/", "/a", "a//b", "a/b/c/d/e/f", "b/ab", "aa", "a b/c.d"];

    pub fn flagsets(tier: Tier) -> Vec<u32> {
        let mut v = vec![0, TVFS_FLAG_INCLUDE_CKEY, TVFS_FLAG_ENCODING_SPEC, TVFS_FLAG_INCLUDE_CKEY | TVFS_FLAG_ENCODING_SPEC];
        if tier == Tier::Thorough {
            v.push(TVFS_FLAG_INCLUDE_CKEY | TVFS_FLAG_PATCH_SUPPORT);
            v.push(TVFS_FLAG_INCLUDE_CKEY | TVFS_FLAG_ENCODING_SPEC | TVFS_FLAG_PATCH_SUPPORT);
        }
        v
    }

    pub fn shards(tier: Tier) -> Vec<Shard> {
        let mut v = Vec::new();
        for flags in flagsets(tier) {
            for size in 0..=tier.pick(4u8, 5u8) {
                v.push(Shard::Trees { flags, size });
            }
            for scheme in 0..3u8 {
                // EST table small (1-byte index field) and > 255 bytes (2-byte field)
                let ests: Vec<(u32, u32)> = if flags & TVFS_FLAG_ENCODING_SPEC != 0 { vec![(3, 4), (40, 8)] } else { vec![(0, 0)] };
                for (est_n, est_len) in ests {
                    v.push(Shard::Counts { flags, scheme, lo: 0, hi: 24, est_n, est_len });
                    if tier == Tier::Thorough {
                        // around the 2→3-byte switch of the container-table offset (table > 65535 bytes)
                        let esz = entry_size(flags, est_n * (est_len + 1)) as u32;
                        let n0 = 65535 / esz;
                        v.push(Shard::Counts { flags, scheme, lo: n0 - 1, hi: n0 + 2, est_n, est_len });
                        if flags & TVFS_FLAG_PATCH_SUPPORT != 0 {
                            let n1 = 65535 / (esz + 1);
                            v.push(Shard::Counts { flags, scheme, lo: n1 - 1, hi: n1 + 2, est_n, est_len });
                        }
                    }
                }
            }
            v.push(Shard::Lengths { flags });
        }
        v
    }

    /// container-table entry size as the format defines it (for choosing counts only)
    fn entry_size(flags: u32, est_bytes: u32) -> usize {
        let mut s = 9 + 4;
        if flags & TVFS_FLAG_INCLUDE_CKEY != 0 {
            s += 9;
        }
        if flags & TVFS_FLAG_ENCODING_SPEC != 0 {
            s += if est_bytes > 255 { 2 } else { 1 };
        }
        if flags & TVFS_FLAG_PATCH_SUPPORT != 0 {
            s += 1;
        }
        s
    }

    pub fn canonical(p: &str) -> String {
        p.split('/').filter(|s| !s.is_empty()).collect::<Vec<_>>().join("/")
    }

    fn name_for(scheme: u8, i: u32) -> String {
        match scheme {
            0 => format!("f{i:05}"),
            1 => format!("data/shared/prefix/f{i:05}"),
            // chain: every file one level deeper in a shared directory chain, files named like their sibling directory's prefix
            _ => {
                let depth = (i % 7) as usize;
                let mut p = String::new();
                for d in 0..depth {
                    p.push_str(&format!("d{d}/"));
                }
                p.push_str(&format!("x{i:05}"));
                p
            }
        }
    }

    pub fn cases(sh: &Shard) -> Vec<Case> {
        match sh {
            Shard::Trees { flags, size } => {
                let mut out = Vec::new();
                let n = ALPHABET.len();
                let mut idx: Vec<usize> = (0..*size as usize).collect();
                if *size as usize > n {
                    return out;
                }
                loop {
                    let files: Vec<(String, u32)> = idx.iter().map(|i| (ALPHABET[*i].to_string(), *i as u32)).collect();
                    // duplicate paths after normalisation are a caller error: not generated
                    let canon: BTreeSet<String> = files.iter().map(|f| canonical(&f.0)).collect();
                    if canon.len() == files.len() {
                        out.push(Case {
                            tag: "trees".into(),
                            flags: *flags,
                            est_n: if flags & TVFS_FLAG_ENCODING_SPEC != 0 { 3 } else { 0 },
                            est_len: 4,
                            files,
                            extra_probes: ALPHABET.iter().map(|s| s.to_string()).collect(),
                        });
                    }
                    // next combination
                    let k = idx.len();
                    let mut i = k;
                    while i > 0 && idx[i - 1] == n - k + (i - 1) {
                        i -= 1;
                    }
                    if i == 0 {
                        break;
                    }
                    idx[i - 1] += 1;
                    for j in i..k {
                        idx[j] = idx[j - 1] + 1;
                    }
                }
                out
            }
            Shard::Counts { flags, scheme, lo, hi, est_n, est_len } => (*lo..=*hi)
                .map(|n| Case {
                    tag: format!("counts/scheme{scheme}"),
                    flags: *flags,
                    est_n: *est_n,
                    est_len: *est_len,
                    files: (0..n).map(|i| (name_for(*scheme, i), i)).collect(),
                    extra_probes: vec![name_for(*scheme, n), name_for(*scheme, n + 1), "f".into(), "data".into(), "data/shared".into(), "d0".into(), "d0/d1".into()],
                })
                .collect(),
            Shard::Lengths { flags } => {
                let mut out = Vec::new();
                for len in [1usize, 2, 127, 128, 254, 255, 256, 300, 509, 510, 511] {
                    for shape in 0..3u8 {
                        let long = "n".repeat(len);
                        let files: Vec<(String, u32)> = match shape {
                            0 => vec![(long.clone(), 1)],
                            1 => vec![(format!("dir/{long}"), 1), ("dir/z".into(), 2), ("a".into(), 3)],
                            _ => vec![(format!("{long}/leaf"), 1), ("zz".into(), 2)],
                        };
                        out.push(Case {
                            tag: format!("lengths/len{len}"),
                            flags: *flags,
                            est_n: if flags & TVFS_FLAG_ENCODING_SPEC != 0 { 3 } else { 0 },
                            est_len: 4,
                            files,
                            extra_probes: vec!["n".repeat(len.saturating_sub(1)), "n".repeat(len + 1), "dir".into()],
                        });
                    }
                }
                out
            }
        }
    }

    fn ekey(id: u32) -> [u8; 9] {
        if id == 0 {
            return [0u8; 9];
        }
        let b = id.to_be_bytes();
        [0xE0, b[0], b[1], b[2], b[3], 0x11, 0x22, 0x33, (id % 251) as u8]
    }
    fn ckey(id: u32) -> [u8; 16] {
        let mut k = [0xC1u8; 16];
        k[4..8].copy_from_slice(&id.to_be_bytes());
        k[15] = (id % 7) as u8;
        k
    }
    fn enc_size(id: u32) -> u32 {
        if id == 0 { 0 } else if id == 1 { u32::MAX } else { id * 13 + 1 }
    }
    fn content_size(id: u32) -> u32 {
        if id == 0 { 0 } else if id == 2 { u32::MAX } else { id * 17 + 2 }
    }

    pub fn eval_shard(sh: &Shard) -> Agg {
        let mut agg = Agg::default();
        for c in cases(sh) {
            eval_case(&c, &mut agg);
        }
        agg
    }

    pub fn eval_case(c: &Case, agg: &mut Agg) {
        let has_ck = c.flags & TVFS_FLAG_INCLUDE_CKEY != 0;
        let has_est = c.flags & TVFS_FLAG_ENCODING_SPEC != 0;
        let small = c.files.len() <= 6;
        let cx = Cx {
            structure: "tvfs",
            // family of the case (trees / counts / lengths); the PATCH_SUPPORT flag adds a second
            // size-dependent field to the container entries and is kept apart
            group: format!("{}{}", c.tag.split('/').next().unwrap_or(""), if c.flags & TVFS_FLAG_PATCH_SUPPORT != 0 { "+patch" } else { "" }),
            group_of: Vec::new(),
            params: if small {
                format!("{},flags={:#x},est={}x{},files={:?}", c.tag, c.flags, c.est_n, c.est_len, c.files.iter().map(|f| if f.0.len() > 24 { format!("<{} bytes>", f.0.len()) } else { f.0.clone() }).collect::<Vec<_>>())
            } else {
                format!("{},flags={:#x},est={}x{},files={}", c.tag, c.flags, c.est_n, c.est_len, c.files.len())
            },
            wit: json!({"section": "tvfs", "case": c}),
        };
        agg.cases += 1;
        // model: canonical path → id
        let model: BTreeMap<String, u32> = c.files.iter().map(|(p, id)| (canonical(p), *id)).collect();
        let est_of = |id: u32| -> u32 { if c.est_n == 0 { 0 } else { id % c.est_n } };

        let built = catch(|| {
            let mut b = TvfsBuilder::with_flags(c.flags);
            if has_est {
                for i in 0..c.est_n {
                    let mut sp = format!("{i}");
                    while sp.len() < c.est_len as usize {
                        sp.push('z');
                    }
                    b.add_est_spec(sp);
                }
            }
            // insertion order: reversed (the builder sorts)
            for (p, id) in c.files.iter().rev() {
                if has_est {
                    b.add_file_with_est(p.clone(), ekey(*id), enc_size(*id), content_size(*id), Some(ckey(*id)), est_of(*id));
                } else {
                    b.add_file(p.clone(), ekey(*id), enc_size(*id), content_size(*id), Some(ckey(*id)));
                }
            }
            b.build()
        });
        let bytes = match built {
            Err(p) => {
                cx.report(agg, "build", "panic", "", || format!("TvfsBuilder::build panicked at {}: {p}", panic_site()));
                return;
            }
            Ok(Err(e)) => {
                if model.is_empty() {
                    agg.bump("tvfs_empty_build_rejected", 1);
                } else {
                    cx.report(agg, "build", "error", "", || format!("TvfsBuilder::build failed on {} files: {e}", model.len()));
                }
                return;
            }
            Ok(Ok(b)) => b,
        };
        let parsed = match catch(|| TvfsFile::parse(&bytes)) {
            Err(p) => {
                cx.report(agg, "parse", "panic", "", || format!("TvfsFile::parse panicked at {}: {p}", panic_site()));
                return;
            }
            Ok(Err(e)) => {
                if model.is_empty() {
                    agg.bump("tvfs_empty_parse_rejected", 1);
                } else {
                    cx.report(agg, "parse", "unparseable", "", || format!("the builder's own output ({} files, {} bytes) is rejected by TvfsFile::parse: {e}", model.len(), bytes.len()));
                }
                return;
            }
            Ok(Ok(p)) => p,
        };

        // the container table must be exactly one entry per file of the size the parsed header
        // implies (the field widths are derived from table sizes on both sides); everything
        // after a stride mismatch is a consequence and is not reported separately
        agg.evals += 1;
        let esz = parsed.header.cft_entry_size();
        let misaligned = parsed.vfs_table.entries.iter().flat_map(|e| e.spans.iter()).find(|sp| sp.cft_offset as usize % esz != 0 || sp.cft_offset as usize / esz >= c.files.len());
        if parsed.header.cft_table_size as usize != c.files.len() * esz || misaligned.is_some() {
            cx.report(agg, "container-table", "stride-mismatch", "", || {
                format!(
                    "container file table is {} bytes for {} files and the header read back implies {} bytes per entry (cft offset width {}, est offset width {}, est table {:?} bytes), but a VFS span points at container offset {:?}",
                    parsed.header.cft_table_size, c.files.len(), esz, parsed.header.cft_offs_size(), parsed.header.est_offs_size(), parsed.header.est_table_size, misaligned.map(|sp| sp.cft_offset)
                )
            });
            agg.outcomes.insert(fnv64_str("tvfs-stride-mismatch"));
            return;
        }

        // what a correct resolution of file `id` looks like
        let check_entry = |e: &cascette_formats::tvfs::ContainerEntry, id: u32| -> Option<String> {
            if e.ekey != ekey(id) {
                return Some(format!("ekey {} ≠ inserted {}", hx(&e.ekey), hx(&ekey(id))));
            }
            if e.encoded_size != enc_size(id) {
                return Some(format!("encoded_size {} ≠ inserted {}", e.encoded_size, enc_size(id)));
            }
            if has_ck {
                match &e.content_key {
                    Some(k) if !k.is_empty() && ckey(id).starts_with(k) => {}
                    other => return Some(format!("content_key {:?} is not a prefix of the inserted {}", other.as_ref().map(|k| hx(k)), hx(&ckey(id)))),
                }
            } else if e.content_key.is_some() {
                return Some("content_key present without INCLUDE_CKEY".into());
            }
            if has_est {
                if e.est_index != Some(est_of(id)) {
                    return Some(format!("est_index {:?} ≠ inserted {}", e.est_index, est_of(id)));
                }
            } else if e.est_index.is_some() {
                return Some("est_index present without ENCODING_SPEC".into());
            }
            None
        };

        // ---- layer 3: linear scan (path table → VFS entry → span → CFT entry at the span's offset)
        let mut scan: BTreeMap<String, Vec<Result<(cascette_formats::tvfs::ContainerEntry, u32), String>>> = BTreeMap::new();
        let scanned = catch(|| {
            for (f, v) in parsed.enumerate_files() {
                let r = match v.and_then(|v| v.spans.first()) {
                    None => Err("no VFS entry / span at the path's offset".to_string()),
                    Some(sp) => parsed.container_table.get_entry_at_offset(sp.cft_offset, &parsed.header).map(|e| (e, sp.span_length)).map_err(|e| e.to_string()),
                };
                scan.entry(f.path.clone()).or_default().push(r);
            }
        });
        if let Err(p) = scanned {
            cx.report(agg, "enumerate_files", "panic", "", || format!("enumeration panicked at {}: {p}", panic_site()));
            return;
        }
        let mut ok = true;
        for (i, (p, id)) in model.iter().enumerate() {
            let lbl = format!("file[{i}]");
            agg.evals += 1;
            match scan.get(p) {
                None => {
                    ok = false;
                    cx.report(agg, "parse", "lost-entries", &lbl, || format!("inserted path {:?} is absent from the parsed path table (parsed paths: {:?})", short(p), scan.keys().take(8).map(|s| short(s)).collect::<Vec<_>>()));
                }
                Some(l) => {
                    let bad = if l.len() != 1 {
                        Some(format!("{} path-table entries", l.len()))
                    } else {
                        match &l[0] {
                            Err(e) => Some(e.clone()),
                            Ok((e, span_len)) => check_entry(e, *id).or_else(|| (*span_len != content_size(*id)).then(|| format!("span_length {} ≠ inserted content size {}", span_len, content_size(*id)))),
                        }
                    };
                    if let Some(b) = bad {
                        ok = false;
                        cx.report(agg, "parse", "wrong-value", &lbl, || format!("path {:?} (file id {id}): {b}", short(p)));
                    }
                }
            }
        }
        for p in scan.keys() {
            if !model.contains_key(p) {
                ok = false;
                cx.report(agg, "parse", "phantom-entries", "", || format!("parsed path {:?} was never inserted", short(p)));
            }
        }

        // ---- layer 4: resolve_path
        let mut probes: Vec<(String, String)> = Vec::new();
        let nf = c.files.len();
        for (i, (p, _)) in c.files.iter().enumerate() {
            let cp = canonical(p);
            if *p != cp {
                probes.push((format!("file[{i}].as-given"), p.clone()));
            }
            probes.push((format!("file[{i}]"), cp.clone()));
            // tables with more than 200 files: neighbours/prefixes only for the first and last 40 files
            if nf > 200 && i >= 40 && i + 40 < nf {
                continue;
            }
            probes.push((format!("file[{i}]+slash"), format!("{cp}/")));
            probes.push((format!("file[{i}]+x"), format!("{cp}x")));
            let comps: Vec<&str> = cp.split('/').collect();
            for d in 1..comps.len() {
                probes.push((format!("file[{i}].prefix{d}"), comps[..d].join("/")));
            }
            if cp.len() > 1 {
                probes.push((format!("file[{i}].trunc"), cp[..cp.len() - 1].to_string()));
            }
        }
        for (i, p) in c.extra_probes.iter().enumerate() {
            probes.push((format!("extra[{i}]"), p.clone()));
        }
        probes.push(("empty".into(), String::new()));
        let mut seen = BTreeSet::new();
        probes.retain(|(_, p)| seen.insert(p.clone()));
        let (mut pos, mut neg) = (0u32, 0u32);
        let res = catch(|| {
            for (name, p) in &probes {
                let noncanonical = *p != canonical(p);
                let exp: Option<u32> = model.get(p).copied();
                agg.evals += 1;
                let got = parsed.resolve_path(p);
                if noncanonical {
                    // only "nothing wrong is returned" is required for spellings the builder normalises
                    if let Some(e) = got {
                        let cid = model.get(&canonical(p)).copied();
                        if cid.is_none_or(|id| check_entry(e, id).is_some()) {
                            cx.report(agg, "resolve_path", "false-positive", name, || format!("resolve_path({:?}) returned an entry with ekey {}", short(p), hx(&e.ekey)));
                        }
                    }
                    continue;
                }
                if exp.is_some() { pos += 1 } else { neg += 1 }
                if !ok {
                    // compare with the linear scan of what was parsed
                    let sc = scan.get(p).and_then(|l| l.first()).and_then(|r| r.as_ref().ok()).map(|(e, _)| (e.ekey.clone(), e.encoded_size, e.offset));
                    let g = got.map(|e| (e.ekey.clone(), e.encoded_size, e.offset));
                    if sc != g {
                        cx.report(agg, "resolve_path", "scan-disagrees", name, || format!("resolve_path({:?}) = {:?}, linear scan of the parsed tables = {:?}", short(p), g, sc));
                    }
                    continue;
                }
                match (exp, got) {
                    (None, None) => {}
                    (Some(id), None) => cx.report(agg, "resolve_path", "false-negative", name, || format!("resolve_path({:?}) = None, inserted as file id {id}", short(p))),
                    (None, Some(e)) => cx.report(agg, "resolve_path", "false-positive", name, || format!("resolve_path({:?}) returned ekey {} but the path was never inserted", short(p), hx(&e.ekey))),
                    (Some(id), Some(e)) => {
                        if let Some(b) = check_entry(e, id) {
                            cx.report(agg, "resolve_path", "wrong-value", name, || format!("resolve_path({:?}) (file id {id}): {b}", short(p)));
                        }
                    }
                }
            }
        });
        if let Err(p) = res {
            cx.report(agg, "resolve_path", "panic", "", || format!("resolve_path panicked at {}: {p}", panic_site()));
        }
        if pos > 0 && neg > 0 {
            agg.nontrivial += 1;
        }
        let w = parsed.header.cft_offs_size();
        agg.bump(&format!("tvfs_cft_offset_width_{w}"), 1);
        if has_est {
            agg.bump(&format!("tvfs_est_offset_width_{}", parsed.header.est_offs_size()), 1);
        }
        agg.outcomes.insert(fnv64(format!("tvfs|{}|{}|{}|{}|{}|{}", c.flags, w, parsed.header.max_depth, pos, neg.min(40), ok).as_bytes()));
        if agg.samples.is_empty() && c.files.len() == 3 {
            agg.samples.push(json!({"structure": "tvfs", "case": c, "bytes": bytes.len(), "positive_probes": pos, "negative_probes": neg, "cft_offset_width": w}));
        }
    }

    fn short(p: &str) -> String {
        if p.len() > 40 { format!("{}…<{} bytes>", &p[..12], p.len()) } else { p.to_string() }
    }
}

// ---------------------------------------------------------------------------------------
// section RESOLVER — client-storage ContentResolver: path / FileDataID → CKey → EKey
// ---------------------------------------------------------------------------------------

mod resolver {
    use super::*;
    use cascette_client_storage::resolver::ContentResolver;
    use cascette_crypto::md5::FileDataId;
    use cascette_formats::encoding::{CKeyEntryData, EKeyEntryData, EncodingBuilder};
    use cascette_formats::root::{ContentFlags, LocaleFlags, RootBuilder};

    #[derive(Clone, Debug, Serialize, Deserialize)]
    pub struct Shard {
        pub ver: u8,
        /// encoding keys per content key
        pub k: u8,
        /// extra content keys in the encoding table that no root record refers to (pushes the
        /// referenced ones across CKey pages of 1 KiB)
        pub enc_fill: u32,
        pub nmax: u32,
    }

    pub fn shards(tier: Tier) -> Vec<Shard> {
        let mut v = Vec::new();
        for ver in 1..=4u8 {
            for k in 1..=2u8 {
                for enc_fill in [0u32, 30] {
                    v.push(Shard { ver, k, enc_fill, nmax: tier.pick(40, 130) });
                }
            }
        }
        v
    }

    fn ckey(ver: u8, i: u32) -> [u8; 16] {
        let mut c = [0x50u8 | ver; 16];
        c[8..12].copy_from_slice(&i.to_be_bytes());
        c
    }
    fn ekey(ver: u8, i: u32, j: u8) -> [u8; 16] {
        let mut c = [0x90u8 | ver; 16];
        c[8..12].copy_from_slice(&i.to_be_bytes());
        c[15] = j;
        c
    }
    /// record i: is its content key present in the encoding table?
    fn encoded(i: u32) -> bool {
        i % 3 != 2
    }
    /// record i: named?
    fn named(i: u32) -> bool {
        i % 4 != 3
    }
    fn fdid(i: u32) -> u32 {
        100 + i * 3
    }
    fn size_of(i: u32) -> u64 {
        u64::from(i) * 1000 + 17
    }

    pub fn eval_shard(sh: &Shard) -> Agg {
        let mut agg = Agg::default();
        // skip the counts for which the V2 header defect (ROOT's finding) makes the manifest unreadable
        for n in 1..=sh.nmax {
            eval_case(sh, n, &mut agg);
        }
        agg
    }

    pub fn eval_case(sh: &Shard, n: u32, agg: &mut Agg) {
        let cx = Cx {
            structure: "resolver",
            // the chain is version-independent once the manifest is parsed: one group, version in the tuple
            group: "-".to_string(),
            group_of: Vec::new(),
            params: format!("V{},files={n},k={},enc_fill={}", sh.ver, sh.k, sh.enc_fill),
            wit: json!({"section": "resolver", "shard": sh, "n": n}),
        };
        agg.cases += 1;
        let built = catch(|| -> Result<(Vec<u8>, Vec<u8>), String> {
            let mut rb = RootBuilder::new(super::root::version(sh.ver));
            for i in (0..n).rev() {
                let p = super::root::path_of(fdid(i));
                let (path, cf) = if named(i) { (Some(p.as_str()), ContentFlags::INSTALL) } else { (None, ContentFlags::INSTALL | ContentFlags::NO_NAME_HASH) };
                rb.add_file(FileDataId::new(fdid(i)), ContentKey::from_bytes(ckey(sh.ver, i)), path, LocaleFlags::new(LocaleFlags::ENUS), ContentFlags::new(cf));
            }
            let root = rb.build().map_err(|e| format!("root build: {e}"))?;
            let mut eb = EncodingBuilder::new().with_page_sizes(1, 1);
            let mut add = |i: u32| {
                let eks: Vec<EncodingKey> = (0..sh.k).map(|j| EncodingKey::from_bytes(ekey(sh.ver, i, j))).collect();
                eb.add_ckey_entry(CKeyEntryData { content_key: ContentKey::from_bytes(ckey(sh.ver, i)), file_size: size_of(i), encoding_keys: eks.clone() });
                for e in eks {
                    eb.add_ekey_entry(EKeyEntryData { encoding_key: e, espec: "z".into(), file_size: size_of(i) / 2 });
                }
            };
            for i in 0..n {
                if encoded(i) {
                    add(i);
                }
            }
            for x in 0..sh.enc_fill {
                add(1_000_000 + x);
            }
            // at least one entry so that the table is not empty
            add(2_000_000);
            let enc = eb.build().and_then(|f| f.build()).map_err(|e| format!("encoding build: {e}"))?;
            Ok((root, enc))
        });
        let (root_bytes, enc_bytes) = match built {
            Err(p) => {
                cx.report(agg, "build", "panic", "", || format!("builders panicked at {}: {p}", panic_site()));
                return;
            }
            Ok(Err(e)) => {
                cx.report(agg, "build", "error", "", || e.clone());
                return;
            }
            Ok(Ok(x)) => x,
        };
        let r = ContentResolver::new();
        // a manifest the root parser itself misreads is ROOT's finding; the chain is only
        // judged on manifests that RootFile::parse reads back with the right record count
        let root_ok = catch(|| cascette_formats::root::RootFile::parse(&root_bytes).map(|f| f.iter_records().count() == n as usize && f.version == super::root::version(sh.ver)).unwrap_or(false)).unwrap_or(false);
        if !root_ok {
            agg.bump("resolver_cases_skipped_root_misread", 1);
            agg.outcomes.insert(fnv64_str("resolver-root-misread"));
            return;
        }
        let loaded = catch(|| (r.load_root_file(&root_bytes).map_err(|e| e.to_string()), r.load_encoding_file(&enc_bytes).map_err(|e| e.to_string())));
        match loaded {
            Err(p) => {
                cx.report(agg, "load", "panic", "", || format!("load panicked at {}: {p}", panic_site()));
                return;
            }
            Ok((Err(e), _)) | Ok((_, Err(e))) => {
                cx.report(agg, "load", "unparseable", "", || format!("ContentResolver rejects the builders' output: {e}"));
                return;
            }
            _ => {}
        }
        let (mut pos, mut neg) = (0u32, 0u32);
        let cls = |exp: bool, got: bool| if exp && !got { "false-negative" } else if !exp && got { "false-positive" } else { "wrong-value" };
        let res = catch(|| {
            for i in 0..n + 1 {
                let present = i < n;
                let lbl = if present { format!("rec[{i}]") } else { "absent".to_string() };
                // --- FileDataID → CKey, → EKey (and the neighbours fdid±1 which are never inserted)
                let exp_c = present.then(|| ckey(sh.ver, i));
                let got = r.resolve_file_data_id(fdid(i)).map(|c| *c.as_bytes());
                agg.evals += 1;
                if exp_c.is_some() { pos += 1 } else { neg += 1 }
                if got != exp_c {
                    cx.report(agg, "resolve_file_data_id", cls(exp_c.is_some(), got.is_some()), &lbl, || format!("resolve_file_data_id({}) = {:?}, expected {:?}", fdid(i), got.map(|g| hx(&g)), exp_c.map(|g| hx(&g))));
                }
                for d in [1u32, 2] {
                    agg.evals += 1;
                    neg += 1;
                    if let Some(g) = r.resolve_file_data_id(fdid(i) + d) {
                        cx.report(agg, "resolve_file_data_id", "false-positive", &format!("{lbl}+{d}"), || format!("resolve_file_data_id({}) = {} but that id was never inserted", fdid(i) + d, hx(g.as_bytes())));
                    }
                }
                let exp_e = (present && encoded(i)).then(|| ekey(sh.ver, i, 0));
                let got = r.resolve_fdid_to_encoding(fdid(i)).map(|c| *c.as_bytes());
                agg.evals += 1;
                if got != exp_e {
                    cx.report(agg, "resolve_fdid_to_encoding", cls(exp_e.is_some(), got.is_some()), &lbl, || format!("resolve_fdid_to_encoding({}) = {:?}, expected {:?}", fdid(i), got.map(|g| hx(&g)), exp_e.map(|g| hx(&g))));
                }
                // --- CKey → EKey, size
                let ck = ContentKey::from_bytes(ckey(sh.ver, i));
                let got = r.resolve_content_key(&ck).map(|c| *c.as_bytes());
                agg.evals += 1;
                if got != exp_e {
                    cx.report(agg, "resolve_content_key", cls(exp_e.is_some(), got.is_some()), &lbl, || format!("resolve_content_key({}) = {:?}, expected {:?}", hx(ck.as_bytes()), got.map(|g| hx(&g)), exp_e.map(|g| hx(&g))));
                }
                let exp_s = (present && encoded(i)).then(|| size_of(i));
                let got_s = r.get_content_size(&ck);
                agg.evals += 1;
                if got_s != exp_s {
                    cx.report(agg, "get_content_size", cls(exp_s.is_some(), got_s.is_some()), &lbl, || format!("get_content_size({}) = {got_s:?}, expected {exp_s:?}", hx(ck.as_bytes())));
                }
                // --- path → CKey, → EKey, file info: the spelling given to RootBuilder::add_file
                // and the normalised spelling
                let p = super::root::path_of(fdid(i));
                let exp_pc = (present && named(i)).then(|| ckey(sh.ver, i));
                for (sn, sp) in [("as-inserted", p.clone()), ("upper-backslash", p.to_uppercase().replace('/', "\\"))] {
                    let l2 = format!("{lbl}/{sn}");
                    let got = r.resolve_path(&sp).map(|c| *c.as_bytes());
                    agg.evals += 1;
                    if exp_pc.is_some() { pos += 1 } else { neg += 1 }
                    if got != exp_pc {
                        cx.report(agg, &format!("resolve_path/{sn}"), cls(exp_pc.is_some(), got.is_some()), &lbl, || format!("resolve_path({sp:?}) = {:?}, expected {:?} (the record was added with RootBuilder::add_file(path = {p:?}))", got.map(|g| hx(&g)), exp_pc.map(|g| hx(&g))));
                    }
                    // the composed calls are judged as compositions: first hop as observed, second
                    // hop by the model — so that a first-hop defect is reported once, at resolve_path
                    let hop1 = got;
                    let enc_of = |c: [u8; 16]| -> Option<u32> { (0..n).find(|j| ckey(sh.ver, *j) == c && encoded(*j)) };
                    let exp_pe = hop1.and_then(enc_of).map(|j| ekey(sh.ver, j, 0));
                    let got = r.resolve_path_to_encoding(&sp).map(|c| *c.as_bytes());
                    agg.evals += 1;
                    if got != exp_pe {
                        cx.report(agg, "resolve_path_to_encoding", cls(exp_pe.is_some(), got.is_some()), &l2, || format!("resolve_path_to_encoding({sp:?}) = {:?}, but resolve_path gives {:?} and the encoding table maps that to {:?}", got.map(|g| hx(&g)), hop1.map(|g| hx(&g)), exp_pe.map(|g| hx(&g))));
                    }
                    let got = r.get_file_info(&sp).map(|f| (*f.content_key.as_bytes(), *f.encoding_key.as_bytes(), f.size));
                    let exp_i = hop1.and_then(|c| enc_of(c).map(|j| (c, ekey(sh.ver, j, 0), size_of(j))));
                    agg.evals += 1;
                    if got != exp_i {
                        cx.report(agg, "get_file_info", cls(exp_i.is_some(), got.is_some()), &l2, || format!("get_file_info({sp:?}) = {got:x?}, expected {exp_i:x?} from the two hops"));
                    }
                    let _ = l2;
                }
            }
        });
        if let Err(p) = res {
            cx.report(agg, "lookup", "panic", "", || format!("ContentResolver lookup panicked at {}: {p}", panic_site()));
        }
        if pos > 0 && neg > 0 {
            agg.nontrivial += 1;
        }
        agg.outcomes.insert(fnv64(format!("resolver|{}|{}|{}|{}", sh.ver, sh.k, n.min(30), sh.enc_fill).as_bytes()));
        if agg.samples.is_empty() && n == 7 {
            agg.samples.push(json!({"structure": "resolver", "case": cx.wit, "root_bytes": root_bytes.len(), "encoding_bytes": enc_bytes.len(), "positive_probes": pos, "negative_probes": neg}));
        }
    }
}

/// index orders for batch lookups over a sorted probe list: sorted, reversed, and every probe
/// twice (interleaved from both ends)
fn batch_orders(n: usize) -> Vec<(&'static str, Vec<usize>)> {
    let fwd: Vec<usize> = (0..n).collect();
    let mut rev = fwd.clone();
    rev.reverse();
    let mut dup = Vec::with_capacity(2 * n);
    for i in 0..n {
        dup.push(i);
        dup.push(n - 1 - i);
    }
    vec![("sorted", fwd), ("reversed", rev), ("duplicated", dup)]
}

// ---------------------------------------------------------------------------------------
// driver
// ---------------------------------------------------------------------------------------

fn run_section<S: Sync>(name: &str, shards: &[S], deadline: Instant, total: &mut Agg, rep: &Report, f: impl Fn(&S) -> Agg + Sync) {
    let t0 = Instant::now();
    let outs = par_map(shards.len(), |i| {
        if STOP.load(Ordering::Relaxed) {
            return None;
        }
        if Instant::now() > deadline {
            STOP.store(true, Ordering::Relaxed);
            return None;
        }
        Some(f(&shards[i]))
    });
    let mut sec = Agg::default();
    let mut skipped = 0u64;
    for o in outs {
        match o {
            Some(a) => sec.merge(a),
            None => skipped += 1,
        }
    }
    if skipped > 0 {
        rep.cap_hit(&format!("section {name}: wall-clock cap reached, {skipped} of {} shards not evaluated", shards.len()));
    }
    rep.extra(
        &format!("section_{name}"),
        json!({"shards": shards.len(), "cases": sec.cases, "evaluations": sec.evals, "nontrivial_cases": sec.nontrivial,
               "distinct_outcomes": sec.outcomes.len(), "violating_groups": sec.viols.len(), "wall_s": (t0.elapsed().as_secs_f64() * 100.0).round() / 100.0}),
    );
    total.merge(sec);
}

fn eval_witness(w: &Value) -> Option<Agg> {
    let case = &w["case"];
    let mut agg = Agg::default();
    enc::ADD_REMOVE.with(|c| c.set(case["add_remove"].as_bool() == Some(true)));
    enc::SMALL_FIRST.with(|c| c.set(case["small_first"].as_bool() == Some(true)));
    enc::PAGE_KB.with(|c| c.set((case["page_kb"][0].as_u64().unwrap_or(1) as u16, case["page_kb"][1].as_u64().unwrap_or(1) as u16)));
    match case["section"].as_str()? {
        "enc" => {
            let sh: enc::Shard = serde_json::from_value(case["shard"].clone()).ok()?;
            enc::eval_case(&sh, case["s"].as_u64()? as u8, &mut agg);
        }
        "arch" => {
            let sh: arch::Shard = serde_json::from_value(case["shard"].clone()).ok()?;
            let sc = if sh.chunked { Some(Scratch::new("c03r")) } else { None };
            arch::eval_case(&sh, case["s"].as_u64()? as u8, &mut agg, sc.as_ref());
        }
        "group" => {
            let sh: group::Shard = serde_json::from_value(case["shard"].clone()).ok()?;
            group::eval_case(&sh, case["s"].as_u64()? as u8, &mut agg);
        }
        "root" => {
            let sh: root::Shard = serde_json::from_value(case["shard"].clone()).ok()?;
            root::eval_case_removing(&sh, case["n"].as_u64()? as u32, case["k"].as_u64()? as u32, case["remove"].as_u64().map(|r| r as u32), &mut agg);
        }
        "tvfs" => {
            let c: tvfs::Case = serde_json::from_value(case["case"].clone()).ok()?;
            tvfs::eval_case(&c, &mut agg);
        }
        "resolver" => {
            let sh: resolver::Shard = serde_json::from_value(case["shard"].clone()).ok()?;
            resolver::eval_case(&sh, case["n"].as_u64()? as u32, &mut agg);
        }
        _ => return None,
    }
    Some(agg)
}

pub fn run(tier: Tier, seed: u64) -> i32 {
    let rep = Report::new("C03", tier, seed, Level::Exploration);
    STOP.store(false, Ordering::Relaxed);
    let deadline = Instant::now() + std::time::Duration::from_secs(tier.pick(300, 2400));
    let mut total = Agg::default();
    // development aid: C03_ONLY=root,tvfs restricts the run (and marks it non-exhaustive)
    let only: Option<Vec<String>> = std::env::var("C03_ONLY").ok().map(|s| s.split(',').map(str::to_string).collect());
    if only.is_some() {
        rep.cap_hit("C03_ONLY set: not all sections were run");
    }
    let want = |n: &str| only.as_ref().is_none_or(|o| o.iter().any(|x| x == n));

    let sh = enc::shards(tier);
    if want("enc") {
        run_section("encoding", &sh, deadline, &mut total, &rep, enc::eval_shard);
    }

    let sh = arch::shards(tier);
    if want("arch") {
        run_section("archive_index", &sh, deadline, &mut total, &rep, arch::eval_shard);
    }

    let sh = group::shards(tier);
    if want("group") {
        run_section("archive_group", &sh, deadline, &mut total, &rep, group::eval_shard);
    }

    let sh = root::shards(tier);
    if want("root") {
        run_section("root", &sh, deadline, &mut total, &rep, root::eval_shard);
    }

    let sh = tvfs::shards(tier);
    if want("tvfs") {
        run_section("tvfs", &sh, deadline, &mut total, &rep, tvfs::eval_shard);
    }

    let sh = resolver::shards(tier);
    if want("resolver") {
        run_section("resolver", &sh, deadline, &mut total, &rep, resolver::eval_shard);
    }

    finish(rep, total, tier)
}

fn finish(rep: Report, total: Agg, tier: Tier) -> i32 {
    rep.set_rule(
        "a case = one set of mappings given to a builder (a point of the product of the dimensions listed under `bounds`; every point is enumerated, window subsets simplest first), always builder → serialize → parse → probe; evaluations = individual comparisons (one inserted entry against the linear scan of the parsed structure, or one lookup flavour on one probe against the BTreeMap model / the single lookup / the linear scan); a case is non-trivial when the builder's output parsed and the probe set contained at least one inserted and at least one not-inserted key; cases are distinct by construction (distinct parameter tuples), so distinct_nontrivial is a measured count of enumerated cases that satisfied the rule",
    );
    rep.assume("reference model: a BTreeMap (or sorted association list searched by binary search) from the inserted key to the inserted value, plus a linear scan over the public entry lists of the parsed structure");
    rep.assume("Jenkins96 name hashes and MD5 (hash-assigned archive index) are taken from cascette-crypto (property C09 checks those primitives)");
    rep.assume("key bytes outside the enumerated positions are fixed filler bytes (0x77 / 0x33 prefixes); values (sizes, offsets) are a fixed function of the key with boundary values (0, field maximum) at fixed window positions; the seed is not used");
    rep.assume("ChunkedArchiveIndex is probed through files on tmpfs");
    rep.extra(
        "bounds",
        json!({
            "tier": tier.as_str(),
            "window": "8 keys spaced by 2 (every key±1 is a probe), all 256 subsets",
            "fillers_below_window": fills(tier).iter().map(|f| f.name()).collect::<Vec<_>>(),
            "fillers_meaning": "pR-j = p × (records per page/block) − j keys below the window, so that the page boundary falls after j = 0..8 keys of the window region",
            "encoding": {"page_size": "1 KiB", "ekeys_per_ckey": [1, 2, 3], "ckey_capacity": [enc::ckey_cap(1), enc::ckey_cap(2), enc::ckey_cap(3)], "ekey_capacity": 40,
                         "head_tail": tier.pick("(none, all-FF key), (all-zero key, 3 keys above the window), (all-zero record, none)", "{none, all-zero key, all-zero record} × {none, all-FF key, 3 keys above the window}"),
                         "insertion_orders": tier.pick("ascending, interleaved", "ascending, descending, interleaved"), "batch_orders": ["sorted", "reversed", "duplicated"]},
            "archive_index": {"key_sizes": "1..=16", "offset_widths": [4, 5, 6], "records_per_block": "4096 / (key + 4 + offset width) = 157..455",
                              "note": "1-byte keys (256 values) cannot fill a block of 455 records: only filler 0 is enumerated for them",
                              "head_tail": tier.pick("(none, all-FF key), (all-zero key, none), (all-zero record, none — with fillers 0, R, 2R only)", "{none, all-zero key, all-zero record} × {none, all-FF key, 3 keys above the window}"),
                              "insertion_order": "interleaved (the builder sorts)", "odd_length_probes": "empty, key minus last byte, first byte, key plus one byte",
                              "chunked": tier.pick("one head/tail combination per (key size, offset width, filler)", "every case")},
            "archive_group": {"modes": ["ArchiveGroupBuilder::add_entry(+hash assignment)", "add_archive from two parsed indices", "build_merged from two parsed indices"], "records_per_block": 157, "fillers": "0, R-8..R, 2R-8..2R in both tiers",
                              "head_tail": tier.pick("(none, all-FF key), (all-zero key, none), (all-zero record, none)", "3 heads × 3 tails")},
            "root": {"versions": [1, 2, 3, 4], "records": "0..=130", "named": tier.pick("0..=11 and all", "every count 0..=n"), "locale_groups": [1, 2],
                     "fdid_layouts": ["dense from 0", "dense from 1000, inserted descending", "sparse (gaps 70001, last = u32::MAX)", "sparse, inserted descending"],
                     "probes": "every inserted FileDataID and ±1 × 4 locales × 5 content-flag sets; every path × 3 spellings × 4 locales × 3 content-flag sets"},
            "tvfs": {"path_alphabet": tvfs::ALPHABET, "tree_sizes": tier.pick("0..=4 files", "0..=5 files"), "file_counts": tier.pick("0..=24", "0..=24 and ±2 around the 65535-byte container-table switch"),
                     "naming_schemes": ["flat", "shared prefix", "directory chain"], "flag_sets": tvfs::flagsets(tier), "est_tables": "3×4 bytes and 40×8 bytes (> 255: 2-byte index)",
                     "component_lengths": [1, 2, 127, 128, 254, 255, 256, 300, 509, 510, 511]},
            "resolver": {"versions": [1, 2, 3, 4], "records": tier.pick("1..=40", "1..=130"), "ekeys_per_ckey": [1, 2], "unreferenced_ckeys_in_encoding": [0, 30]},
        }),
    );
    // vacuity guards: the alphabets must collide with the thresholds they are built around
    let c = |k: &str| total.counters.get(k).copied().unwrap_or(0);
    let ran = |sec: &str| total.outcomes.iter().next().is_some() && total.counters.keys().any(|k| k.starts_with(sec));
    for (sec, prefix) in [("enc", "enc_ckey_boundary_"), ("arch", "arch_boundary_"), ("group", "group_boundary_")] {
        if ran(sec) {
            for b in BPOS {
                if c(&format!("{prefix}{b}")) == 0 {
                    rep.machinery_error(&format!("vacuous: no case put a page/block boundary at window position {b} ({prefix})"));
                }
            }
        }
    }
    if ran("tvfs") && (c("tvfs_cft_offset_width_1") == 0 || c("tvfs_cft_offset_width_2") == 0) {
        rep.machinery_error("vacuous: TVFS file counts did not straddle the 1→2-byte container offset switch");
    }
    if tier == Tier::Thorough && ran("tvfs") && c("tvfs_cft_offset_width_3") == 0 && c("tvfs_cases_rejected_before_width_3") == 0 {
        rep.machinery_error("vacuous: thorough TVFS file counts did not reach the 2→3-byte container offset switch");
    }
    rep.add_evaluations(total.evals);
    rep.add_nontrivial_count(total.nontrivial);
    for o in &total.outcomes {
        rep.add_outcome(*o);
    }
    for s in &total.samples {
        rep.sample(s.clone());
    }
    rep.extra("cases", json!(total.cases));
    rep.extra("counters", json!(total.counters));
    let mut counts = serde_json::Map::new();
    for (_, (v, n)) in &total.viols {
        let sig = format!("{}|{}", v.key, v.params);
        counts.insert(sig.clone(), json!(n));
        // replay before report: the witness must violate again, with the same group key
        match eval_witness(&v.witness) {
            Some(a) if a.viols.contains_key(&v.key) => {
                rep.violation(
                    v.key.split('|').nth(2).unwrap_or("violation"),
                    &sig,
                    v.witness.clone(),
                    &format!("{} [first witness of {} occurrences in this group]", v.detail, n),
                );
            }
            Some(_) => rep.machinery_error(&format!("violation {sig} did not reproduce on replay")),
            None => rep.machinery_error(&format!("violation {sig}: witness cannot be re-evaluated")),
        }
    }
    rep.extra("violation_occurrences", Value::Object(counts));
    if total.outcomes.len() < 20 {
        rep.machinery_error("vacuous enumeration: fewer than 20 distinct outcomes");
    }
    rep.finish()
}

pub fn replay(w: &Value) -> i32 {
    let wit = &w["witness"];
    println!("replaying case {}", wit["case"]);
    match eval_witness(wit) {
        None => {
            println!("MACHINERY-ERROR: witness not understood");
            2
        }
        Some(a) => {
            if a.viols.is_empty() {
                println!("no violation");
                0
            } else {
                for (_, (v, n)) in &a.viols {
                    println!("violates: {}|{} ({} occurrences in this case)\n  {}", v.key, v.params, n, v.detail);
                }
                1
            }
        }
    }
}
