//! C14, CDN part — `CdnClient::download_with_retry` (third anchor of the property): the
//! mapping of HTTP answers to retryable / non-retryable / rate-limited(+hint) errors and its
//! coupling to `RetryPolicy::execute`.
//!
//! Engine: NET + exhaustive outcome-tree enumeration. The complete tree of *server answer
//! sequences* over a small alphabet is enumerated (a path ends where a correct client stops:
//! first 200, first non-retryable status, or `max_attempts + 1 = 4` answers with the default
//! policy that `download_with_retry` hard-wires). Every complete path is one real
//! `CdnClient::download` (and one `download_archive_index`) against a loopback HTTP endpoint
//! that answers request *i* with element *i* of the path and records the arrival time of
//! every request. The arrival of a request beyond the end of the path is itself a violation.
//!
//! This part runs in **real time** (reqwest needs real sockets), so only what real time can
//! decide soundly is judged:
//!  * number of requests ≤ length of the path (never more than a correct policy);
//!  * the result is Ok(body) iff the last answer served was the 200, else an error of the
//!    class of the last answer served;
//!  * lower bounds on gaps: the gap between the arrival of request i and request i+1 is at
//!    least the Retry-After hint of answer i when it carried a valid integer hint, otherwise
//!    at least d_j = min(100 ms · 2^j, 10 s), j = number of earlier un-hinted gaps. A sleep
//!    never returns early, and machine load only lengthens gaps, so these bounds cannot
//!    false-alarm. Upper bounds are the business of the paused-clock part.

use crate::report::{Report, Tier};
use crate::util::{Scratch, fnv64_str};
use cascette_protocol::cache::ProtocolCache;
use cascette_protocol::error::ProtocolError;
use cascette_protocol::{CacheConfig, CdnClient, CdnConfig, CdnEndpoint, ContentType};
use serde_json::{Value, json};
use std::sync::{Arc, Mutex};
use std::time::{Duration, Instant};
use tokio::io::{AsyncReadExt, AsyncWriteExt};
use tokio::net::TcpListener;

#[derive(Clone, Copy, Debug, PartialEq, Eq, Hash, PartialOrd, Ord)]
pub enum Ans {
    Ok200,
    NotFound404,
    Forbidden403,
    /// a final 3xx (no Location: reqwest hands it through): not in the retryable status list
    NotModified304,
    /// 429 without Retry-After
    Rl,
    /// 429, `Retry-After: 1`
    Rl1,
    /// 429, `Retry-After: 0`
    Rl0,
    /// 429, `Retry-After: soon` (not a valid hint in any syntax: no hint)
    RlJunk,
    Srv503,
    Srv500,
}

const ALL: [Ans; 10] = [Ans::Ok200, Ans::NotFound404, Ans::Forbidden403, Ans::NotModified304, Ans::Rl, Ans::Rl1, Ans::Rl0, Ans::RlJunk, Ans::Srv503, Ans::Srv500];

impl Ans {
    fn name(self) -> &'static str {
        match self {
            Ans::Ok200 => "200",
            Ans::NotFound404 => "404",
            Ans::Forbidden403 => "403",
            Ans::NotModified304 => "304",
            Ans::Rl => "429",
            Ans::Rl1 => "429+Retry-After:1",
            Ans::Rl0 => "429+Retry-After:0",
            Ans::RlJunk => "429+Retry-After:soon",
            Ans::Srv503 => "503",
            Ans::Srv500 => "500",
        }
    }
    fn from_name(s: &str) -> Option<Ans> {
        ALL.iter().copied().find(|a| a.name() == s)
    }
    fn status(self) -> u16 {
        match self {
            Ans::Ok200 => 200,
            Ans::NotFound404 => 404,
            Ans::Forbidden403 => 403,
            Ans::NotModified304 => 304,
            Ans::Rl | Ans::Rl1 | Ans::Rl0 | Ans::RlJunk => 429,
            Ans::Srv503 => 503,
            Ans::Srv500 => 500,
        }
    }
    fn retry_after_header(self) -> Option<&'static str> {
        match self {
            Ans::Rl1 => Some("1"),
            Ans::Rl0 => Some("0"),
            Ans::RlJunk => Some("soon"),
            _ => None,
        }
    }
    /// a valid hint in seconds
    fn hint(self) -> Option<f64> {
        match self {
            Ans::Rl1 => Some(1.0),
            Ans::Rl0 => Some(0.0),
            _ => None,
        }
    }
    fn terminal(self) -> bool {
        matches!(self, Ans::Ok200 | Ans::NotFound404 | Ans::Forbidden403 | Ans::NotModified304)
    }
}

const BODY: &[u8] = b"verif-c14-cdn-body";
/// `download_with_retry` uses `RetryPolicy::default()`: 3 retries, 100 ms, ×2, 10 s
const MAX_REQUESTS: usize = 4;
const INITIAL_S: f64 = 0.1;
const MULT: f64 = 2.0;
const MAX_S: f64 = 10.0;

#[derive(Clone, Copy, Debug, PartialEq, Eq)]
pub enum Entry {
    Download,
    ArchiveIndex,
}

impl Entry {
    fn name(self) -> &'static str {
        match self {
            Entry::Download => "download",
            Entry::ArchiveIndex => "download_archive_index",
        }
    }
}

#[derive(Debug, Clone)]
pub struct CdnObs {
    /// arrival time of every request at the endpoint, relative to the first
    pub arrivals: Vec<f64>,
    /// Ok(len, equals BODY) | Err(class)
    pub result: String,
    pub overrun: bool,
}

fn err_class(e: &ProtocolError) -> String {
    match e {
        ProtocolError::RateLimited { .. } => "err:429".into(),
        ProtocolError::ServerError(s) => format!("err:{}", s.as_u16()),
        ProtocolError::HttpStatus(s) => format!("err:{}", s.as_u16()),
        ProtocolError::ServiceUnavailable => "err:503".into(),
        other => format!("err:other:{}", crate::util::norm_msg(&other.to_string())),
    }
}

struct Served {
    arrivals: Vec<Instant>,
    overrun: bool,
}

async fn serve(listener: TcpListener, path: Vec<Ans>, log: Arc<Mutex<Served>>) {
    loop {
        let Ok((mut s, _)) = listener.accept().await else { break };
        let _ = s.set_nodelay(true);
        let mut buf = Vec::new();
        let mut tmp = [0u8; 2048];
        loop {
            match tokio::time::timeout(Duration::from_secs(20), s.read(&mut tmp)).await {
                Ok(Ok(0)) | Ok(Err(_)) | Err(_) => break,
                Ok(Ok(n)) => {
                    buf.extend_from_slice(&tmp[..n]);
                    if buf.windows(4).any(|w| w == b"\r\n\r\n") {
                        break;
                    }
                }
            }
        }
        if buf.is_empty() {
            continue; // a probe connection without a request is not an attempt
        }
        let idx = {
            let mut l = log.lock().unwrap();
            l.arrivals.push(Instant::now());
            if l.arrivals.len() > path.len() {
                l.overrun = true;
            }
            l.arrivals.len() - 1
        };
        // beyond the script: keep answering with the last answer (so that a runaway client is
        // still counted), but never with a success
        let a = path.get(idx).copied().unwrap_or(Ans::Srv503);
        let ra = a.retry_after_header().map(|v| format!("Retry-After: {v}\r\n")).unwrap_or_default();
        let body: &[u8] = if a == Ans::Ok200 { BODY } else { b"" };
        let head = format!("HTTP/1.1 {} X\r\n{ra}Content-Length: {}\r\nConnection: close\r\n\r\n", a.status(), body.len());
        let _ = s.write_all(head.as_bytes()).await;
        let _ = s.write_all(body).await;
        let _ = s.shutdown().await;
    }
}

/// One real download against a scripted endpoint.
pub async fn run_path(entry: Entry, path: &[Ans]) -> Result<CdnObs, String> {
    let sb = Scratch::new("c14cdn");
    let cache = ProtocolCache::new(&CacheConfig { cache_dir: Some(sb.path().to_path_buf()), ..CacheConfig::default() }).map_err(|e| format!("cache: {e}"))?;
    let client = CdnClient::new(Arc::new(cache), CdnConfig::default()).map_err(|e| format!("client: {e}"))?;
    let listener = TcpListener::bind("127.0.0.1:0").await.map_err(|e| format!("bind: {e}"))?;
    let port = listener.local_addr().map_err(|e| e.to_string())?.port();
    let log = Arc::new(Mutex::new(Served { arrivals: Vec::new(), overrun: false }));
    let task = tokio::spawn(serve(listener, path.to_vec(), log.clone()));
    let ep = CdnEndpoint {
        host: format!("127.0.0.1:{port}"),
        path: "tpr/wow".to_string(),
        product_path: None,
        scheme: Some("http".to_string()),
        is_fallback: false,
        strict: false,
        max_hosts: None,
    };
    let key = [0xabu8; 16];
    let fut = async {
        match entry {
            Entry::Download => client.download(&ep, ContentType::Data, &key).await,
            Entry::ArchiveIndex => client.download_archive_index(&ep, "abababababababababababababababab").await,
        }
    };
    // horizon: 4 attempts, every wait ≤ 1.3 × max(10 s, hint 1 s) — generous real-time cap
    let r = tokio::time::timeout(Duration::from_secs(90), fut).await;
    task.abort();
    let l = log.lock().unwrap();
    let t0 = l.arrivals.first().copied();
    let arrivals = l.arrivals.iter().map(|t| t.duration_since(t0.unwrap_or(*t)).as_secs_f64()).collect();
    let result = match r {
        Err(_) => "timeout-90s".to_string(),
        Ok(Ok(d)) => format!("ok:{}:{}", d.len(), d == BODY),
        Ok(Err(e)) => err_class(&e),
    };
    Ok(CdnObs { arrivals, result, overrun: l.overrun })
}

pub struct CdnVio {
    pub kind: &'static str,
    pub sig: String,
    pub detail: String,
}

fn path_str(path: &[Ans]) -> String {
    path.iter().map(|a| a.name()).collect::<Vec<_>>().join(",")
}

pub fn judge(entry: Entry, path: &[Ans], obs: &CdnObs) -> Vec<CdnVio> {
    let mut v = Vec::new();
    let n = obs.arrivals.len();
    let ps = path_str(path);
    if obs.overrun || n > path.len() {
        let why = if path.last().is_some_and(|a| a.terminal()) {
            "continued after the first success / non-retryable answer"
        } else {
            "more than max_attempts + 1 = 4 requests"
        };
        v.push(CdnVio {
            kind: "too-many-attempts",
            sig: format!("cdn|{}|too-many-requests|after:{}", entry.name(), path.last().map_or("", |a| a.name())),
            detail: format!("{}: answers [{ps}] — {n} requests arrived: {why}", entry.name()),
        });
    }
    if obs.result == "timeout-90s" {
        v.push(CdnVio {
            kind: "hang",
            sig: format!("cdn|{}|no-return-in-90s", entry.name()),
            detail: format!("{}: answers [{ps}] — the call did not return within 90 s of real time (4 attempts, waits ≤ 13 s each)", entry.name()),
        });
        return v;
    }
    // result must be that of the last answer served
    if n >= 1 && n <= path.len() {
        let last = path[n - 1];
        let want = if last == Ans::Ok200 { format!("ok:{}:true", BODY.len()) } else { format!("err:{}", last.status()) };
        if obs.result != want {
            v.push(CdnVio {
                kind: "wrong-result",
                sig: format!("cdn|{}|result|last-answer:{}|got:{}", entry.name(), last.name(), obs.result.split(':').take(2).collect::<Vec<_>>().join(":")),
                detail: format!("{}: answers [{ps}] — {n} requests served, last answer {}, call returned {} (expected {want})", entry.name(), last.name(), obs.result),
            });
        }
    }
    // gap lower bounds
    let mut unhinted_before = 0u32;
    for i in 0..n.saturating_sub(1).min(path.len()) {
        let gap = obs.arrivals[i + 1] - obs.arrivals[i];
        let a = path[i];
        let (lb, what) = match a.hint() {
            Some(h) => (h, "Retry-After hint"),
            None => {
                let d = (INITIAL_S * MULT.powi(unhinted_before as i32)).min(MAX_S);
                unhinted_before += 1;
                (d, "exponential backoff")
            }
        };
        // 0.5 ms: nothing real can be that close; Instant is monotonic
        if gap + 0.0005 < lb {
            v.push(CdnVio {
                kind: "wait-too-short",
                sig: format!("cdn|{}|gap-below-{}|after:{}|gap#{}", entry.name(), what.replace(' ', "-"), a.name(), i),
                detail: format!("{}: answers [{ps}] — request {} arrived {:.1} ms after request {} (answer {}); the {what} requires at least {:.0} ms", entry.name(), i + 2, gap * 1e3, i + 1, a.name(), lb * 1e3),
            });
        }
    }
    v
}

fn alphabet(tier: Tier) -> Vec<Ans> {
    match tier {
        Tier::Quick => vec![Ans::Ok200, Ans::NotFound404, Ans::NotModified304, Ans::Rl, Ans::Rl1, Ans::RlJunk, Ans::Srv503],
        Tier::Thorough => ALL.to_vec(),
    }
}

fn tree(alpha: &[Ans]) -> Vec<Vec<Ans>> {
    let mut out = Vec::new();
    let mut stack: Vec<Vec<Ans>> = vec![Vec::new()];
    while let Some(p) = stack.pop() {
        for a in alpha {
            let mut q = p.clone();
            q.push(*a);
            if a.terminal() || q.len() == MAX_REQUESTS {
                out.push(q);
            } else {
                stack.push(q);
            }
        }
    }
    out.sort();
    out
}

pub fn witness(entry: Entry, path: &[Ans], obs: &CdnObs) -> Value {
    json!({
        "mode": "cdn",
        "entry": entry.name(),
        "answers": path.iter().map(|a| a.name()).collect::<Vec<_>>(),
        "observed_request_arrivals_s": obs.arrivals,
        "observed_result": obs.result,
    })
}

/// Runs the whole tree; all paths run concurrently (they mostly sleep).
pub fn run_part(rep: &Report, tier: Tier) {
    let alpha = alphabet(tier);
    let paths = tree(&alpha);
    let mut jobs: Vec<(Entry, Vec<Ans>)> = Vec::new();
    for p in &paths {
        jobs.push((Entry::Download, p.clone()));
        // the second entry point shares download_with_retry: quick runs it on the paths without a 1 s hint
        if tier == Tier::Thorough || !p.contains(&Ans::Rl1) {
            jobs.push((Entry::ArchiveIndex, p.clone()));
        }
    }
    let rt = tokio::runtime::Builder::new_multi_thread().worker_threads(crate::util::workers().max(2)).enable_all().build().expect("tokio rt");
    let sem = Arc::new(tokio::sync::Semaphore::new(192));
    let results: Vec<(Entry, Vec<Ans>, Result<CdnObs, String>)> = rt.block_on(async {
        let mut hs = Vec::new();
        for (e, p) in jobs {
            let sem = sem.clone();
            hs.push(tokio::spawn(async move {
                let _permit = sem.acquire_owned().await;
                let r = run_path(e, &p).await;
                (e, p, r)
            }));
        }
        let mut out = Vec::new();
        for h in hs {
            match h.await {
                Ok(x) => out.push(x),
                Err(e) => rep.machinery_error(&format!("cdn part: task failed: {e}")),
            }
        }
        out
    });
    let mut nontrivial = 0u64;
    let mut requests = 0u64;
    let mut vios: Vec<(usize, CdnVio, Value)> = Vec::new();
    let mut sampled = 0;
    for (e, p, r) in &results {
        match r {
            Err(m) => rep.machinery_error(&format!("cdn part: {m}")),
            Ok(obs) => {
                requests += obs.arrivals.len() as u64;
                if obs.arrivals.len() >= 2 {
                    nontrivial += 1;
                }
                if obs.arrivals.is_empty() {
                    rep.machinery_error(&format!("cdn part: no request reached the endpoint for [{}]", path_str(p)));
                }
                rep.add_outcome(fnv64_str(&format!("cdn|{}|{}|{}|{}", e.name(), path_str(p), obs.arrivals.len(), obs.result)));
                if sampled < 2 && p.len() == MAX_REQUESTS && p.contains(&Ans::Rl) {
                    rep.sample(witness(*e, p, obs));
                    sampled += 1;
                }
                for x in judge(*e, p, obs) {
                    vios.push((p.len(), x, witness(*e, p, obs)));
                }
            }
        }
    }
    vios.sort_by_key(|x| x.0);
    for (_, x, w) in &vios {
        rep.violation(x.kind, &x.sig, w.clone(), &x.detail);
    }
    let n = results.len() as u64;
    // nodes of the tree: distinct non-empty prefixes
    let mut prefixes = std::collections::BTreeSet::new();
    for p in &paths {
        for k in 1..=p.len() {
            prefixes.insert(p[..k].to_vec());
        }
    }
    rep.add_states(prefixes.len() as u64);
    rep.add_transitions(requests);
    rep.add_traces(n);
    rep.add_evaluations(n);
    rep.add_nontrivial_count(nontrivial);
    rep.extra(
        "cdn_part",
        json!({
            "what": "complete tree of server answer sequences against the real CdnClient::download / download_archive_index over loopback HTTP, real time, lower-bound oracle on gaps",
            "answer_alphabet": alpha.iter().map(|a| a.name()).collect::<Vec<_>>(),
            "depth": "a path ends at the first 200/403/404 or after 4 answers (default policy: 3 retries)",
            "complete_paths": paths.len(),
            "executions": n,
            "requests_served": requests,
            "not_judged_here": "upper bounds on waits (real time under load); they are judged exactly under the paused clock on RetryPolicy::execute",
        }),
    );
}

pub fn replay(w: &Value) -> i32 {
    let entry = if w["entry"] == "download_archive_index" { Entry::ArchiveIndex } else { Entry::Download };
    let path: Vec<Ans> = w["answers"].as_array().map(|a| a.iter().filter_map(|s| Ans::from_name(s.as_str().unwrap_or(""))).collect()).unwrap_or_default();
    println!("replaying CdnClient::{} against an endpoint answering [{}]", entry.name(), path_str(&path));
    let rt = tokio::runtime::Builder::new_multi_thread().worker_threads(2).enable_all().build().expect("tokio rt");
    match rt.block_on(run_path(entry, &path)) {
        Err(m) => {
            println!("MACHINERY-ERROR: {m}");
            2
        }
        Ok(obs) => {
            println!("observed: request arrivals {:?} s, result {}", obs.arrivals, obs.result);
            let v = judge(entry, &path, &obs);
            if v.is_empty() {
                println!("no violation");
                0
            } else {
                for x in &v {
                    println!("violates: {} [{}]: {}", x.kind, x.sig, x.detail);
                }
                1
            }
        }
    }
}
