//! C14 — retries are bounded, ordered and respect back-off limits.
//!
//! Engine: exhaustive outcome-tree enumeration. For every policy on the grid the complete
//! tree of outcome sequences is enumerated (a path ends where a *correct* policy stops:
//! first Ok, first non-retryable error, or `max_attempts + 1` invocations). Every complete
//! path is executed on the real `RetryPolicy::execute` under tokio's paused clock (pure
//! timers, no I/O: the virtual clock is exact up to the 1 ms granularity of tokio's timer
//! wheel). The scripted closure pops the next outcome and records the virtual time. A closure
//! invocation beyond the end of the script ("overrun") is itself a violation, so the
//! implementation decides where it stops — the enumeration only predicts it.
//!
//! states = distinct (policy, outcome-prefix) nodes of the trees, transitions = closure
//! invocations executed, traces = complete paths run.
//!
//! Oracle (no more than the property text):
//!  * invocations ≤ max_attempts + 1; the call stops at the first Ok and at the first
//!    non-retryable error and returns exactly that result, else the last error;
//!  * a gap after a rate-limited outcome with Retry-After hint h lies in [h, 1.3 h];
//!  * every other gap is ≤ 1.3 × max_backoff;
//!  * for sane policies (finite multiplier ≥ 1, initial ≤ max) an un-hinted gap lies in
//!    [d_j, 1.3 d_i] with d_k = min(initial × multiplier^k, max), i = index of the gap,
//!    j = number of earlier un-hinted gaps (the text does not say whether a hinted wait
//!    advances the exponent — both readings are accepted);
//!  * no panic; the call returns in bounded virtual time.
//! Upper bounds get +1 ms (timer granularity) and all bounds a 1 µs + 1e-9 relative float
//! tolerance. Jitter is only ever judged through these intervals.
//! Waits that the *configuration itself* makes astronomically long (max_backoff of 2^64 s from
//! the environment) are not alarms: the clause is "≤ 1.3 × max_backoff", nothing more.

use crate::report::{Level, Report, Tier};
use crate::util::{catch, fnv64_str, norm_msg, par_map};
use cascette_protocol::error::ProtocolError;
use cascette_protocol::retry::RetryPolicy;
use serde_json::{Value, json};
use std::cell::RefCell;
use std::collections::BTreeMap;
use std::time::Duration;

// ---------------------------------------------------------------------------------------
// outcome alphabet
// ---------------------------------------------------------------------------------------

#[derive(Clone, Copy, Debug, PartialEq, Eq, Hash, PartialOrd, Ord)]
pub enum Out {
    /// `Ok(i)`
    Ok,
    /// retryable: `ServerError(500 + i)` — the status carries the attempt index so that
    /// "returns the *last* error" is observable
    Srv,
    /// retryable through the `HttpStatus` arm of `should_retry`: `HttpStatus(503)`
    Http503,
    /// retryable: `Timeout`
    Timeout,
    /// rate limited without Retry-After
    RlNone,
    /// rate limited, Retry-After: 0
    Rl0,
    /// rate limited, Retry-After: 5
    Rl5,
    /// rate limited, Retry-After: 18446744073709551615 (what `parse_retry_after` accepts at most)
    RlHuge,
    /// non-retryable: `HttpStatus(404)`
    NotFound,
    /// non-retryable: `Parse`
    Parse,
}

impl Out {
    fn continuing(self) -> bool {
        !matches!(self, Out::Ok | Out::NotFound | Out::Parse)
    }
    fn hint(self) -> Option<Duration> {
        match self {
            Out::Rl0 => Some(Duration::ZERO),
            Out::Rl5 => Some(Duration::from_secs(5)),
            Out::RlHuge => Some(Duration::from_secs(u64::MAX)),
            _ => None,
        }
    }
    fn name(self) -> &'static str {
        match self {
            Out::Ok => "Ok",
            Out::Srv => "ServerError",
            Out::Http503 => "HttpStatus503",
            Out::Timeout => "Timeout",
            Out::RlNone => "RateLimited(none)",
            Out::Rl0 => "RateLimited(0s)",
            Out::Rl5 => "RateLimited(5s)",
            Out::RlHuge => "RateLimited(u64max s)",
            Out::NotFound => "HttpStatus404",
            Out::Parse => "Parse",
        }
    }
    fn from_name(s: &str) -> Option<Out> {
        ALL_OUT.iter().copied().find(|o| o.name() == s)
    }
    /// The value the scripted closure returns at attempt `i`.
    fn produce(self, i: usize) -> Result<u32, ProtocolError> {
        let status = |c: u16| c.try_into().expect("valid status code");
        match self {
            Out::Ok => Ok(i as u32),
            Out::Srv => Err(ProtocolError::ServerError(status(500 + (i as u16).min(11)))),
            Out::Http503 => Err(ProtocolError::HttpStatus(status(503))),
            Out::Timeout => Err(ProtocolError::Timeout),
            Out::RlNone => Err(ProtocolError::RateLimited { retry_after: None }),
            Out::Rl0 | Out::Rl5 | Out::RlHuge => Err(ProtocolError::RateLimited { retry_after: self.hint() }),
            Out::NotFound => Err(ProtocolError::HttpStatus(status(404))),
            Out::Parse => Err(ProtocolError::Parse(format!("attempt {i}"))),
        }
    }
    /// Canonical description of the value `produce(i)` returns, for comparison with what
    /// `execute` hands back.
    fn describe(self, i: usize) -> String {
        describe_result(&self.produce(i))
    }
}

const ALL_OUT: [Out; 10] = [
    Out::Ok,
    Out::Srv,
    Out::Http503,
    Out::Timeout,
    Out::RlNone,
    Out::Rl0,
    Out::Rl5,
    Out::RlHuge,
    Out::NotFound,
    Out::Parse,
];

fn describe_result(r: &Result<u32, ProtocolError>) -> String {
    match r {
        Ok(v) => format!("Ok({v})"),
        Err(ProtocolError::ServerError(s)) => format!("ServerError({})", s.as_u16()),
        Err(ProtocolError::HttpStatus(s)) => format!("HttpStatus({})", s.as_u16()),
        Err(ProtocolError::Timeout) => "Timeout".into(),
        Err(ProtocolError::RateLimited { retry_after }) => format!("RateLimited({retry_after:?})"),
        Err(ProtocolError::Parse(m)) => format!("Parse({m})"),
        Err(e) => format!("other({e})"),
    }
}

// ---------------------------------------------------------------------------------------
// policies
// ---------------------------------------------------------------------------------------

#[derive(Clone, Debug)]
pub struct Pol {
    pub max_attempts: u32,
    pub initial: Duration,
    pub max: Duration,
    pub mult: f64,
    pub jitter: bool,
    /// where the policy came from ("grid" / "env")
    pub origin: &'static str,
}

impl Pol {
    fn real(&self) -> RetryPolicy {
        RetryPolicy {
            max_attempts: self.max_attempts,
            initial_backoff: self.initial,
            max_backoff: self.max,
            multiplier: self.mult,
            jitter: self.jitter,
        }
    }
    fn key(&self) -> String {
        format!(
            "{}|{}|{}|{:016x}|{}",
            self.max_attempts,
            self.initial.as_nanos(),
            self.max.as_nanos(),
            self.mult.to_bits(),
            self.jitter
        )
    }
    fn to_json(&self) -> Value {
        json!({
            "max_attempts": self.max_attempts,
            "initial_backoff_ns": self.initial.as_nanos().to_string(),
            "max_backoff_ns": self.max.as_nanos().to_string(),
            "multiplier": format!("{:?}", self.mult),
            "multiplier_bits": format!("{:016x}", self.mult.to_bits()),
            "jitter": self.jitter,
            "origin": self.origin,
        })
    }
    fn from_json(v: &Value) -> Option<Pol> {
        let ns = |k: &str| -> Option<Duration> {
            let n: u128 = v[k].as_str()?.parse().ok()?;
            Some(Duration::new((n / 1_000_000_000) as u64, (n % 1_000_000_000) as u32))
        };
        Some(Pol {
            max_attempts: v["max_attempts"].as_u64()? as u32,
            initial: ns("initial_backoff_ns")?,
            max: ns("max_backoff_ns")?,
            mult: f64::from_bits(u64::from_str_radix(v["multiplier_bits"].as_str()?, 16).ok()?),
            jitter: v["jitter"].as_bool()?,
            origin: "replay",
        })
    }
    fn sane(&self) -> bool {
        self.mult.is_finite() && self.mult >= 1.0 && self.initial <= self.max
    }
    fn mult_class(&self) -> &'static str {
        let m = self.mult;
        if m.is_nan() {
            "nan"
        } else if m == f64::INFINITY {
            "+inf"
        } else if m < 0.0 {
            "negative"
        } else if m == 0.0 {
            "zero"
        } else if m < 1.0 {
            "(0,1)"
        } else if m == 1.0 {
            "one"
        } else if m >= 1e100 {
            "huge"
        } else {
            ">1"
        }
    }
}

/// Durations from here on (~115 days) are "astronomical": tokio's timer wheel supports
/// deadlines up to 2^36 ms (≈ 2.2 years) ahead — beyond that entries are clamped and, when the
/// clock then comes within range of one, `Wheel::remove` looks for it on the wrong level
/// (observed as a SIGSEGV in tokio 1.49 while building this check). The harness therefore
/// never lets the virtual clock advance more than `WATCHDOG` (200 days) per execution; a wait
/// that is still pending then is judged through its lower bound only.
const HUGE_SECS: f64 = 1.0e7;
const WATCHDOG: Duration = Duration::from_secs(200 * 86_400);

// ---------------------------------------------------------------------------------------
// one execution under the paused clock
// ---------------------------------------------------------------------------------------

#[derive(Debug, Clone)]
pub struct Obs {
    /// virtual time of every closure invocation, relative to the start of `execute`
    pub times: Vec<Duration>,
    /// the closure was invoked after the script was exhausted
    pub overrun: bool,
    pub result: Option<String>,
    pub panic: Option<String>,
    /// virtual watchdog fired: (virtual time elapsed since start)
    pub watchdog: Option<Duration>,
}

fn new_rt() -> tokio::runtime::Runtime {
    tokio::runtime::Builder::new_current_thread()
        .enable_all()
        .start_paused(true)
        .build()
        .expect("paused tokio runtime")
}


/// Run `execute` with the scripted outcomes. Returns the observation and whether the runtime
/// must be replaced (after a panic unwound through `block_on`).
fn run_path(rt: &tokio::runtime::Runtime, pol: &Pol, script: &[Out]) -> (Obs, bool) {
    let times: RefCell<Vec<Duration>> = RefCell::new(Vec::new());
    let overrun = std::cell::Cell::new(false);
    let real = pol.real();
    let watchdog = WATCHDOG;
    let r = catch(|| {
        rt.block_on(async {
            let t0 = tokio::time::Instant::now();
            let fut = real.execute(|| {
                let i = times.borrow().len();
                times.borrow_mut().push(tokio::time::Instant::now() - t0);
                let o = script.get(i).copied();
                if o.is_none() {
                    overrun.set(true);
                }
                async move {
                    match o {
                        Some(o) => o.produce(i),
                        // beyond the script: terminate the call
                        None => Ok(u32::MAX),
                    }
                }
            });
            match tokio::time::timeout(watchdog, fut).await {
                Ok(res) => (Some(res), tokio::time::Instant::now() - t0),
                Err(_) => (None, tokio::time::Instant::now() - t0),
            }
        })
    });
    let times_v = times.borrow().clone();
    match r {
        Ok((Some(res), _)) => (
            Obs { times: times_v, overrun: overrun.get(), result: Some(describe_result(&res)), panic: None, watchdog: None },
            false,
        ),
        // after a watchdog the virtual clock of this runtime is centuries ahead; start afresh
        Ok((None, el)) => (
            Obs { times: times_v, overrun: overrun.get(), result: None, panic: None, watchdog: Some(el) },
            true,
        ),
        Err(msg) => (
            Obs { times: times_v, overrun: overrun.get(), result: None, panic: Some(msg), watchdog: None },
            true,
        ),
    }
}

// ---------------------------------------------------------------------------------------
// oracle
// ---------------------------------------------------------------------------------------

#[derive(Debug, Clone)]
pub struct Vio {
    pub kind: &'static str,
    pub sig: String,
    pub detail: String,
}

fn secs(d: Duration) -> f64 {
    d.as_secs_f64()
}

const GRANULARITY: f64 = 0.001; // tokio timer wheel: 1 ms
fn lo(x: f64) -> f64 {
    x * (1.0 - 1e-9) - 1e-6
}
fn hi(x: f64) -> f64 {
    x * 1.3 * (1.0 + 1e-9) + 1e-6 + GRANULARITY
}

/// Reference back-off sequence d_k = min(d_{k-1} × multiplier, max), d_0 = initial
/// (only used for sane policies: finite multiplier ≥ 1, initial ≤ max).
fn ref_backoffs(pol: &Pol, n: usize) -> Vec<f64> {
    let mut v = Vec::with_capacity(n);
    let mut d = secs(pol.initial);
    let max = secs(pol.max);
    for _ in 0..n {
        v.push(d);
        d = (d * pol.mult).min(max);
    }
    v
}

/// `script` is a complete path of the reference tree.
pub fn judge(pol: &Pol, script: &[Out], obs: &Obs) -> Vec<Vio> {
    let mut out = Vec::new();
    let jit = if pol.jitter { "jitter-on" } else { "jitter-off" };

    if let Some(msg) = &obs.panic {
        out.push(Vio {
            kind: "panic",
            sig: format!("panic:{}", norm_msg(msg)),
            detail: format!(
                "execute panicked after {} invocation(s): {msg}",
                obs.times.len()
            ),
        });
    }

    let n = obs.times.len();
    // gaps actually observed
    let d_ref = ref_backoffs(pol, n.max(1));
    let max_s = secs(pol.max);
    let mut unhinted_before = 0usize;
    for g in 0..n.saturating_sub(1) {
        let gap = secs(obs.times[g + 1] - obs.times[g]);
        let o = script.get(g).copied();
        let Some(o) = o else { break };
        check_gap(pol, jit, g, o, gap, false, &d_ref, max_s, unhinted_before, &mut out);
        if o.hint().is_none() {
            unhinted_before += 1;
        }
    }

    if let Some(el) = obs.watchdog {
        // the call did not return within the virtual watchdog: the pending wait is a lower
        // bound for the gap after the last invocation
        if n >= 1 {
            let g = n - 1;
            let pending = secs(el) - secs(obs.times[g]);
            if let Some(o) = script.get(g).copied() {
                check_gap(pol, jit, g, o, pending, true, &d_ref, max_s, unhinted_before, &mut out);
            }
        } else {
            out.push(Vio {
                kind: "no-progress",
                sig: "no-progress:closure-never-invoked".into(),
                detail: "execute did not invoke the operation within the virtual watchdog".into(),
            });
        }
        // nothing else can be judged
        return out;
    }
    if obs.panic.is_some() {
        // attempt-count and result clauses are moot once the call has panicked; the gaps
        // observed before the panic were judged above
        if n > pol.max_attempts as usize + 1 {
            out.push(too_many(pol, n));
        }
        return out;
    }

    // attempt bound
    if n > pol.max_attempts as usize + 1 {
        out.push(too_many(pol, n));
    }
    // stop position: the reference path is exactly `script`
    if obs.overrun || n > script.len() {
        let last = script.last().copied().unwrap_or(Out::Ok);
        let why = if last.continuing() { "after-retries-exhausted" } else { "after-terminal-outcome" };
        out.push(Vio {
            kind: "continued-past-stop",
            sig: format!("continued-past-stop:{why}:last={}", last.name()),
            detail: format!(
                "operation invoked {n} times for a path of {} outcomes that ends with {} (max_attempts={})",
                script.len(),
                last.name(),
                pol.max_attempts
            ),
        });
    } else if n < script.len() {
        let stopped_on = script[n.saturating_sub(1)];
        out.push(Vio {
            kind: "stopped-early",
            sig: format!(
                "stopped-early:on={}:{}",
                stopped_on.name(),
                if n == pol.max_attempts as usize { "one-attempt-short" } else { "mid-path" }
            ),
            detail: format!(
                "operation invoked {n} times, the policy should have reached invocation {} (max_attempts={}, outcome at the stop: {})",
                script.len(),
                pol.max_attempts,
                stopped_on.name()
            ),
        });
    } else {
        // n == script.len(): the result must be exactly the last outcome
        let want = script[n - 1].describe(n - 1);
        let got = obs.result.clone().unwrap_or_default();
        if want != got {
            let earlier = (0..n - 1).any(|k| script[k].describe(k) == got);
            let got_class = if earlier { "result-of-an-earlier-attempt".to_string() } else { norm_msg(&got) };
            out.push(Vio {
                kind: "wrong-result",
                sig: format!("wrong-result:last={}:got={got_class}", if script[n - 1].continuing() { "retryable-error" } else { script[n - 1].name() }),
                detail: format!("execute returned {got}, the last outcome (attempt {}) was {want}", n - 1),
            });
        }
    }
    out
}

fn too_many(pol: &Pol, n: usize) -> Vio {
    Vio {
        kind: "too-many-attempts",
        sig: format!("too-many-attempts:+{}", n - (pol.max_attempts as usize + 1)),
        detail: format!("operation invoked {n} times with max_attempts={}", pol.max_attempts),
    }
}

#[allow(clippy::too_many_arguments)]
fn check_gap(
    pol: &Pol,
    jit: &str,
    g: usize,
    o: Out,
    gap: f64,
    lower_bound_only: bool,
    d_ref: &[f64],
    max_s: f64,
    unhinted_before: usize,
    out: &mut Vec<Vio>,
) {
    // `lower_bound_only`: `gap` is only known to be ≥ the value (watchdog) — upper clauses can
    // be judged, lower clauses cannot.
    if let Some(h) = o.hint() {
        let h = secs(h);
        if h >= HUGE_SECS {
            // the virtual clock is never advanced that far: if the operation was nevertheless
            // invoked again, the hint was not honoured; otherwise only the no-panic clause applies
            if !lower_bound_only {
                out.push(Vio {
                    kind: "gap-below-hint",
                    sig: format!("gap-below-hint:{}:{jit}", o.name()),
                    detail: format!("gap {g} after {} was {gap:.6}s, Retry-After hint {h}s", o.name()),
                });
            }
            return;
        }
        if !lower_bound_only && gap < lo(h) {
            out.push(Vio {
                kind: "gap-below-hint",
                sig: format!("gap-below-hint:{}:{jit}", o.name()),
                detail: format!("gap {g} after {} was {gap:.6}s, Retry-After hint {h}s", o.name()),
            });
        }
        if gap > hi(h) {
            out.push(Vio {
                kind: "gap-above-hint",
                sig: format!("gap-above-hint:{}:{jit}", o.name()),
                detail: format!("gap {g} after {} was {gap:.6}s, Retry-After hint {h}s (+30% jitter allowed)", o.name()),
            });
        }
        return;
    }
    // un-hinted gap
    if max_s < HUGE_SECS && gap > hi(max_s) {
        let cause = if g == 0 && pol.initial > pol.max {
            "first-wait-uses-initial>max".to_string()
        } else if pol.initial > pol.max {
            format!("later-wait:initial>max:mult={}", pol.mult_class())
        } else {
            format!("gap{}:mult={}", g.min(3), pol.mult_class())
        };
        out.push(Vio {
            kind: "gap-above-max",
            sig: format!("gap-above-max:{cause}"),
            detail: format!(
                "gap {g} {} {gap:.6}s with max_backoff={max_s}s initial_backoff={}s multiplier={:?} {jit}",
                if lower_bound_only { "was at least" } else { "was" },
                secs(pol.initial),
                pol.mult
            ),
        });
        return;
    }
    if pol.sane() && d_ref[g.min(d_ref.len() - 1)] < HUGE_SECS {
        let d_hi = d_ref[g.min(d_ref.len() - 1)];
        let d_lo = d_ref[unhinted_before.min(d_ref.len() - 1)];
        if !lower_bound_only && gap < lo(d_lo) {
            out.push(Vio {
                kind: "gap-below-backoff",
                sig: format!("gap-below-backoff:mult={}:{jit}", pol.mult_class()),
                detail: format!(
                    "gap {g} was {gap:.6}s, expected at least min(initial×mult^{unhinted_before}, max) = {d_lo}s (initial={}s max={max_s}s mult={:?})",
                    secs(pol.initial),
                    pol.mult
                ),
            });
        }
        if gap > hi(d_hi) {
            out.push(Vio {
                kind: "gap-above-backoff",
                sig: format!("gap-above-backoff:mult={}:{jit}", pol.mult_class()),
                detail: format!(
                    "gap {g} {} {gap:.6}s, expected at most 1.3 × min(initial×mult^{g}, max) = 1.3 × {d_hi}s (initial={}s max={max_s}s mult={:?})",
                    if lower_bound_only { "was at least" } else { "was" },
                    secs(pol.initial),
                    pol.mult
                ),
            });
        }
    }
}

// ---------------------------------------------------------------------------------------
// tree enumeration for one policy
// ---------------------------------------------------------------------------------------

#[derive(Default)]
struct PolStats {
    nodes: u64,
    paths: u64,
    invocations: u64,
    outcomes: Vec<u64>,
    vios: Vec<(Vio, Vec<Out>, Obs)>,
    sample: Option<Value>,
    long_waits_by_config: u64,
    nontrivial: u64,
    pruned_nodes: u64,
}

fn explore_policy(pol: &Pol, alphabet: &[Out]) -> PolStats {
    let mut st = PolStats::default();
    let mut rt = RtBox::new();
    let limit = pol.max_attempts as usize + 1; // a correct policy never invokes more often
    let mut prefix: Vec<Out> = Vec::new();
    st.nodes += 1; // the root (policy, empty prefix)
    let _ = dfs(pol, alphabet, limit, &mut prefix, &mut rt, &mut st);
    st
}

/// Returns `Some(j)` when the execution just run showed that the call never invokes the
/// operation again after its first `j` outcomes (it panicked, or it was still waiting when the
/// virtual watchdog fired): every other path with the same first `j` outcomes is the *same*
/// execution as far as the implementation can tell, so the caller stops enumerating below
/// that prefix.
fn dfs(pol: &Pol, alphabet: &[Out], limit: usize, prefix: &mut Vec<Out>, rt: &mut RtBox, st: &mut PolStats) -> Option<usize> {
    let depth = prefix.len();
    for &o in alphabet {
        prefix.push(o);
        st.nodes += 1;
        // a Retry-After of 2^64-1 s ends every conforming execution in an astronomical wait:
        // the subtree below it is unreachable; one continuation (Ok) is kept so that an
        // implementation that does *not* wait is seen
        let leaf_after_huge = prefix.len() >= 2 && prefix[prefix.len() - 2] == Out::RlHuge;
        if leaf_after_huge && o != Out::Ok {
            st.nodes -= 1;
            prefix.pop();
            continue;
        }
        let complete = !o.continuing() || prefix.len() >= limit;
        let mut dead: Option<usize> = None;
        if complete {
            if std::env::var_os("VERIF_C14_TRACE").is_some() {
                eprintln!("path {:?}", prefix.iter().map(|o| o.name()).collect::<Vec<_>>());
            }
            let (obs, replace) = run_path(rt.get(), pol, prefix);
            rt.virtual_s += obs.times.last().map_or(0.0, |t| secs(*t));
            if replace || rt.virtual_s > 30.0 * 86_400.0 {
                rt.renew();
            }
            st.paths += 1;
            if prefix.len() >= 2 {
                st.nontrivial += 1;
            }
            st.invocations += obs.times.len() as u64;
            if obs.watchdog.is_some() && secs(pol.max) >= HUGE_SECS {
                st.long_waits_by_config += 1;
            }
            if (obs.watchdog.is_some() || obs.panic.is_some()) && obs.times.len() < prefix.len() {
                dead = Some(obs.times.len());
            }
            let vios = judge(pol, prefix, &obs);
            // outcome fingerprint for the vacuity guard: invocation count, result, gap classes
            let gaps: Vec<String> = obs
                .times
                .windows(2)
                .map(|w| format!("{:.3}", secs(w[1] - w[0]).min(1e6)))
                .collect();
            let fp = if pol.jitter {
                format!("{}|{:?}|{}", obs.times.len(), obs.result, obs.panic.is_some())
            } else {
                format!("{}|{:?}|{}|{gaps:?}", obs.times.len(), obs.result, obs.panic.is_some())
            };
            st.outcomes.push(fnv64_str(&fp));
            if st.sample.is_none() && prefix.len() >= 3 && vios.is_empty() {
                st.sample = Some(json!({
                    "policy": pol.to_json(),
                    "path": prefix.iter().map(|o| o.name()).collect::<Vec<_>>(),
                    "invocation_times_s": obs.times.iter().map(|t| secs(*t)).collect::<Vec<_>>(),
                    "result": obs.result,
                }));
            }
            for v in vios {
                if st.vios.len() < 64 || !st.vios.iter().any(|(x, _, _)| x.sig == v.sig) {
                    st.vios.push((v, prefix.clone(), obs.clone()));
                }
            }
        } else {
            dead = dfs(pol, alphabet, limit, prefix, rt, st);
        }
        prefix.pop();
        if let Some(j) = dead {
            if j <= depth {
                // this whole node lies below the dead prefix
                st.pruned_nodes += 1;
                return Some(j);
            }
            // j == depth + 1: only the child just finished is dead — go on with its siblings
        }
    }
    None
}

/// A paused runtime plus the virtual time it has accumulated (it is renewed after a panic,
/// after a watchdog, and every 30 virtual days so that its wheel never comes near deadlines
/// that tokio had to clamp).
struct RtBox {
    rt: tokio::runtime::Runtime,
    virtual_s: f64,
}

impl RtBox {
    fn new() -> RtBox {
        RtBox { rt: new_rt(), virtual_s: 0.0 }
    }
    fn get(&self) -> &tokio::runtime::Runtime {
        &self.rt
    }
    fn renew(&mut self) {
        self.rt = new_rt();
        self.virtual_s = 0.0;
    }
}

// ---------------------------------------------------------------------------------------
// policy grids
// ---------------------------------------------------------------------------------------

fn ms(n: u64) -> Duration {
    Duration::from_millis(n)
}

fn grid(tier: Tier) -> Vec<Pol> {
    let attempts: Vec<u32> = (0..=5).collect();
    let initials = [Duration::ZERO, ms(1), ms(100), Duration::from_secs(20)];
    let maxes = [Duration::ZERO, ms(1), Duration::from_secs(10)];
    let mults: Vec<f64> = vec![0.0, 0.5, 1.0, 2.0, 10.0, 1e308, f64::INFINITY, f64::NAN, -1.0];
    let jitters: &[bool] = &[false, true];
    let _ = tier;
    let mut v = Vec::new();
    for &a in &attempts {
        for &i in &initials {
            for &m in &maxes {
                for &x in &mults {
                    for &j in jitters {
                        v.push(Pol { max_attempts: a, initial: i, max: m, mult: x, jitter: j, origin: "grid" });
                    }
                }
            }
        }
    }
    v
}

// --- from_env -------------------------------------------------------------------------

const ENV_VARS: [&str; 5] = [
    "CASCETTE_MAX_RETRIES",
    "CASCETTE_RETRY_BACKOFF",
    "CASCETTE_MAX_BACKOFF",
    "CASCETTE_BACKOFF_MULTIPLIER",
    "CASCETTE_RETRY_JITTER",
];

/// (string or unset, expected parsed value or None = documented default applies)
type EnvCase<T> = (Option<&'static str>, Option<T>);

fn env_retries() -> Vec<EnvCase<u32>> {
    vec![
        (None, None),
        (Some("0"), Some(0)),
        (Some("1"), Some(1)),
        (Some("5"), Some(5)),
        (Some("-1"), None),
        (Some("abc"), None),
        (Some(""), None),
        (Some("4294967296"), None),
    ]
}
fn env_backoff_ms() -> Vec<EnvCase<u64>> {
    vec![
        (None, None),
        (Some("0"), Some(0)),
        (Some("1"), Some(1)),
        (Some("20000"), Some(20_000)),
        (Some("3600000"), Some(3_600_000)),
        (Some("18446744073709551615"), Some(u64::MAX)),
        (Some("-5"), None),
        (Some("1.5"), None),
    ]
}
fn env_max_s() -> Vec<EnvCase<u64>> {
    vec![
        (None, None),
        (Some("0"), Some(0)),
        (Some("1"), Some(1)),
        (Some("18446744073709551615"), Some(u64::MAX)),
        (Some("18446744073709551616"), None),
        (Some("ten"), None),
    ]
}
fn env_mult() -> Vec<EnvCase<f64>> {
    vec![
        (None, None),
        (Some("0"), Some(0.0)),
        (Some("0.5"), Some(0.5)),
        (Some("1"), Some(1.0)),
        (Some("10"), Some(10.0)),
        (Some("1e308"), Some(1e308)),
        (Some("inf"), Some(f64::INFINITY)),
        (Some("NaN"), Some(f64::NAN)),
        (Some("-1"), Some(-1.0)),
        (Some("x2"), None),
    ]
}
fn env_jitter() -> Vec<EnvCase<bool>> {
    vec![(None, None), (Some("true"), Some(true)), (Some("false"), Some(false)), (Some("1"), None), (Some("FALSE"), None)]
}

fn set_env(name: &str, v: Option<&str>) {
    // SAFETY: called only from the single-threaded from_env phase, before any worker thread
    // of this check exists.
    unsafe {
        match v {
            Some(s) => std::env::set_var(name, s),
            None => std::env::remove_var(name),
        }
    }
}

/// Enumerate the full product of environment strings through the real `from_env`
/// (single-threaded), compare every field with the documented "parse or default" reference,
/// and return the distinct policies obtained.
fn from_env_phase(rep: &Report, tier: Tier) -> Vec<Pol> {
    let saved: Vec<Option<String>> = ENV_VARS.iter().map(|n| std::env::var(n).ok()).collect();
    let (r, b, m, x, j) = (env_retries(), env_backoff_ms(), env_max_s(), env_mult(), env_jitter());
    let mut pols: BTreeMap<String, Pol> = BTreeMap::new();
    let mut n = 0u64;
    let mut skipped_exec = 0u64;
    // quick: one variable at a time deviates from "unset" plus the all-hostile corner;
    // thorough: the full product
    let full = tier == Tier::Thorough;
    for (ri, rc) in r.iter().enumerate() {
        for (bi, bc) in b.iter().enumerate() {
            for (mi, mc) in m.iter().enumerate() {
                for (xi, xc) in x.iter().enumerate() {
                    for (ji, jc) in j.iter().enumerate() {
                        let deviating = [ri, bi, mi, xi, ji].iter().filter(|i| **i != 0).count();
                        if !full && deviating > 2 {
                            continue;
                        }
                        set_env(ENV_VARS[0], rc.0);
                        set_env(ENV_VARS[1], bc.0);
                        set_env(ENV_VARS[2], mc.0);
                        set_env(ENV_VARS[3], xc.0);
                        set_env(ENV_VARS[4], jc.0);
                        n += 1;
                        let strings = json!({ENV_VARS[0]: rc.0, ENV_VARS[1]: bc.0, ENV_VARS[2]: mc.0, ENV_VARS[3]: xc.0, ENV_VARS[4]: jc.0});
                        let got = catch(RetryPolicy::from_env);
                        let want = Pol {
                            max_attempts: rc.1.unwrap_or(3),
                            initial: Duration::from_millis(bc.1.unwrap_or(100)),
                            max: Duration::from_secs(mc.1.unwrap_or(10)),
                            mult: xc.1.unwrap_or(2.0),
                            jitter: jc.1.unwrap_or(true),
                            origin: "env",
                        };
                        match got {
                            Err(msg) => rep.violation(
                                "from-env-panic",
                                &format!("from-env-panic:{}", norm_msg(&msg)),
                                json!({"mode": "from_env", "env": strings}),
                                &format!("RetryPolicy::from_env panicked: {msg}"),
                            ),
                            Ok(Err(e)) => rep.violation(
                                "from-env-error",
                                "from-env-error",
                                json!({"mode": "from_env", "env": strings}),
                                &format!("RetryPolicy::from_env returned an error for documented variables: {e}"),
                            ),
                            Ok(Ok(p)) => {
                                let got = Pol {
                                    max_attempts: p.max_attempts,
                                    initial: p.initial_backoff,
                                    max: p.max_backoff,
                                    mult: p.multiplier,
                                    jitter: p.jitter,
                                    origin: "env",
                                };
                                let same = got.max_attempts == want.max_attempts
                                    && got.initial == want.initial
                                    && got.max == want.max
                                    && (got.mult.to_bits() == want.mult.to_bits() || (got.mult.is_nan() && want.mult.is_nan()))
                                    && got.jitter == want.jitter;
                                if !same {
                                    let field = if got.max_attempts != want.max_attempts {
                                        "max_attempts"
                                    } else if got.initial != want.initial {
                                        "initial_backoff"
                                    } else if got.max != want.max {
                                        "max_backoff"
                                    } else if got.jitter != want.jitter {
                                        "jitter"
                                    } else {
                                        "multiplier"
                                    };
                                    rep.violation(
                                        "from-env-mismatch",
                                        &format!("from-env-mismatch:{field}"),
                                        json!({"mode": "from_env", "env": strings}),
                                        &format!("from_env gave {:?}, documented parse-or-default gives {:?}", got.to_json(), want.to_json()),
                                    );
                                }
                                rep.add_outcome(fnv64_str(&format!("env:{}", got.key())));
                                if secs(got.initial) >= HUGE_SECS {
                                    // parsed and compared, but not executed: `execute` would hand
                                    // tokio sleeps far beyond its documented 2.2-year maximum
                                    // (2^63 ms after one halving), for which tokio 1.49's timer
                                    // wheel hangs or corrupts memory. The unclamped initial
                                    // back-off these policies would show is exhibited by
                                    // initial 20 s / 1 h > max 10 s.
                                    skipped_exec += 1;
                                } else if got.max_attempts <= 5 {
                                    let mut g = got;
                                    if g.mult.is_nan() {
                                        g.mult = f64::NAN; // one canonical NaN
                                    }
                                    pols.entry(g.key()).or_insert(g);
                                }
                            }
                        }
                    }
                }
            }
        }
    }
    for (name, v) in ENV_VARS.iter().zip(saved) {
        set_env(name, v.as_deref());
    }
    rep.bump("from_env_calls", n);
    rep.bump("from_env_results_with_astronomical_initial_backoff_parsed_but_not_executed", skipped_exec);
    rep.add_evaluations(n);
    pols.into_values().collect()
}

// ---------------------------------------------------------------------------------------
// driver
// ---------------------------------------------------------------------------------------

fn alphabet(tier: Tier, _pol: &Pol) -> Vec<Out> {
    match tier {
        // DESIGN alphabet: Ok, retryable ServerError, rate-limited {none, 0 s, 5 s}, 404 — and the
        // largest Retry-After the header parser can produce (a hint above every max_backoff)
        Tier::Quick => vec![Out::Ok, Out::Srv, Out::RlNone, Out::Rl0, Out::Rl5, Out::RlHuge, Out::NotFound],
        // + the second retryable family (HttpStatus arm of should_retry), Timeout, a second
        // non-retryable error and the largest Retry-After the header parser can produce
        Tier::Thorough => vec![Out::Ok, Out::Srv, Out::Http503, Out::Timeout, Out::RlNone, Out::Rl0, Out::Rl5, Out::RlHuge, Out::NotFound, Out::Parse],
    }
}

pub fn run(tier: Tier, seed: u64) -> i32 {
    let rep = Report::new("C14", tier, seed, Level::ModelChecking);
    rep.set_rule(
        "for every policy of the grid (and every distinct policy RetryPolicy::from_env produces from the environment-string grid) the complete outcome tree is enumerated: a path ends at the first Ok / non-retryable outcome or after max_attempts+1 retryable outcomes; every complete path is one execution of the real RetryPolicy::execute under tokio's paused clock with a scripted closure; an invocation beyond the script is a violation, so the implementation decides where it stops. states = distinct (policy, outcome-prefix) nodes; transitions = closure invocations executed; traces = complete paths; every path is distinct; non-trivial = path with at least one retry (≥ 2 outcomes). Below a prefix after which the call provably never invokes the operation again (it panicked, or was still waiting when the 200-virtual-day watchdog fired) all paths are the same execution and only the first is run; after a Retry-After of 2^64-1 s only the continuation Ok is kept. CDN part: the complete tree of server answer sequences (200/404/429 with and without Retry-After/503, depth max_attempts+1 = 4) is served by a loopback endpoint to the real CdnClient::download and download_archive_index in real time; request count, result and lower bounds on inter-request gaps are judged (coverage.cdn_part)",
    );
    rep.assume("tokio's paused clock is exact for pure timers up to the 1 ms granularity of its timer wheel (upper bounds carry +1 ms); the virtual clock is never advanced more than 200 days per execution (tokio's timer wheel supports deadlines ≤ 2^36 ms ahead); a wait still pending then is judged through its lower bound only, and waits that max_backoff or the Retry-After hint themselves make ≥ 1e7 s are not judged on their length");
    rep.assume("reference model: attempts ≤ max_attempts+1, stop at first Ok/non-retryable, d_k = min(d_{k-1}·multiplier, max) with d_0 = initial for sane policies; jitter judged only through the interval [d, 1.3 d]");
    rep.assume("from_env reference: each variable parses with Rust's FromStr for its field type or falls back to the documented default (3, 100 ms, 10 s, 2.0, true)");

    // 1. from_env (single-threaded: the environment is process-global)
    let env_pols = from_env_phase(&rep, tier);

    // 2. policy set
    let mut pols: BTreeMap<String, Pol> = BTreeMap::new();
    for p in grid(tier) {
        pols.entry(p.key()).or_insert(p);
    }
    let n_grid = pols.len();
    for p in env_pols {
        pols.entry(p.key()).or_insert(p);
    }
    let mut pols: Vec<Pol> = pols.into_values().collect();
    let n_env_extra = pols.len() - n_grid;
    // the first witness kept per signature is the one closest to the default policy
    let dist = |p: &Pol| -> u32 {
        u32::from(p.max_attempts != 3)
            + u32::from(p.initial != ms(100))
            + u32::from(p.max != Duration::from_secs(10))
            + u32::from(p.mult != 2.0)
            + u32::from(p.jitter)
    };
    pols.sort_by_key(|p| (dist(p), p.key()));

    // 3. trees
    let debug = std::env::var_os("VERIF_C14_DEBUG").is_some();
    let stats = par_map(pols.len(), |i| {
        let t = std::time::Instant::now();
        if debug {
            eprintln!("begin {i} {}", pols[i].to_json());
        }
        let st = explore_policy(&pols[i], &alphabet(tier, &pols[i]));
        if debug {
            eprintln!("end {i}");
        }
        if debug && t.elapsed().as_secs_f64() > 0.5 {
            eprintln!("slow policy {:.1}s paths={} {}", t.elapsed().as_secs_f64(), st.paths, pols[i].to_json());
        }
        st
    });

    let mut total_paths = 0u64;
    let mut nontrivial = 0u64;
    let mut long_waits = 0u64;
    let mut pruned = 0u64;
    let mut samples = 0;
    let mut with_jitter_paths = 0u64;
    let mut all_vios: Vec<(usize, usize, &Vio, &Vec<Out>, &Obs, &Pol)> = Vec::new();
    for (pol, st) in pols.iter().zip(stats.iter()) {
        rep.add_states(st.nodes);
        rep.add_transitions(st.invocations);
        rep.add_traces(st.paths);
        rep.add_evaluations(st.paths);
        total_paths += st.paths;
        long_waits += st.long_waits_by_config;
        pruned += st.pruned_nodes;
        if pol.jitter {
            with_jitter_paths += st.paths;
        }
        nontrivial += st.nontrivial;
        for h in &st.outcomes {
            rep.add_outcome(*h);
        }
        if samples < 8 && pol.max_attempts >= 2 && pol.initial > Duration::ZERO && pol.max > pol.initial {
            if let Some(s) = &st.sample {
                rep.sample(s.clone());
                samples += 1;
            }
        }
        for (v, path, obs) in &st.vios {
            all_vios.push((path.len(), all_vios.len(), v, path, obs, pol));
        }
    }
    // shortest path first (then closest-to-default policy): the witness kept per signature is minimal
    all_vios.sort_by_key(|x| (x.0, x.1));
    for (_, _, v, path, obs, pol) in &all_vios {
        rep.violation(
            v.kind,
            &v.sig,
            json!({
                "mode": "execute",
                "policy": pol.to_json(),
                "path": path.iter().map(|o| o.name()).collect::<Vec<_>>(),
                "observed_invocation_times_s": obs.times.iter().map(|t| secs(*t)).collect::<Vec<_>>(),
                "observed_result": obs.result,
                "observed_panic": obs.panic,
            }),
            &v.detail,
        );
    }
    rep.add_nontrivial_count(nontrivial);
    rep.extra(
        "bounds",
        json!({
            "max_attempts": "0..=5",
            "initial_backoff": ["0", "1ms", "100ms", "20s"],
            "max_backoff": ["0", "1ms", "10s"],
            "multiplier": ["0", "0.5", "1", "2", "10", "1e308", "+inf", "NaN", "-1"],
            "jitter": [false, true],
            "grid_policies": n_grid,
            "additional_policies_from_env": n_env_extra,
            "env_product": if tier == Tier::Thorough { "full product of the per-variable string lists" } else { "at most two variables deviate from unset" },
            "outcome_alphabet_quick": ["Ok", "ServerError(500+i)", "RateLimited(none)", "RateLimited(0s)", "RateLimited(5s)", "HttpStatus(404)"],
            "outcome_alphabet_thorough": "quick + HttpStatus(503), Timeout, Parse, RateLimited(u64::MAX s)",
            "tree_depth": "max_attempts + 1 outcomes (an invocation beyond that is flagged by the overrun guard)",
            "complete_paths": total_paths,
            "paths_with_jitter_on": with_jitter_paths,
            "paths_ending_in_a_wait_made_astronomical_by_max_backoff_itself": long_waits,
            "subtrees_cut_below_a_dead_prefix": pruned,
        }),
    );
    // 4. CDN part: the HTTP-status mapping of CdnClient::download_with_retry (real time, lower bounds only)
    super::c14_cdn::run_part(&rep, tier);
    if rep.outcomes() < 50 {
        rep.machinery_error("vacuous enumeration: fewer than 50 distinct observed outcomes");
    }
    // every violation reported must replay
    for v in rep.violations_snapshot() {
        if v.witness["mode"] == "execute" {
            let again = replay_witness(&v.witness);
            if !again.iter().any(|x| x.sig == v.sig) {
                // jitter is random: a jitter-dependent violation may need a few tries
                let mut hit = false;
                for _ in 0..50 {
                    if replay_witness(&v.witness).iter().any(|x| x.sig == v.sig) {
                        hit = true;
                        break;
                    }
                }
                if !hit {
                    rep.machinery_error(&format!("violation {} did not reproduce on replay", v.sig));
                }
            }
        }
    }
    rep.finish()
}

fn replay_witness(w: &Value) -> Vec<Vio> {
    let Some(pol) = Pol::from_json(&w["policy"]) else { return Vec::new() };
    let path: Vec<Out> = w["path"]
        .as_array()
        .map(|a| a.iter().filter_map(|s| Out::from_name(s.as_str().unwrap_or(""))).collect())
        .unwrap_or_default();
    let rt = new_rt();
    let (obs, _) = run_path(&rt, &pol, &path);
    judge(&pol, &path, &obs)
}

pub fn replay(w: &Value) -> i32 {
    let wit = &w["witness"];
    if wit["mode"] == "cdn" {
        return super::c14_cdn::replay(wit);
    }
    if wit["mode"] == "tree" {
        // debugging aid: run the whole thorough tree of one policy on this thread
        let pol = Pol::from_json(&wit["policy"]).expect("policy");
        let st = explore_policy(&pol, &alphabet(Tier::Thorough, &pol));
        println!("paths={} vios={}", st.paths, st.vios.len());
        return 0;
    }
    if wit["mode"] == "from_env" {
        let saved: Vec<Option<String>> = ENV_VARS.iter().map(|n| std::env::var(n).ok()).collect();
        for n in ENV_VARS {
            set_env(n, wit["env"][n].as_str());
        }
        let got = catch(RetryPolicy::from_env);
        for (name, v) in ENV_VARS.iter().zip(saved) {
            set_env(name, v.as_deref());
        }
        println!("from_env with {} -> {:?}", wit["env"], got.as_ref().map(|r| r.as_ref().map(|p| format!("{p:?}")).map_err(|e| e.to_string())));
        return match got {
            Ok(Ok(_)) => {
                println!("(compare the fields with the documented parse-or-default values)");
                1
            }
            _ => 1,
        };
    }
    let Some(pol) = Pol::from_json(&wit["policy"]) else {
        println!("MACHINERY-ERROR: witness has no policy");
        return 2;
    };
    let path: Vec<Out> = wit["path"]
        .as_array()
        .map(|a| a.iter().filter_map(|s| Out::from_name(s.as_str().unwrap_or(""))).collect())
        .unwrap_or_default();
    println!("replaying RetryPolicy::execute with {} on outcomes {:?}", pol.to_json(), path.iter().map(|o| o.name()).collect::<Vec<_>>());
    let rt = new_rt();
    let (obs, _) = run_path(&rt, &pol, &path);
    println!(
        "observed: invocations at {:?} s, result {:?}, panic {:?}, overrun {}, watchdog {:?}",
        obs.times.iter().map(|t| secs(*t)).collect::<Vec<_>>(),
        obs.result,
        obs.panic,
        obs.overrun,
        obs.watchdog
    );
    let v = judge(&pol, &path, &obs);
    if v.is_empty() {
        println!("no violation");
        0
    } else {
        for x in &v {
            println!("violates: {} [{}]: {}", x.kind, x.sig, x.detail);
        }
        1
    }
}
